#!/bin/sh
# run every registered check (quick by default) and report; used before committing evidence
TIER=${1:-quick}
cd "$(dirname "$0")"
rc=0
for p in $(/venv/bin/python -c "import json;print(' '.join(c['property_id'] for c in json.load(open('MANIFEST.json'))['checks']))"); do
  ./check $p --tier $TIER > /tmp/rpverif_runall_$p.log 2>&1 &
done
wait
for p in $(/venv/bin/python -c "import json;print(' '.join(c['property_id'] for c in json.load(open('MANIFEST.json'))['checks']))"); do
  tail -1 /tmp/rpverif_runall_$p.log
  grep -h "^VIOLATION\|^KNOWN-FINDING\|^ERROR\|BROKEN" /tmp/rpverif_runall_$p.log | cut -c1-300
  rm -f /tmp/rpverif_runall_$p.log
done
