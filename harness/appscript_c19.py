"""An application main script for C19 (run by harness/props/c19.py as `__main__` in a child process).

Function tasks are normally defined in the application's main script: functions, classes and helpers
live in `__main__`, so the encoders ship them by value.  The functions below use their module
namespace in the legal ways an application does: constants, helpers, recursion, closures, application
classes (isinstance, ==, except), a helper looked up by name, state kept in a module-level object.

usage: appscript_c19.py <seed> <count>;  prints one JSON line: the list of differing cases"""

import os
import sys
import json
import random
import functools

sys.path.insert(0, os.path.dirname(os.path.abspath(__file__)))
import rpload                                                                  # noqa: E402
rp = rpload.load()


# ------------------------------------------------------------------------------
# application code
class Point(object):
    def __init__(self, x, y): self.x, self.y = x, y
    def __eq__(self, other):
        return isinstance(other, Point) and (self.x, self.y) == (other.x, other.y)
    def __hash__(self): return hash((self.x, self.y))


class Point3(Point):
    def __init__(self, x, y, z):
        Point.__init__(self, x, y); self.z = z


class AppError(Exception):
    pass


SCALE  = 3
TABLE  = {'double': 2, 'triple': 3}
COUNTS = []


def add(a, b=0): return a + b
def scaled(x): return SCALE * x
def fact(n): return 1 if n <= 1 else n * fact(n - 1)
def double(x): return 2 * x
def triple(x): return 3 * x


def scaled_by(k):
    """an application decorator written the usual way (functools.wraps): what is shipped is the decorated function"""
    def deco(f):
        @functools.wraps(f)
        def inner(*a, **kw): return k * f(*a, **kw)
        return inner
    return deco


@scaled_by(3)
def tripled_plus_one(x): return x + 1


def clamped(f):
    @functools.wraps(f)
    def inner(x): return max(0, f(x))
    return inner


@clamped
def minus_four(x): return x - 4


def make_offset(off):
    def shifted(x): return x + off
    return shifted


def norm1(p):
    if isinstance(p, Point):
        return abs(p.x) + abs(p.y)
    return -1


def is_origin(p): return p == Point(0, 0)
def kind_of(p): return 'p3' if type(p) is Point3 else 'p2' if type(p) is Point else 'other'


def checked(x):
    try:
        if x % 2: raise AppError(x)
        return x
    except AppError as e:
        return -e.args[0]


def raiser(e, x):
    try:
        if x % 2: raise e
        return x
    except AppError:
        return -x


def dispatch(name, x): return globals()[name](x)
def by_eval(name, x): return eval('%s(x)' % name)
def table(name, x): return TABLE[name] * x
def in_set(p, x, y): return p in {Point(x, y), Point(0, 0)}
def build(x, y): return [Point(x, y).x, Point3(x, y, 1).z, isinstance(Point3(x, y, 2), Point)]


def scale_or(base):
    def f(x, scale=2): return [x, base, 'unset' if scale is None else scale * x]
    return f


class Feed(object):
    """a class that keeps a process-local resource as a class attribute (a generator here; sockets, locks, open files are
    the usual ones): the class cannot be encoded by value, its instances and methods travel by reference"""
    stream = (i for i in range(3))
    def __init__(self, k): self.k = k
    def __call__(self, x): return self.k * x
    def plus(self, x): return self.k + x


def gen_case(rng):
    k = rng.randrange(23)
    n, m = rng.randint(0, 9), rng.randint(-5, 5)
    if k == 0:  return 'add',       add, (n, m), {}
    if k == 1:  return 'add_kw',    add, (n,), {'b': m}
    if k == 2:  return 'scaled',    scaled, (n,), {}
    if k == 3:  return 'fact',      fact, (n % 7,), {}
    if k == 4:  return 'closure',   make_offset(m), (n,), {}
    if k == 5:  return 'partial',   functools.partial(add, n), (m,), {}
    if k == 6:  return 'isinstance', norm1, (rng.choice([Point(n, m), Point3(n, m, 1), (n, m)]),), {}
    if k == 7:  return 'eq',        is_origin, (rng.choice([Point(0, 0), Point(n, m), Point3(0, 0, 0)]),), {}
    if k == 8:  return 'type_is',   kind_of, (rng.choice([Point(n, m), Point3(n, m, 1), n]),), {}
    if k == 9:  return 'except',    checked, (n,), {}
    if k == 10: return 'except_arg', raiser, (AppError(n), n), {}
    if k == 11: return 'globals',   dispatch, (rng.choice(['double', 'triple', 'fact']), n % 6), {}
    if k == 12: return 'eval',      by_eval, (rng.choice(['double', 'triple']), n), {}
    if k == 13: return 'table',     table, (rng.choice(['double', 'triple']), n), {}
    if k == 14: return 'hash_set',  in_set, (Point(n, m), n, rng.choice([m, m + 1])), {}
    if k == 16: return 'decorated', tripled_plus_one, (n,), {}
    if k == 17: return 'decorated_clamp', minus_four, (n,), {}
    if k in (21, 22): return 'kwarg_none', scale_or(n), (m,), {'scale': rng.choice([None, None, 3])}   # None is a value like any other
    if k == 18: return 'resource_class_instance', Feed(m), (n,), {}
    if k in (19, 20): return 'resource_class_method', Feed(m).plus, (n,), {}
    return 'construct', build, (n, m), {}


def call(f, a, k):
    try:
        return ['ok', repr(f(*a, **(k or {})))]
    except Exception as e:
        return ['raised', type(e).__name__]


def main():
    seed, count = sys.argv[1], int(sys.argv[2])
    only = int(sys.argv[3]) if len(sys.argv) > 3 else None
    bad, kinds = [], {}
    for i in range(count):
        if only is not None and i != only: continue
        for how in ('PythonTask', 'PythonTask_list', 'pythontask'):
            name, f, a, k = gen_case(random.Random('%s-app-%d' % (seed, i)))
            kinds[name] = kinds.get(name, 0) + 1
            want = call(f, a, k)
            try:
                # (the positional arguments as a tuple or as a list - TaskDescription.args is a list)
                s = rp.PythonTask(f, a, k) if how == 'PythonTask' else rp.PythonTask(f, list(a), k) if how == 'PythonTask_list' \
                    else rp.PythonTask.pythontask(f)(*a, **k)
                g, a2, k2 = rp.PythonTask.get_func_attr(s)
                got = call(g, a2, k2)
            except Exception as e:
                got = ['transport-raised', type(e).__name__]
            if got != want:
                bad.append({'index': i, 'how': how, 'case': name, 'args': repr(a), 'got': got, 'want': want})
    print(json.dumps({'bad': bad, 'kinds': kinds}))


if __name__ == '__main__':
    main()
