"""In-process task pipeline out of the REAL components, with their REAL `advance`
(ClientComponent / AgentComponent / BaseComponent): tmgr staging input -> agent staging
input -> (agent scheduler: passes the task on, see C01-C04) -> Popen executor (scripted
process object) -> agent staging output -> tmgr staging output; every state notification
published on the state pubsub is collected and finally fed to the real
TaskManager._update_tasks.  Only the environment is replaced: queues and pubsub are in
memory, `sp.Popen` is a scripted process, the staging back end works on a scratch tree."""

import os
import copy
import queue
import threading as mt

import rpload
import stagelib
import stubs


class Bus(object):
    def __init__(self):
        self.updates  = []     # (component, [task dicts as published])
        self.pushed   = []     # (component, state, [uids])
        self.unsched  = []


class Pub(object):
    def __init__(self, bus, comp, kind): self.bus, self.comp, self.kind = bus, comp, kind
    def put(self, topic, msg):
        if self.kind == 'state':
            if msg.get('cmd') == 'update':
                self.bus.updates.append((self.comp, copy.deepcopy([{k: v for k, v in t.items() if k != 'proc'} for t in msg['arg']])))
        elif self.kind == 'unsched':
            for t in (msg if isinstance(msg, list) else [msg]):
                self.bus.unsched.append(t['uid'])


class Out(object):
    def __init__(self, bus, comp, sink): self.bus, self.comp, self.sink, self.channel, self.name = bus, comp, sink, 'q', 'q'
    def put(self, things, qname=None):
        for t in things:
            self.bus.pushed.append((self.comp, t['state'], t['uid']))
            self.sink.append(t)


class Prof(object):
    enabled = False
    def prof(self, *a, **k): pass


NONFINAL = ['NEW', 'TMGR_SCHEDULING_PENDING', 'TMGR_SCHEDULING', 'TMGR_STAGING_INPUT_PENDING', 'TMGR_STAGING_INPUT',
            'AGENT_STAGING_INPUT_PENDING', 'AGENT_STAGING_INPUT', 'AGENT_SCHEDULING_PENDING', 'AGENT_SCHEDULING',
            'AGENT_EXECUTING_PENDING', 'AGENT_EXECUTING', 'AGENT_STAGING_OUTPUT_PENDING', 'AGENT_STAGING_OUTPUT',
            'TMGR_STAGING_OUTPUT_PENDING', 'TMGR_STAGING_OUTPUT']


def wire(rp, comp, name, bus):
    import radical.pilot.constants as rpc
    comp._uid, comp._log, comp._prof = name, rpload.NullLog(), Prof()
    comp.sink = []
    comp._publishers = {rpc.STATE_PUBSUB: Pub(bus, name, 'state'), rpc.CONTROL_PUBSUB: Pub(bus, name, 'control'),
                        rpc.AGENT_UNSCHEDULE_PUBSUB: Pub(bus, name, 'unsched')}
    comp._outputs = {s: Out(bus, name, comp.sink) for s in NONFINAL}
    comp._cancel_list, comp._cancel_lock = [], mt.RLock()
    return comp


class FakeProc(object):
    def __init__(self): self.code, self.pid = None, 4242
    def poll(self): return self.code
    def wait(self, timeout=None): return self.code
    def kill(self, code=137):
        if self.code is None: self.code = code


class Launcher(object):
    name = 'FORK'
    def cancel_task(self, task, pid): task['_fake'].kill()


def make_components(rp, tree, bus):
    import radical.pilot.utils as rpu
    from radical.pilot.tmgr.staging_input.default   import Default as TIn
    from radical.pilot.agent.staging_input.default  import Default as AIn
    from radical.pilot.agent.staging_output.default import Default as AOut
    from radical.pilot.tmgr.staging_output.default  import Default as TOut
    from radical.pilot.agent.executing.popen import Popen
    c = {}
    for key, cls in (('tin', TIn), ('ain', AIn), ('aout', AOut), ('tout', TOut)):
        o = wire(rp, object.__new__(cls), key, bus)
        o._stager = rpu.StagingHelper(o._log)
        o._pwd = os.getcwd()
        c[key] = o
    tin = c['tin']
    tin._pilots, tin._pilots_lock, tin._connected = {}, mt.RLock(), []
    tin._session_sbox, tin._tar_idx, tin._mkdir_threshold = tree.url(tree.ssbox), 0, 10 ** 9
    p = wire(rp, object.__new__(Popen), 'exec', bus)
    p._tasks, p._check_lock, p._watch_queue = dict(), mt.Lock(), queue.Queue()
    p._to_tasks, p._to_lock, p._term = [], mt.RLock(), mt.Event()
    class _Sess(object):
        class rcfg(object): new_session_per_task = False
    p._session = _Sess()
    p._create_exec_script   = lambda launcher, task: ('exec.sh', 'exec.sh')
    p._create_launch_script = lambda launcher, task, ep: ('launch.sh', 'launch.sh')
    c['exec'] = p
    return c


def work_as_work_cb(comp, things):
    """what BaseComponent.work_cb does around a work routine (tied separately: C05's run_work_cb drives the real
    work_cb): an exception that escapes the routine fails every thing of the bulk it was called with"""
    import radical.utils as ru
    try:
        comp.work(things)
    except Exception as e:
        for thing in things:
            thing['exception']        = repr(e)
            thing['exception_detail'] = '\n'.join(ru.get_exception_trace())
        comp.advance(things, 'FAILED', publish=True, push=False)


def run(rp, tree, tasks, plans):
    """tasks: task dicts (stagelib.Tree.task_dict), plans: uid -> {'exec': 'no_launcher'|'launch_error'|'canceled'|'timeout'|int,
    'produce': {rel: content}}.  Returns the bus and the components."""
    import radical.utils as ru
    import radical.pilot.agent.executing.popen as popen_mod
    bus = Bus()
    c = make_components(rp, tree, bus)
    cwd = os.getcwd()
    os.chdir(tree.client)
    saved = (popen_mod.sp.Popen, ru.ru_open)
    try:
        for t in tasks:
            t['type'] = 'task'; t['origin'] = 'client'
        work_as_work_cb(c['tin'], tasks)
        os.chdir(tree.psbox)
        to_agent = [copy.deepcopy(t) for t in c['tin'].sink]
        work_as_work_cb(c['ain'], to_agent)
        to_exec = list(c['ain'].sink)
        # the agent scheduler passes the task on (C01-C04); its notifications are not part of this run
        p = c['exec']
        cur = {}
        def fake_popen(*a, **k):
            t = cur['task']
            if plans[t['uid']]['exec'] == 'launch_error':
                raise OSError('spawn failed')
            t['_fake'] = FakeProc()
            return t['_fake']
        class _F(object):
            def write(self, *a): pass
            def close(self): pass
        popen_mod.sp.Popen = fake_popen
        ru.ru_open_orig = ru.ru_open
        class _RM(object):
            def find_launcher(self, task):
                cur['task'] = task
                if plans[task['uid']]['exec'] == 'no_launcher': return None, None
                return Launcher(), 'FORK'
            def get_launcher(self, name): return Launcher()
        p._rm = _RM()
        for t in to_exec:
            t['state'] = 'AGENT_EXECUTING_PENDING'; t['slots'] = []
            t['description']['timeout'] = 5.0
        orig_open = ru.ru_open
        def patched_open(path, *a, **k):
            if str(path).endswith('.launch.out'): return _F()
            return orig_open(path, *a, **k)
        ru.ru_open = patched_open
        popen_mod.ru.ru_open = patched_open
        work_as_work_cb(p, to_exec)
        popen_mod.sp.Popen = saved[0]
        # the processes run; what the task writes appears in its sandbox; then they end as planned
        to_watch = []
        for t in to_exec:
            if '_fake' not in t: continue
            sb = t['task_sandbox_path']
            os.makedirs(sb, exist_ok=True)
            for rel, content in plans[t['uid']].get('produce', {}).items():
                fp = os.path.join(sb, rel)
                os.makedirs(os.path.dirname(fp), exist_ok=True)
                with open(fp, 'w') as f: f.write(content)
            ex = plans[t['uid']]['exec']
            if ex == 'canceled':
                p._control_cb('control_pubsub', {'cmd': 'cancel_tasks', 'arg': {'uids': [t['uid']]}})
                p.control_cb('control_pubsub', {'cmd': 'cancel_tasks', 'arg': {'uids': [t['uid']]}})
            elif ex == 'timeout':
                p.cancel_task(task=t)
            else:
                t['_fake'].code = ex
        try:
            while True: to_watch.append(p._watch_queue.get_nowait())
        except queue.Empty:
            pass
        p._check_running(to_watch)
        ru.ru_open = orig_open; popen_mod.ru.ru_open = orig_open
        popen_mod.sp.Popen = saved[0]          # `sp` is the subprocess module itself: restore before anything else runs
        to_out = list(p.sink)
        for t in to_out:
            t.pop('_fake', None)
            t.setdefault('stdout', ''); t.setdefault('stderr', '')
            t['stdout_file'] = t['stderr_file'] = None
        work_as_work_cb(c['aout'], to_out)
        os.chdir(tree.client)
        to_client = [copy.deepcopy(t) for t in c['aout'].sink]
        work_as_work_cb(c['tout'], to_client)
    finally:
        popen_mod.sp.Popen = saved[0]
        ru.ru_open = saved[1]; popen_mod.ru.ru_open = saved[1]
        os.chdir(cwd)
    return bus, c


class _PilotEnd(object):
    def __init__(self, pid, state): self.uid, self.state = pid, state


def client_view(rp, bus, uids, order=None, pilots=None, ends=None):
    """feed the published state updates to a real TaskManager (real Task objects) in the given order.
    pilots: uid -> pilot the task is bound to; ends: [(position, pilot id, final state)]: before the batch at that
    position (len = after all) the end of that pilot is delivered to the real TaskManager._pilot_state_cb"""
    tm = stubs.make_tmgr(rp)
    tasks = {u: stubs.make_task(rp, tm, u, state='TMGR_STAGING_INPUT_PENDING', pilot=(pilots or {}).get(u)) for u in uids}
    cbs = {u: [] for u in uids}
    for u, t in tasks.items():
        t.register_callback(lambda task, state, u=u: cbs[u].append(state))
    batches = [arg for _, arg in bus.updates]
    if order is not None:
        batches = [batches[i] for i in order]
    errors = []
    def deliver_ends(pos):
        for at, pid, state in (ends or []):
            if at == pos:
                try:
                    tm._pilot_state_cb(_PilotEnd(pid, state))
                except Exception as e:
                    errors.append('pilot end: ' + repr(e))
    for k, b in enumerate(batches):
        deliver_ends(k)
        try:
            tm._update_tasks(copy.deepcopy(b))
        except Exception as e:
            errors.append(repr(e))
    deliver_ends(len(batches))
    return {u: {'state': t.state, 'exit_code': t.exit_code, 'exception': t.exception, 'callbacks': cbs[u]} for u, t in tasks.items()}, errors
