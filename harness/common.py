"""Shared plumbing: context, Lean build + axiom audit, model driver, verdict,
evidence, known findings, replays."""

import os
import re
import sys
import json
import time
import fcntl
import random
import hashlib
import subprocess

HARNESS = os.path.dirname(os.path.abspath(__file__))
VERIF   = os.path.dirname(HARNESS)
LEAN    = os.path.join(VERIF, 'lean')
REPO    = os.environ.get('RPVERIF_REPO', '/repo')
SRC     = os.path.join(REPO, 'src', 'radical', 'pilot')

ALLOWED_AXIOMS = {'propext', 'Classical.choice', 'Quot.sound'}
FORBIDDEN = re.compile(r'\bsorry\b|\badmit\b|^\s*axiom\s|native_decide|bv_decide|'
                       r'implemented_by|\bunsafe\s|maxHeartbeats\s+0\b|\bpartial\s+def\b',
                       re.M)


class Ctx(object):

    def __init__(self, prop, tier, seed):
        self.prop     = prop
        self.tier     = tier
        self.seed     = seed
        self.rng      = random.Random(seed)
        self.t0       = time.time()
        self.obl      = []      # proof/tie obligations: {name, kind, ok, detail}
        self.failures = []      # concrete failing inputs on the REAL code
        self.samples  = []
        self.evals    = 0
        self.distinct = set()
        self.traces   = 0
        self.extra    = {}
        self.assume   = []
        self.trusted  = []
        self.exhaustive = False
        self.rule     = ''
        self.notes    = []
        self.checker_cmd = ''

    # -- bookkeeping ---------------------------------------------------------
    def obligation(self, name, kind, ok, detail=''):
        self.obl.append({'name': name, 'kind': kind, 'ok': bool(ok),
                         'detail': str(detail)[:2000]})
        return ok

    def fail(self, signature, what, inp, observed=None, expected=None):
        """a concrete input on which the REAL code violates the property"""
        self.failures.append({'signature': signature, 'what': what, 'input': inp,
                              'observed': observed, 'expected': expected})

    def case(self, key, nontrivial=True):
        self.evals += 1
        if nontrivial:
            self.distinct.add(hashlib.sha1(
                json.dumps(key, sort_keys=True, default=str).encode()).hexdigest())

    def sample(self, s, limit=4):
        if len(self.samples) < limit:
            self.samples.append(s)

    def n(self, quick, thorough):
        return thorough if self.tier == 'thorough' else quick


# ------------------------------------------------------------------------------
# Lean side
#
def _strip_comments(txt):
    # nested block comments are rare here; handle one level + line comments
    out, i, depth = [], 0, 0
    while i < len(txt):
        if txt.startswith('/-', i):
            depth += 1; i += 2; continue
        if txt.startswith('-/', i) and depth:
            depth -= 1; i += 2; continue
        if depth:
            if txt[i] == '\n': out.append('\n')
            i += 1; continue
        if txt.startswith('--', i):
            j = txt.find('\n', i)
            i = len(txt) if j < 0 else j
            continue
        out.append(txt[i]); i += 1
    return ''.join(out)


def lean_sources():
    res = [os.path.join(LEAN, 'Main.lean')]
    for root, _, files in list(os.walk(os.path.join(LEAN, 'RPVerif'))) + \
                          list(os.walk(os.path.join(LEAN, 'Driver'))):
        for f in files:
            if f.endswith('.lean'):
                res.append(os.path.join(root, f))
    return sorted(res)


class LeanLock(object):
    def __enter__(self):
        os.makedirs(os.path.join(LEAN, '.lake'), exist_ok=True)
        self.fh = open(os.path.join(LEAN, '.lake', 'verif.lock'), 'w')
        fcntl.flock(self.fh, fcntl.LOCK_EX)
        return self
    def __exit__(self, *a):
        fcntl.flock(self.fh, fcntl.LOCK_UN)
        self.fh.close()


def sh(cmd, cwd=None, timeout=3600, env=None, inp=None):
    p = subprocess.run(cmd, cwd=cwd, timeout=timeout, env=env, input=inp,
                       stdout=subprocess.PIPE, stderr=subprocess.STDOUT,
                       text=True, shell=isinstance(cmd, str))
    return p.returncode, p.stdout


def prop_theorems(prop):
    """names of all theorems declared in Props/<prop>.lean (property file)"""
    path = os.path.join(LEAN, 'RPVerif', 'Props', prop + '.lean')
    txt  = _strip_comments(open(path).read())
    ns   = re.findall(r'^namespace\s+(\S+)', txt, re.M)
    pre  = (ns[0] + '.') if ns else ''
    return [pre + n for n in re.findall(r'^theorem\s+(\S+)', txt, re.M)]


def lean_check(ctx, targets=None):
    """translate -> lake build -> forbidden-token grep -> axiom audit.
    Records one obligation per property theorem plus the build itself."""
    import translate
    prop = ctx.prop
    targets = targets or ['RPVerif.Props.' + prop]
    with LeanLock():
        tr_ok, tr_msg = translate.run(SRC, os.path.join(LEAN, 'RPVerif', 'Gen'))
        ctx.obligation('translator: Gen/*.lean regenerated from ' + SRC, 'tie',
                       tr_ok, tr_msg)
        if ctx.tier == 'thorough':
            # force a re-check of the property module (and whatever changed below it)
            for t in targets:
                for ext in ('olean', 'ilean', 'trace', 'olean.hash', 'ilean.hash'):
                    p = os.path.join(LEAN, '.lake', 'build', 'lib', 'lean',
                                     *t.split('.')) + '.' + ext
                    if os.path.exists(p):
                        os.unlink(p)
        rc, out = sh(['lake', 'build'] + targets + ['rpmodel'], cwd=LEAN)
        ctx.checker_cmd = 'cd lean && lake build %s rpmodel && lake env lean <#print axioms of every theorem in Props/%s.lean>' % (' '.join(targets), prop)
        build_ok = (rc == 0)
        ctx.obligation('lake build ' + ' '.join(targets), 'build', build_ok,
                       out[-1500:] if not build_ok else '')
        # forbidden tokens
        bad = []
        for f in lean_sources():
            txt = _strip_comments(open(f).read())
            if f.endswith('Main.lean'):
                # the stdin loop of the driver is the only `partial def` allowed
                txt = txt.replace('partial def loop', 'def loop')
            m = FORBIDDEN.search(txt)
            if m:
                bad.append('%s: %s' % (os.path.relpath(f, LEAN), m.group(0).strip()))
        ctx.obligation('no sorry/admit/axiom/native_decide/bv_decide/implemented_by/unsafe/partial',
                       'audit', not bad, '; '.join(bad))
        thms = prop_theorems(prop)
        if not build_ok:
            for t in thms:
                ctx.obligation('theorem ' + t, 'theorem', False, 'build failed')
            return False
        # axiom audit
        aud = os.path.join(LEAN, '.lake', 'audit_%s_%d.lean' % (prop, os.getpid()))
        with open(aud, 'w') as fh:
            for t in targets:
                fh.write('import %s\n' % t)
            for t in thms:
                fh.write('#print axioms %s\n' % t)
        rc, out = sh(['lake', 'env', 'lean', aud], cwd=LEAN)
        os.unlink(aud)
        seen = {}
        for m in re.finditer(r"^'(\S+)' depends on axioms: \[([^\]]*)\]", out, re.M):
            seen[m.group(1)] = set(x.strip() for x in m.group(2).replace('\n', ' ').split(',') if x.strip())
        for m in re.finditer(r"^'(\S+)' does not depend on any axioms", out, re.M):
            seen[m.group(1)] = set()
        axs = set()
        ok_all = True
        for t in thms:
            if t not in seen:
                ok_all = False
                ctx.obligation('theorem ' + t, 'theorem', False, 'not reported by #print axioms: ' + out[-500:])
                continue
            extra = seen[t] - ALLOWED_AXIOMS
            axs |= seen[t]
            ok = not extra
            ok_all = ok_all and ok
            ctx.obligation('theorem ' + t, 'theorem', ok,
                           'axioms: ' + ', '.join(sorted(seen[t])))
        ctx.trusted.append('Lean 4.33.0 kernel; axioms used by the %d property theorems: %s'
                           % (len(thms), ', '.join(sorted(axs)) or 'none'))
        if ctx.tier == 'thorough':
            rc, out = sh(['lake', 'env', 'leanchecker'] + targets, cwd=LEAN, timeout=3000)
            ctx.obligation('leanchecker ' + ' '.join(targets), 'audit', rc == 0, out[-800:])
            ok_all = ok_all and rc == 0
        return ok_all and not bad and tr_ok


def model(suite, lines, timeout=1800):
    """pipe JSON ops (one per line) through the compiled model driver"""
    exe = os.path.join(LEAN, '.lake', 'build', 'bin', 'rpmodel')
    if not os.path.exists(exe):
        return None
    inp = '\n'.join(json.dumps(l, separators=(',', ':')) for l in lines) + '\n'
    p = subprocess.run([exe, suite], input=inp, stdout=subprocess.PIPE,
                       stderr=subprocess.PIPE, text=True, timeout=timeout)
    if p.returncode != 0:
        raise RuntimeError('rpmodel %s failed: %s' % (suite, p.stderr[-500:]))
    out = p.stdout.split('\n')
    if out and out[-1] == '':
        out.pop()
    res = []
    for o in out:
        try:
            res.append(json.loads(o))
        except ValueError:
            res.append({'_raw': o})
    return res


def compare(ctx, suite, ops, impl_out, canon=None, what=None):
    """run the model on `ops`, compare with the implementation's answers.
    Records one 'tie' obligation; returns list of (index, op, impl, model)."""
    try:
        mod = model(suite, ops)
    except Exception as e:
        mod = None
        err = repr(e)
    if mod is None:
        ctx.obligation('correspondence ' + (what or suite), 'tie', False,
                       'model driver not available')
        return [(-1, None, None, None)]
    diffs = []
    if len(mod) != len(impl_out):
        diffs.append((-1, 'length', len(impl_out), len(mod)))
    for i, (a, b) in enumerate(zip(impl_out, mod)):
        if canon:
            a, b = canon(a), canon(b)
        if a != b:
            diffs.append((i, ops[i], a, b))
            if len(diffs) > 20:
                break
    ctx.traces += len(impl_out)
    ctx.obligation('correspondence ' + (what or suite) + ' (%d cases)' % len(ops), 'tie',
                   not diffs,
                   '' if not diffs else 'first divergence: op=%s impl=%s model=%s'
                   % (json.dumps(diffs[0][1], default=str)[:400], json.dumps(diffs[0][2], default=str)[:400],
                      json.dumps(diffs[0][3], default=str)[:400]))
    return diffs


# ------------------------------------------------------------------------------
# verdict
#
def load_known():
    p = os.path.join(VERIF, 'known_findings.json')
    if not os.path.exists(p):
        return {'findings': [], 'fixed': []}
    return json.load(open(p))


def finish(ctx):
    known   = [f for f in load_known().get('findings', []) if f['property'] == ctx.prop]
    sigs    = {f['signature']: f for f in known}
    broken  = [o for o in ctx.obl if not o['ok']]
    unknown = [f for f in ctx.failures if f['signature'] not in sigs]
    hit     = {}
    for f in ctx.failures:
        if f['signature'] in sigs:
            hit.setdefault(f['signature'], f)

    os.makedirs(os.path.join(VERIF, 'replays'), exist_ok=True)
    os.makedirs(os.path.join(VERIF, 'evidence'), exist_ok=True)
    lines = []
    rc = 0
    for sig, f in sorted(hit.items()):
        lines.append('KNOWN-FINDING: property=%s %s [%s]' % (ctx.prop, sigs[sig]['what'], sigs[sig]['id']))
    nviol = 0
    if unknown:
        # one VIOLATION line per distinct signature
        seen = set()
        for f in unknown:
            if f['signature'] in seen:
                continue
            seen.add(f['signature'])
            nviol += 1
            path = os.path.join('replays', '%s-%d-%d.json' % (ctx.prop, ctx.seed, nviol))
            with open(os.path.join(VERIF, path), 'w') as fh:
                json.dump({'property': ctx.prop, 'kind': 'failing-input',
                           'signature': f['signature'], 'what': f['what'],
                           'input': f['input'], 'observed': f['observed'],
                           'expected': f['expected'],
                           'broken_obligations': broken,
                           'replay': './check %s --replay %s' % (ctx.prop, path)},
                          fh, indent=1, default=str)
            lines.append('VIOLATION property=%s replay=%s' % (ctx.prop, path))
        rc = 1
    elif broken:
        nviol = 1
        path = os.path.join('replays', '%s-%d-broken.json' % (ctx.prop, ctx.seed))
        with open(os.path.join(VERIF, path), 'w') as fh:
            json.dump({'property': ctx.prop, 'kind': 'obligation-no-longer-checks',
                       'broken_obligations': broken,
                       'search': 'the property monitor ran on %d implementation traces '
                                 'without finding a failing input' % ctx.traces},
                      fh, indent=1, default=str)
        lines.append('VIOLATION property=%s replay=%s no-failing-input-found' % (ctx.prop, path))
        rc = 1

    nobl = len(ctx.obl)
    ndis = len([o for o in ctx.obl if o['ok']])
    ev = {
        'property_id': ctx.prop,
        'tier'       : ctx.tier,
        'seed'       : ctx.seed,
        'level'      : 'proof',
        'coverage'   : dict({
            'obligations'   : nobl,
            'discharged'    : ndis,
            'checker_cmd'   : ctx.checker_cmd or 'cd lean && lake build',
            'trusted_base'  : ctx.trusted,
            'evaluations'   : ctx.evals,
            'distinct_nontrivial': len(ctx.distinct),
            'rule'          : ctx.rule,
            'samples'       : ctx.samples or [o['name'] for o in ctx.obl[:3]],
            'traces_validated_against_impl': ctx.traces,
            'exhaustive'    : ctx.exhaustive,
            'obligation_list': [{'name': o['name'], 'kind': o['kind'], 'ok': o['ok'],
                                 'detail': o['detail'][:300]} for o in ctx.obl],
            'known_findings_hit': sorted(hit),
        }, **ctx.extra),
        'assumptions': ctx.assume,
        'wall_s'     : round(time.time() - ctx.t0, 2),
        'violations' : nviol,
    }
    with open(os.path.join(VERIF, 'evidence', ctx.prop + '.json'), 'w') as fh:
        json.dump(ev, fh, indent=1, default=str)
    for l in lines:
        print(l)
    print('%s tier=%s seed=%d obligations=%d/%d evaluations=%d distinct=%d failures=%d wall=%.1fs'
          % (ctx.prop, ctx.tier, ctx.seed, ndis, nobl, ctx.evals, len(ctx.distinct),
             len(ctx.failures), time.time() - ctx.t0))
    if broken:
        for o in broken[:10]:
            print('  BROKEN [%s] %s :: %s' % (o['kind'], o['name'], o['detail'][:600]))
    return rc
