"""Regenerates MANIFEST.json from the table below (keeps it valid at all times)."""
import json, os
VERIF = os.path.dirname(os.path.dirname(os.path.abspath(__file__)))

CLAIMED = {
 # id: (technique, level text, level note, design ref)
 'C06': ('Lean 4 proof (induction over notification batches, per-task projection of _update_tasks) + exhaustive/sampled differential tie to states.py, Task._update, TaskManager._update_tasks',
         'Theorems in lean/RPVerif/Props/C06.lean prove, for every set of tasks and every history of notification batches, that no exception escapes _update_tasks, that a notification for one task is invisible to all others (batch independence), that the callbacks per task form a chain of single steps/FAILED/CANCELED with strictly increasing state values, and that final states are sticky. The model is tied to the code by a regenerated state table (theorem taskTable_ok), an exhaustive comparison of _task_state_progress and Task._update on their whole domain and a seeded differential run of the real TaskManager._update_tasks.',
         'Trusted: Lean kernel (axioms propext, Classical.choice, Quot.sound at most), the Python harness and translator, sampling for _update_tasks histories; callbacks are the synchronous non-bulk path; ZMQ delivery is not modelled.',
         'DESIGN.md section 6 C06'),
 'C13': ('Lean 4 proof (structural induction over pilots and tasks; the callback equals a per-task `expected` map) + sampled differential tie to TaskManager._pilot_state_cb / Task._update',
         'Theorem C13 proves for every set of tasks, every binding and every list of pilot states in any order that the model of _pilot_state_cb never raises and returns exactly `expected`: non-final tasks bound to a pilot that ended are FAILED with a detail naming it, all other tasks are untouched (C13_own_tasks_failed, C13_others_untouched, C13_order). The model is tied by a differential run of the real callback on real Task objects (1 task x every state x binding exhaustively, random managers beyond).',
         'Trusted: Lean kernel, harness; tmgr.advance is recorded rather than delivered; one callback invocation at a time (subscriber thread).',
         'DESIGN.md section 6 C13'),
 'C14': ('Lean 4 proof (induction over notification streams / event sequences) + regenerated cause table (AST translator) + exhaustive tie to _pilot_state_progress, Pilot._update, Agent_0 event sequences; sampled tie to PilotManager._update_pilot',
         'C14_forward/C14_final_sticky/C14_unknown_ignored prove for every stream of pilot notifications that callbacks form a chain of repeats or single forward steps (gaps filled), that a final state is never left and unknown pilots are ignored; C14_done/C14_canceled/C14_failed prove the cause -> final state mapping for every event sequence of the agent. agentCause_tie (decide over the regenerated Gen/AgentCause.lean) re-checks on every run which method records which cause and whether stop() preserves it.',
         'Trusted: Lean kernel, translator (AST patterns of agent_0.py), harness; the batch system killing the job is the no-finalize case; bash runs the bootstrapper block.',
         'DESIGN.md section 6 C14'),
 'C15': ('Lean 4 proof (induction on fuel = termination bounds for the four polling loops) + differential tie under a virtual clock to Task.wait, Pilot.wait, wait_tasks, wait_pilots',
         'C15_entity_returns / C15_wait_tasks_returns / C15_wait_pilots_returns prove for every request form, every trajectory and every timeout that the loops return at most one polling tick after all awaited entities are in a requested or final state; C15_*_timeout bound the return by the timeout; C15_entity_honest and the result clauses show the returned values are the actual states. Non-termination of the pre-fix loops is exactly what these theorems exclude. The real loops run under a patched time.sleep/time.time against scripted trajectories of real Task/Pilot objects.',
         'Trusted: Lean kernel, harness virtual clock; "shortly" = one polling tick; a state entered and left between two polls is invisible to the exact-membership loops; _terminate not set.',
         'DESIGN.md section 6 C15'),
 'C16': ('Lean 4 proof (for every number of sides: structural case analysis of the two forwarders, counting lemma over a duplicate-free side list, two-hop quiescence) + exhaustive tie to the real pubsub_fwd closures and an in-memory network of real forwarders',
         'Theorem C16 proves for any duplicate-free list of sides, any originating side and any origin/fwd markers that the local side sees the message once, every other side exactly once iff it carries the forward flag and no foreign origin, and nobody otherwise; C16_quiescent shows the network is quiet after two hops for any hop budget (no circulation); C16_content shows what remote sides receive. The real closures are obtained from the real Session.crosswire_pubsub and compared on all marker combinations; whole topologies (1 client + 0..4/7 pilots) run through the real _crosswire_proxy wiring.',
         'Trusted: Lean kernel, harness in-memory bus (lossless, copy per subscriber) in place of ZMQ; distinct module names per side.',
         'DESIGN.md section 6 C16'),
 'C17': ('Lean 4 proof: decide +kernel over the complete regenerated platform table (translator from configs/*.json + factory ASTs) and arithmetic proofs (ceiling-division minimality) for the sizing model + exhaustive cross-check of the table against the real Session.get_resource_config and differential run of the real _prepare_pilot on every shipped row',
         'C17_resolves is a kernel-checked decision over every shipped resource x access-schema row (120 today), re-generated from the JSON files and factory dict literals on each run; C17_least proves that the node count is the least number of whole nodes covering the requested cores and GPUs (blocked cores/GPUs and hardware threads included), C17_agree that the agent configuration carries the same node/core/GPU figures as the batch job, C17_nodes_given the explicit-node case. The sizing model is compared with the real PMGRLaunchingComponent._prepare_pilot for every row x 10 (quick) / 120 (thorough) pilot sizes.',
         'Trusted: Lean kernel (decide +kernel uses no axioms), translator (its table is compared with the real get_resource_config for every row), radical.utils config loader; float ceil == integer ceiling on the tied range; batch-system translation of the job description not modelled.',
         'DESIGN.md section 6 C17'),
 'C19': ('Lean 4 proof (induction over the alias table with distinctness invariants; function extensionality for idempotence) over tables regenerated by an AST translator from TaskDescription._verify + sampled differential tie to TaskDescription.verify, convert_slots_*, PythonTask',
         'verify is modelled generically over an alias table and a mode chain; tables_wf (decide) re-checks on every run that the tables found in the code are well-formed (each deprecated name is itself reset to a falsy value after being copied, names distinct); C19_alias, C19_nothing_lost, C19_idempotent, C19_modes are proved for every well-formed table and every description; C19_slots_to_old / C19_slots_to_new prove index preservation per conversion, C19_roundtrip_witness exhibits the recorded finding (new -> old -> new raises); C19_transport proves the composition order of the function encoding under the codec hypotheses. The driver evaluates verify through a tabulated fold proved equal (C19_driver_sound).',
         'Trusted: Lean kernel (propext, Quot.sound via funext), AST translator, harness; dill/pickle/msgpack and ru.TypedDict are environment (sampled); floats dyadic. KNOWN FINDING F-C19-slots-roundtrip (recorded, not repaired).',
         'DESIGN.md section 6 C19'),
 'C12': ('Lean 4 proof (counting conservation law over all callback histories, membership lemmas for the round-robin and backfilling placement loops) + sampled differential tie of rrStep/bfStep to the real RoundRobin/Backfilling objects',
         'C12_conservation/C12_once prove for every history of atomic scheduler callbacks (submissions with and without named pilots, add/remove incl. re-add, state notifications) that with unique uids every task is forwarded at most once, never both forwarded and waiting, and is never lost; C12_named, C12_early_flush, C12_waits, C12_eligible, C12_removed_gone give the binding clauses (named pilot, waiting, only pilots in _pids, removed pilots leave _pids); C12_bf_window proves that a backfilling pass only assigns to ADDED pilots inside the state window and below their high-water mark. The round-robin balance clause and the backfilling usage-returns-to-zero clause are checked by the monitor on the real code and by the exact model/implementation comparison, not yet by a theorem (partial).',
         'Trusted: Lean kernel, harness; callbacks are atomic (they run under the component locks); _assign_pilot does not raise; add_pilots dicts carry the state already known; conservation for backfilling and RR balance not yet proved in Lean.',
         'DESIGN.md section 6 C12'),
 'C18': ('Lean 4 proof (list/sublist/nodup reasoning over the node-file parser, node list construction and the reduction/reservation step) + sampled differential tie to the real Torque/CCM/Cobalt/LSF/PBSPro/Slurm/Fork resource managers',
         'C18_parse proves that a node file yields every host exactly once (repeated lines are counted, blank lines are not hosts), C18_parse_cpn that a configured cores_per_node fixes the slot count, C18_node_list that indices are 0..n-1 and unique with the configured cores/GPUs per node, markDown_spec the blocked-core marking, and C18_final that whenever initialisation succeeds the offered list is non-empty, no longer than the requested node count, duplicate-free in its indices, disjoint from the agent and service node lists, and made only of allocated nodes with blocked cores/GPUs marked. The model initRM is compared with RMInfo produced by the real _init_from_scratch of seven resource managers on generated node files and environments; the registry hand-over (RMInfo -> dict -> RMInfo) is checked to be the identity on every case.',
         'Trusted: Lean kernel, harness (environment variables, node files, scripted ssh probe and qstat failure, host-name abstraction); PBSPro exec_vnode parsing, SLURM host-list expressions (ru.get_hostlist) and YARN are not modelled.',
         'DESIGN.md section 6 C18'),
 'C01': ('Lean 4 proof (loop invariant of the per-node search: strictly increasing free cores, GPU share accounting, lfs/mem budget; effect of marking) over a model that reproduces the real _schedule_tasks loop step for step + sampled differential tie and property monitor',
         'C01_grant_fits_node proves for every node state, request and slot count that what the model of Continuous._find_resources returns names only free, pairwise distinct cores, only existing non-blocked GPUs with share sums <= 1 GPU (incl. what the node map shows) and fits the node-local storage and memory left; C01_held_not_regranted proves that cores marked BUSY by _change_slot_states are never returned by a later search; C01_app_slots_witness exhibits the recorded finding F3. The lift to whole histories of the scheduling loop (wait pool, lazy_bisect, releases, cancellations) is NOT yet a theorem: it is carried by the exact comparison of the model with the real loop (events, node map, wait pool, counters after every iteration) and by the monitor that re-checks disjointness of all held placements on the implementation (partial).',
         'Trusted: Lean kernel, harness (scripted queues: which messages an iteration finds is an input); dyadic GPU shares; Continuous scheduler only (jsrun/hombre/flux variants and the application-level NodeList are not modelled). KNOWN FINDING F3 (application-supplied slots).',
         'DESIGN.md section 6 C01'),
 'C02': ('Lean 4 proof (shape clause of the same loop invariant; rejection rules by unfolding schedule_task) + sampled differential tie and monitor',
         'C02_slot_shape proves that every slot of a grant lies on the searched node and holds exactly cores_per_rank distinct cores, the requested GPU amount (k distinct whole GPUs / one GPU with exactly the share / none) and the requested lfs and mem; C02_slot_count bounds the number of slots and gives exactness for non-partial searches; C02_reject and C02_nonmpi_single_node prove that per-rank needs beyond one node and non-MPI tasks beyond one node are errors, never smaller grants; C02_ranks_per_node bounds the slots taken per node. Rank count over several nodes and the colocate clause are checked by the monitor on the implementation and by the exact model comparison (partial).',
         'Trusted: as C01.', 'DESIGN.md section 6 C02'),
 'C03': ('Lean 4 proof (list-update algebra: set-busy then set-free is the identity on free entries; counter arithmetic) + sampled differential tie and monitor',
         'C03_release_inverse proves that marking a slot BUSY and FREE again restores the node (cores, GPUs, lfs, mem) exactly, for every slot naming free resources; C03_held_is_busy characterises the node map while held; C03_counter_alloc / C03_counter_release give the _active_cnt arithmetic; C03_app_slots_witness exhibits F3 (counter goes negative). Capacity restored at quiescence and exactly-once release over whole histories are checked by the monitor on the real loop (node map = initial map minus held placements after every iteration) - partial; the executor half is C07.',
         'Trusted: as C01.', 'DESIGN.md section 6 C03'),
 'C04': ('Lean 4 proof (counting conservation for the intake and placement steps, unfolding of the can-never-be-scheduled rule and of the first lazy_bisect step) + sampled differential tie (incl. ru.lazy_bisect inside the real loop) and monitor',
         'C04_incoming_conserve and C04_drain_conserve prove that every task handed to the scheduler intake ends exactly once as started, failed or parked (tasks with ranks <= 0 failed once); C04_never_rule proves that a task is failed for lack of resources only when nothing holds resources; C04_last_checked_first proves that lazy_bisect examines the last (smallest) waiting task first so a fitting one is started; C04_app_slots_witness exhibits F3. The whole-run clauses (exactly one place at any time, started as soon as resources are released, priorities) are checked by the monitor on the real loop and the exact model comparison (partial).',
         'Trusted: as C01; ru.lazy_bisect (ratio 0.5) is modelled and exercised through the real loop.', 'DESIGN.md section 6 C04'),
 'C07': ('Lean 4 proof (inductive invariant over an interleaving transition system: ownership token + no-process frame + liveness bookkeeping, preserved by every step of every thread) + differential tie to the real Popen executor driven through the same schedules by a cooperative scheduler',
         'C07_safety proves for EVERY schedule of the intake thread, the watcher, any number of cancel_task invocations (control thread, timeout watcher, late check), spontaneous process exits with any code, cancel requests, timeouts and launch failures that execution start is announced at most once, the task is handed on at most once, and the unschedule publication happens exactly as often as the hand-over; C07_single_owner that at most one thread ever holds the task between taking it out of _tasks and handing it on (never collected twice, never both canceled and collected); C07_complete that in every quiescent reachable state the accepted task was handed on exactly once and released exactly once (never left behind); C07_fault_outcome that launch failures end FAILED. The real Popen.work/_launch_task/_check_running/cancel_task, control_cb, handle_timeout, _control_cb and is_canceled run in real threads whose every shared access is a scheduling point; observables after every step equal the model.',
         'Trusted: Lean kernel, harness/coop.py; atomicity = code between two instrumented shared accesses (GIL), one task, scripted process object (kill succeeds, wait returns at once), OS signals/zombies not modelled; NOOP executor not modelled.',
         'DESIGN.md section 6 C07'),
 'C08': ('Lean 4 proof (list/permutation reasoning for the intake filter, invariant over executor schedules without requests, wait-pool removal lemma) + differential ties to the real work_cb filter, the real executor under the cooperative scheduler and the real scheduler loop',
         'C08_intake proves that of any bulk reaching a component after a cancel request exactly the named tasks are advanced to CANCELED and not processed while all others are processed; C08_no_spurious_cancel that the executor never cancels a task without a request or timeout, C08_cancel_once that with requests at any point the task is still finished and released exactly once (C07), C08_waitpool_cancel that a cancel message takes only entries with the named uid out of the wait pool. KNOWN FINDING F5 (recorded): a request landing between placement and executor intake leaves the placement unreleased. Bystander trace equality over whole runs is monitored, not proved (partial).',
         'Trusted: as C07 and C01-C04; TaskManager.cancel_tasks only publishes; raptor backlog cancellation not tied.',
         'DESIGN.md section 6 C08'),
}

NOT_YET = {}

def main():
    props = [json.loads(l) for l in open(os.path.join(VERIF, 'properties.jsonl'))]
    checks, na = [], []
    for p in props:
        pid = p['id']
        if pid in CLAIMED:
            tech, text, note, ref = CLAIMED[pid]
            checks.append({
                'property_id': pid,
                'quick_cmd': './check %s --tier quick' % pid,
                'thorough_cmd': './check %s --tier thorough' % pid,
                'evidence_file': 'evidence/%s.json' % pid,
                'replay_cmd_template': './check %s --replay {path}' % pid,
                'engine': 'lean4-rpverif',
                'level_claimed': {'category': 'proof', 'text': text, 'design_ref': ref},
                'level_note': note,
                'technique': tech})
        else:
            na.append({'property_id': pid,
                       'reason': NOT_YET.get(pid, 'not claimed yet: the Lean model, theorems and correspondence check for this property are still being built (see DESIGN.md section 6 for the planned treatment); no check is registered so nothing is asserted')})
    m = {
        'version': 1,
        'setup_cmd': 'cd lean && lake build',
        'hooks': {'guard': 'RADICAL_PILOT_VERIF',
                  'enable': 'no source hooks: the harness loads radical.pilot from /repo/src in-process (harness/rpload.py), builds real objects with object.__new__ and replaces only the environment (queues, pubsub, clock, processes)',
                  'baseline_off_cmd': 'cd /repo && /venv/bin/python -m pytest -ra -q -p no:cacheprovider --timeout=900 --continue-on-collection-errors',
                  'source_commits': [],
                  'add_only': True},
        'engines': [{'name': 'lean4-rpverif', 'path': 'lean/',
                     'serves_properties': sorted(CLAIMED),
                     'kind_free_text': 'Lean 4.33 project (no Mathlib require): executable models (RPVerif/Model), regenerated tables (RPVerif/Gen), lemmas, property theorems (RPVerif/Props); compiled line-protocol driver rpmodel; Python harness (harness/) runs the real radical.pilot code in-process against the model and monitors the property on the implementation'}],
        'checks': checks,
        'not_applicable': na,
        'notes': 'Entry point ./check <Cxx> [--tier quick|thorough] [--replay file]. Each check regenerates Gen/*.lean from /repo, rebuilds the property theorems, audits axioms, runs the correspondence suites against the real code and a property monitor on the implementation traces. known_findings.json lists recorded and fixed defects.'}
    json.dump(m, open(os.path.join(VERIF, 'MANIFEST.json'), 'w'), indent=1)

if __name__ == '__main__':
    main()
