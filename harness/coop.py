"""Cooperative scheduler for real threads.

Real methods of the component under test run in real Python threads, but every
access to state shared between the threads goes through `point(name)`, where
the thread parks until the controller grants it the next step.  Exactly one
controlled thread runs at a time, so a schedule (a list of thread names) fixes
the interleaving of all shared accesses; the code between two points is atomic
with respect to the other controlled threads."""

import threading as mt

_local = mt.local()


class Abort(BaseException):
    """raised inside a parked thread when the controller is closed: the thread unwinds and ends"""


class Worker(object):

    def __init__(self, ctl, name, fn):
        self.ctl, self.name, self.fn = ctl, name, fn
        self.go      = mt.Semaphore(0)
        self.parked  = None          # name of the point the thread is parked at
        self.done    = False
        self.error   = None
        self.thread  = mt.Thread(target=self._run, daemon=True)

    def _run(self):
        _local.worker = self
        self.go.acquire()            # wait for the first grant
        try:
            if self.ctl.closing:
                raise Abort()
            self.fn()
        except BaseException as e:   # noqa
            self.error = e
        self.done = True
        self.parked = None
        self.ctl.back.release()

    def point(self, name):
        self.parked = name
        self.ctl.back.release()      # hand control back
        self.go.acquire()            # wait for the next grant
        self.parked = None
        if self.ctl.closing:
            raise Abort()


class Controller(object):

    def __init__(self):
        self.back    = mt.Semaphore(0)
        self.workers = {}
        self.closing = False

    def spawn(self, name, fn, run_to_first_point=True):
        w = Worker(self, name, fn)
        self.workers[name] = w
        w.thread.start()
        if run_to_first_point:
            self.grant(name)
        return w

    def grant(self, name):
        """let thread `name` run until it parks at its next point or finishes"""
        w = self.workers[name]
        if w.done:
            return False
        w.go.release()
        if not self.back.acquire(timeout=20):
            raise RuntimeError('thread %s neither parked nor finished (deadlock?)' % name)
        return True

    def close(self):
        """end every thread that is still parked (long runs must not accumulate threads)"""
        self.closing = True
        for w in list(self.workers.values()):
            if not w.done:
                w.go.release()
        for w in list(self.workers.values()):
            w.thread.join(timeout=2)

    def where(self, name):
        w = self.workers.get(name)
        if w is None: return None
        return 'done' if w.done else w.parked


def point(name):
    """called from instrumented shared accesses; no-op outside controlled threads"""
    w = getattr(_local, 'worker', None)
    if w is not None:
        w.point(name)


class CoopRLock(object):
    """a re-entrant lock under the cooperative scheduler: taking it is a scheduling point; a thread that finds it held
    by another thread parks (`lock-wait`) and must not be granted before the holder released it (see `blocked`)"""

    def __init__(self):
        self.owner, self.depth = None, 0

    def acquire(self, blocking=True, timeout=-1):
        me = getattr(_local, 'worker', None)
        if me is not None and self.owner is me:
            self.depth += 1
            return True
        point('lock')
        while self.owner is not None:
            if not blocking:
                return False
            point('lock-wait')
        self.owner, self.depth = me, 1
        return True

    def release(self):
        self.depth -= 1
        if self.depth == 0:
            self.owner = None

    def __enter__(self):
        self.acquire()
        return self

    def __exit__(self, *a):
        self.release()
