"""Load radical.pilot from the repository working tree, in-process.

`import radical.pilot` raises in this checkout (no src/radical/pilot/VERSION);
we replace `radical.utils.get_version` *in the harness process* before the
import.  Nothing is written into the repository.  RPVERIF_REPO re-points the
editable finder to a scratch copy (used by the mutation self-test only).
"""

import os
import sys
import importlib

REPO = os.environ.get('RPVERIF_REPO', '/repo')

_loaded = None


def load():
    global _loaded
    if _loaded:
        return _loaded

    os.environ.setdefault('RADICAL_PILOT_VERIF', '1')
    os.environ.setdefault('RADICAL_LOG_LVL', 'OFF')
    os.environ.setdefault('RADICAL_PROFILE', 'FALSE')
    os.environ.setdefault('RADICAL_REPORT', 'FALSE')

    import radical.utils as ru
    ru.get_version = lambda *a, **k: ('0.0', '0.0', 'b', 't', '0.0')

    src = os.path.join(REPO, 'src', 'radical', 'pilot')
    for name, mod in list(sys.modules.items()):
        if name.startswith('__editable___radical_pilot') and hasattr(mod, 'MAPPING'):
            mod.MAPPING['radical.pilot'] = src
    if REPO != '/repo':
        # make sure the scratch copy wins
        for name in list(sys.modules):
            if name == 'radical.pilot' or name.startswith('radical.pilot.'):
                del sys.modules[name]
        found = False
        for mod in list(sys.modules.values()):
            if hasattr(mod, 'MAPPING') and 'radical.pilot' in getattr(mod, 'MAPPING', {}):
                mod.MAPPING['radical.pilot'] = src
                found = True
        if not found:
            for finder in sys.meta_path:
                m = sys.modules.get(getattr(finder, '__module__', ''), None)
                if m is not None and hasattr(m, 'MAPPING') and 'radical.pilot' in m.MAPPING:
                    m.MAPPING['radical.pilot'] = src

    rp = importlib.import_module('radical.pilot')
    real = os.path.realpath(os.path.dirname(rp.__file__))
    want = os.path.realpath(src)
    if real != want:
        raise RuntimeError('radical.pilot loaded from %s, expected %s' % (real, want))
    _loaded = rp
    return rp


class NullLog(object):
    """logger / profiler / reporter stand-in: swallows everything"""
    def __getattr__(self, name):
        def _f(*a, **k):
            return None
        return _f
    def __bool__(self):
        return True
    enabled = False


class RecLog(NullLog):
    def __init__(self):
        self.records = []
    def __getattr__(self, name):
        def _f(*a, **k):
            self.records.append((name, a))
            return None
        return _f
