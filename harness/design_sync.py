"""Keeps the generated parts of DESIGN.md in step with harness/manifest.py and seeded/*/meta.json:
  - per property section: *Technique.*, *What is proved.*, *Trusted / limits.* paragraphs (from CLAIMED)
  - per property section: the seeds of round >= 2 appended to *Seeded change.*
  - section 9: table rows of the seeds of round >= 2 (between the markers)
Idempotent; hand-written text outside these places is left alone."""
import glob, json, os, re, sys
sys.path.insert(0, os.path.dirname(os.path.abspath(__file__)))
import manifest

VERIF = manifest.VERIF
path = os.path.join(VERIF, 'DESIGN.md')
txt = open(path).read()


def first_run(m):
    r = m.get('check_result', '')
    if 'missed' in r.lower(): return 'missed'
    if 'only broke' in r or 'tie only' in r or 'no-failing-input-found' in r: return 'tie / build only'
    return 'caught'


def short(m, n=150):
    s = ' '.join(m['summary'].split())
    return s[:n] + (' …' if len(s) > n else '')


metas = {}
for d in sorted(glob.glob(os.path.join(VERIF, 'seeded', 'c*-*'))):
    sid = os.path.basename(d)
    try:
        metas[sid] = json.load(open(os.path.join(d, 'meta.json')))
    except Exception:
        pass

# -- per property sections ------------------------------------------------------------------
for pid, (tech, proved, trusted, ref) in manifest.CLAIMED.items():
    m = re.search(r'(### %s — [^\n]*\n)(.*?)(?=\n### C\d\d — |\n-{20,}\n## 7\.)' % pid, txt, re.S)
    if not m:
        print('section for', pid, 'not found'); continue
    body = m.group(2)
    def para(label, new, body):
        pat = r'\*%s\.\* .*?(?=\n\n|\n?\Z)' % re.escape(label)
        if re.search(pat, body, re.S):
            return re.sub(pat, lambda _: '*%s.* %s' % (label, new), body, count=1, flags=re.S)
        return body
    body = para('Technique', tech + '.', body)
    body = para('What is proved', proved, body)
    body = para('Trusted / limits', trusted, body)
    # seeds of later rounds
    later = [(sid, mm) for sid, mm in metas.items() if sid.startswith(pid.lower() + '-') and not sid.endswith('-1')]
    sm = re.search(r'\*Seeded changes?\.\* (.*?)(?=\n\n|\n?\Z)', body, re.S)
    if sm:
        base = sm.group(1).split(' Later rounds: ')[0].rstrip()
        add = ''
        if later:
            add = ' Later rounds: ' + ' '.join('%s (%s): %s.' % (sid, short(mm, 110), mm.get('check_result', '?').rstrip('.'))
                                               for sid, mm in later)
        body = body[:sm.start()] + '*Seeded change.* ' + base + add + body[sm.end():]
    txt = txt[:m.start(2)] + body + txt[m.end(2):]

# -- section 9 table --------------------------------------------------------------------------
rows = []
for sid, mm in metas.items():
    if sid.endswith('-1'): continue
    fr = first_run(mm)
    now = 'caught with failing input'
    if fr != 'caught':
        now += ' — ' + ' '.join(mm.get('check_result', '').split())[:260]
    rows.append('| %s | %s | %s | %s |' % (sid, short(mm), fr, now))
block = '<!-- seeds:begin -->\n' + '\n'.join(rows) + '\n<!-- seeds:end -->'
if '<!-- seeds:begin -->' in txt:
    txt = re.sub(r'<!-- seeds:begin -->.*?<!-- seeds:end -->', lambda _: block, txt, flags=re.S)
else:
    # after the last row of the round-1 table
    i = txt.index('| c20-1 |')
    j = txt.index('\n', i)
    txt = txt[:j + 1] + block + '\n' + txt[j + 1:]
open(path, 'w').write(txt)
n1 = sum(1 for s in metas if s.endswith('-1'))
print('DESIGN.md synchronised: %d properties, %d seeds (%d of later rounds)' % (len(manifest.CLAIMED), len(metas), len(metas) - n1))
