"""Shared harness for the agent scheduler cluster (C01-C04).

A real `Continuous` object (object.__new__) with an injected node list, an RM
info stub, scripted queues, a scripted cancel list and a recording `advance`
runs the REAL `_schedule_tasks` loop.  One script = a node layout + a list of
iterations; an iteration fixes what the loop finds on its queues (messages on
the schedule queue, uids on the unschedule queue), which cancel marks and named
environments arrived before it.  The iteration boundary is the return of the
(wrapped, unmodified) `_unschedule_completed`."""

import copy
import queue
import time
import threading as mt
from collections import defaultdict

import rpload

U = 16      # GPU shares are sixteenths: dyadic floats are exact


class ScriptQueue(object):
    def __init__(self): self.items = []
    def put(self, x): self.items.append(x)
    def get(self, timeout=None):
        if not self.items:
            raise queue.Empty()
        return self.items.pop(0)


class Term(object):
    def __init__(self): self.flag = False
    def is_set(self): return self.flag
    def set(self): self.flag = True


class Stop(Exception):
    pass


def occ_of(rp, v):
    return None if v is None else (rp.constants.FREE if v == 0 else rp.constants.BUSY)


def make_sched(rp, cfg, nodes):
    import radical.utils as ru
    from radical.pilot.agent.scheduler.continuous import Continuous
    s = object.__new__(Continuous)
    s._uid, s._log, s._prof = 'agent.scheduling.0', rpload.NullLog(), rpload.NullLog()
    s._log._debug_level = 0
    s.nodes = [{'name': 'node%d' % n['index'], 'index': n['index'],
                'cores': [occ_of(rp, c) for c in n['cores']], 'gpus': [occ_of(rp, g) for g in n['gpus']],
                'lfs': n['lfs'], 'mem': n['mem']} for n in nodes]
    class _Info(object): pass
    info = _Info()
    info.cores_per_node, info.gpus_per_node = cfg['cpn'], cfg['gpn']
    info.lfs_per_node, info.mem_per_node = cfg['lfs'], cfg['mem']
    class _RM(object): pass
    s._rm = _RM(); s._rm.info = info
    s._colo_history, s._tagged_nodes = dict(), set()
    s._scattered, s._node_offset = cfg['scattered'], 0
    s._partition_ids = []
    s._waitpool   = defaultdict(dict)
    s._ts_map     = defaultdict(set)
    s._ts_valid   = False
    s._active_cnt = 0
    s._named_envs = list()
    s._queue_sched, s._queue_unsched = ScriptQueue(), ScriptQueue()
    s._term = Term()
    s._cancel_list, s._cancel_lock = [], mt.RLock()
    class _Sess(object):
        class cfg(object): reg_addr = 'x'
    s._session = _Sess()
    s.events = []
    def advance(things, state=None, publish=True, push=False, **kw):
        if not isinstance(things, list): things = [things]
        for t in things:
            if state is not None:
                t['state'] = state
            s.events.append([t['uid'], state])
    s.advance = advance
    s.register_output = s.register_subscriber = s.register_publisher = lambda *a, **k: None
    return s


def req_to_task(r):
    td = {'uid': 'task.%06d' % r['uid'], 'ranks': r['ranks'], 'cores_per_rank': r['cpr'],
          'gpus_per_rank': r['gpr'] / float(U), 'lfs_per_rank': r['lfs'], 'mem_per_rank': r['mem'],
          'ranks_per_node': r['rpn'] or None, 'tags': {}, 'priority': r['prio'], 'named_env': None,
          'slots': None, 'partition': None, 'mode': 'task.executable', 'raptor_id': None}
    if r.get('colo') is not None: td['tags']['colocate'] = r['colo']
    if r.get('excl'):             td['tags']['exclusive'] = True
    if r.get('env') is not None:  td['named_env'] = 'env.%d' % r['env']
    if r.get('app') is not None:
        td['slots'] = [{'version': 1, 'node_index': sl['node'], 'node_name': 'node%d' % sl['node'],
                        'cores': [{'index': c, 'occupation': 1.0} for c in sl['cores']],
                        'gpus': [{'index': g[0], 'occupation': g[1] / float(U)} for g in sl['gpus']],
                        'lfs': sl['lfs'], 'mem': sl['mem']} for sl in r['app']]
    return {'uid': r['uid'], 'description': td, 'state': 'AGENT_SCHEDULING', 'type': 'task'}


def canon_slots(slots):
    out = []
    for sl in slots or []:
        out.append([sl['node_index'], [c['index'] for c in sl['cores']],
                    [[g['index'], int(round(g['occupation'] * U))] for g in sl['gpus']], sl['lfs'], sl['mem']])
    return out


def snapshot(rp, s, res_flag):
    vals = {rp.constants.FREE: 0, rp.constants.BUSY: 1, None: None}
    return {'nodes': [[n['index'], [vals[c] for c in n['cores']], [vals[g] for g in n['gpus']], n['lfs'], n['mem']]
                      for n in s.nodes],
            'offset': s._node_offset, 'active': s._active_cnt,
            'waitpool': [[p, [t['uid'] for t in s._waitpool[p].values()]]
                         for p in sorted(s._waitpool.keys(), reverse=True) if True],
            'colo': [[int(k), list(v)] for k, v in s._colo_history.items()],
            'tagged': sorted(s._tagged_nodes), 'cancel': list(s._cancel_list), 'resources': res_flag}


def run_script(rp, script):
    """returns per iteration {events, state, slots}; 'crash' if the loop died"""
    import radical.utils as ru
    s = make_sched(rp, script['cfg'], script['nodes'])
    tasks = {}
    out = []
    iters = script['iters']
    state = {'i': 0}

    def load(i):
        it = iters[i]
        for m in it['incoming']:
            if 'sched' in m:
                ts = []
                for r in m['sched']:
                    t = req_to_task(r); tasks[r['uid']] = t; ts.append(t)
                s._queue_sched.put((ts, s._SCHEDULE))
            else:
                s._queue_sched.put((list(m['cancel']), s._CANCEL))
        s._cancel_list.extend(it['marks'])
        s._named_envs.extend('env.%d' % e for e in it['envs'])
        for msg in it['unsched']:
            ts = [tasks[uid] for uid in msg if uid in tasks]
            if ts and script.get('wire'):
                # the task comes back as the executor publishes it: through the wire format of the message layer, in which
                # the slots are plain dictionaries and lists
                import radical.utils as ru
                ts = [ru.serialize.from_msgpack(ru.serialize.to_msgpack(t)) for t in ts]
            if ts:
                s._queue_unsched.put(ts if len(ts) > 1 else ts[0])

    orig_unsched = s._unschedule_completed
    def wrapped():
        r = orig_unsched()
        i = state['i']
        slots = [[uid, canon_slots(t.get('slots'))] for uid, t in tasks.items() if t.get('slots')]
        out.append({'events': s.events[:], 'state': snapshot(rp, s, None), 'slots': slots,
                    'queued': sum(len(x) if isinstance(x, list) else 1 for x in s._queue_unsched.items),
                    'exc': {uid: t.get('exception') for uid, t in tasks.items() if t.get('exception')}})
        del s.events[:]
        state['i'] += 1
        if state['i'] >= len(iters):
            s._term.set()
        else:
            load(state['i'])
        return r
    s._unschedule_completed = wrapped

    saved = (ru.PWatcher, ru.zmq.RegistryClient, time.sleep)
    class _PW(object):
        def __init__(self, *a, **k): pass
        def watch(self, *a): pass
    ru.PWatcher = _PW
    ru.zmq.RegistryClient = lambda *a, **k: None
    time.sleep = lambda x: None
    crash = None
    try:
        load(0)
        try:
            s._schedule_tasks()
        except Exception as e:
            crash = repr(e)[:200]
    finally:
        ru.PWatcher, ru.zmq.RegistryClient, time.sleep = saved
    # resources flag is a local of _schedule_tasks: recomputed by the caller from r values
    return s, out, tasks, crash


def observe(rp, script):
    """canonical per-iteration observation of the REAL scheduler, comparable with `rpmodel sched`"""
    s, out, tasks, crash = run_script(rp, script)
    return s, out, tasks, crash


# ------------------------------------------------------------------------------
# generator
#
def gen_script(rng, app_slots=False, small=False):
    nn  = rng.randint(1, 4 if small else 5)
    cpn = rng.choice([1, 2, 4, 4, 8])
    gpn = rng.choice([0, 0, 1, 2, 4])
    lfs = rng.choice([0, 0, 10, 16])
    mem = rng.choice([0, 0, 8])
    cfg = {'cpn': cpn, 'gpn': gpn, 'lfs': lfs, 'mem': mem, 'scattered': rng.random() < 0.8}
    nodes = []
    # node indices are unique but need not be list positions: the resource manager drops unreachable
    # nodes and keeps the indices of the others (_filter_nodes with backup nodes)
    idxs = list(range(nn))
    if rng.random() < 0.25:
        idxs = sorted(rng.sample(range(nn + 2), nn))
    # blocked cores / GPUs: the resource manager marks the same indices on every node (C18); a quarter of
    # the scripts use per-node patterns the resource managers cannot produce (C01-C03 must hold there too)
    uniform = rng.random() < 0.75
    bc = rng.randrange(cpn) if rng.random() < 0.3 and cpn > 1 else None
    bg = rng.randrange(gpn) if rng.random() < 0.3 and gpn > 1 else None
    for i in idxs:
        cores = [0] * cpn
        gpus  = [0] * gpn
        if uniform:
            if bc is not None: cores[bc] = None
            if bg is not None: gpus[bg] = None
        else:
            if rng.random() < 0.15 and cpn > 1: cores[rng.randrange(cpn)] = None       # blocked
            if rng.random() < 0.15 and gpn > 1: gpus[rng.randrange(gpn)] = None
        nodes.append({'index': i, 'cores': cores, 'gpus': gpus, 'lfs': lfs, 'mem': mem})
    uid = 0
    iters = []
    started_guess = []
    nit = rng.randint(2, 10 if not small else 6)
    all_uids = []
    for k in range(nit):
        it = {'incoming': [], 'marks': [], 'envs': [], 'unsched': []}
        if rng.random() < 0.75:
            for _ in range(rng.randint(1, 2)):
                ts = []
                for _ in range(rng.randint(1, 4)):
                    r = {'uid': uid, 'ranks': rng.choice([1, 1, 1, 2, 2, 3, 4, 6]),
                         'cpr': rng.choice([1, 1, 1, 2, 2, cpn, cpn + 1 if rng.random() < 0.1 else 1, 0 if rng.random() < 0.1 else 1]),
                         'gpr': 0, 'lfs': 0, 'mem': 0, 'rpn': 0, 'colo': None, 'excl': False,
                         'prio': rng.choice([0, 0, 0, 1, 2, -1]), 'env': None, 'app': None}
                    if gpn and rng.random() < 0.45:
                        r['gpr'] = rng.choice([U, U, 2 * U, U // 2, U // 4, 3 * U // 8, 5 * U // 8, 24, (gpn + 1) * U if rng.random() < 0.2 else U])
                    if lfs and rng.random() < 0.4: r['lfs'] = rng.choice([1, 4, 8, lfs, lfs + 1 if rng.random() < 0.2 else 2])
                    if mem and rng.random() < 0.4: r['mem'] = rng.choice([1, 4, mem])
                    if rng.random() < 0.15: r['rpn'] = rng.choice([1, 2])
                    if rng.random() < 0.15:
                        r['colo'] = rng.choice([0, 1, 2]); r['excl'] = rng.random() < 0.5      # (a tag may be 0: any value names a tag)
                    if rng.random() < 0.1:  r['env'] = rng.choice([0, 1])
                    if rng.random() < 0.04: r['ranks'] = rng.choice([0, -1])
                    if app_slots and rng.random() < 0.25:
                        r['ranks'], r['cpr'], r['gpr'], r['lfs'], r['mem'] = 1, 1, 0, 0, 0
                        r['app'] = [{'node': rng.choice(idxs), 'cores': [rng.randrange(cpn)], 'gpus': [],
                                     'lfs': 0, 'mem': 0}]
                    ts.append(r); all_uids.append(uid); uid += 1
                it['incoming'].append({'sched': ts})
        if all_uids and rng.random() < 0.2:
            it['incoming'].insert(rng.randrange(len(it['incoming']) + 1),
                                  {'cancel': rng.sample(all_uids, min(len(all_uids), rng.randint(1, 2)))})
        if all_uids and rng.random() < 0.2:
            it['marks'] = rng.sample(all_uids, 1) if rng.random() < 0.7 else [uid + rng.randint(0, 2)]
        if all_uids and rng.random() < 0.3:
            # a cancel request as the agent sees it: the component's control callback marks the uids
            # and the scheduler's control callback queues the CANCEL message, for the same uids; the
            # message may be drained before, between or after the requests that arrive with it
            cu = rng.sample(all_uids[-6:], min(len(all_uids[-6:]), rng.randint(1, 2)))
            if rng.random() < 0.2: cu.append(uid + rng.randint(0, 2))      # not arrived yet
            it['marks'] = list(it['marks']) + [u for u in cu if u not in it['marks']]
            it['incoming'].insert(rng.randrange(len(it['incoming']) + 1), {'cancel': cu})
        if rng.random() < 0.15:
            it['envs'] = [rng.choice([0, 1])]
        it['unsched'] = 'auto'     # filled in by `fill_releases` from what really started
        iters.append(it)
    return {'cfg': cfg, 'nodes': nodes, 'iters': iters, 'release_p': rng.choice([0.2, 0.5, 0.8]),
            'release_seed': rng.randrange(10 ** 9), 'double_release': False}


def fill_releases(rp, script):
    """decide which started tasks are released in which iteration by a dry run of the real
    scheduler (a release names a task that currently holds resources; each at most once)"""
    import random
    rng = random.Random(script['release_seed'])
    sc  = copy.deepcopy(script)
    holding, done = [], set()
    for k in range(len(sc['iters'])):
        sc['iters'][k]['unsched'] = []
    if sc.get('big'):
        return fill_releases_big(rp, sc, rng)
    # iterate: run prefix, see who started, choose releases for the next iteration
    for k in range(len(sc['iters'])):
        pre = copy.deepcopy(sc); pre['iters'] = pre['iters'][:k + 1]
        s, out, tasks, crash = run_script(rp, pre)
        if crash or len(out) <= k:
            break
        for uid, st in out[k]['events']:
            if st == 'AGENT_EXECUTING_PENDING' and uid not in done and uid not in holding:
                holding.append(uid)
        if k + 1 < len(sc['iters']):
            rel = [u for u in holding if rng.random() < sc['release_p']]
            for u in rel:
                holding.remove(u); done.add(u)
            # the executor publishes one task or a bulk of tasks per message
            msgs = []
            while rel:
                n = rng.choice([1, 1, 2, 3, len(rel)]) if not sc.get('big') else rng.choice([1, 40, 200, 300, len(rel)])
                msgs.append(rel[:n]); rel = rel[n:]
            sc['iters'][k + 1]['unsched'] = msgs
    return sc


def keep_valid_releases(rp, script):
    """drops the releases of a hand-written script that name a task which does not hold resources at that point
    (decided by a dry run of the real scheduler, iteration by iteration)"""
    sc = copy.deepcopy(script)
    holding = set()
    for k in range(len(sc['iters'])):
        sc['iters'][k]['unsched'] = [[u for u in m if u in holding] for m in sc['iters'][k]['unsched']]
        sc['iters'][k]['unsched'] = [m for m in sc['iters'][k]['unsched'] if m]
        pre = copy.deepcopy(sc); pre['iters'] = pre['iters'][:k + 1]
        s, out, tasks, crash = run_script(rp, pre)
        if crash or len(out) <= k:
            break
        for m in sc['iters'][k]['unsched']:
            holding -= set(m)
        for uid, st in out[k]['events']:
            if st == 'AGENT_EXECUTING_PENDING':
                holding.add(uid)
    return sc


def model_op(script):
    return {'op': 'sched', 'cfg': script['cfg'], 'nodes': script['nodes'],
            'iters': [{'incoming': it['incoming'], 'marks': it['marks'], 'envs': it['envs'],
                       'unsched': it['unsched']} for it in script['iters']]}


def fill_releases_big(rp, sc, rng):
    """large script: everything that started is released in ONE iteration (many messages), so the
    512-task bulk limit of the drain is crossed; the remaining iterations let the queue run empty"""
    pre = copy.deepcopy(sc); pre['iters'] = pre['iters'][:2]
    s, out, tasks, crash = run_script(rp, pre)
    started = [uid for o in out for uid, st in o['events'] if st == 'AGENT_EXECUTING_PENDING']
    rng.shuffle(started)
    msgs = []
    while started:
        n = rng.choice([1, 1, 1, 7, 100, 300])
        msgs.append(started[:n]); started = started[n:]
    sc['iters'][2]['unsched'] = msgs
    return sc


def gen_big_script(rng):
    nn, cpn = rng.choice([(9, 64), (5, 128), (10, 60)])
    cfg = {'cpn': cpn, 'gpn': 0, 'lfs': 0, 'mem': 0, 'scattered': True}
    nodes = [{'index': i, 'cores': [0] * cpn, 'gpus': [], 'lfs': 0, 'mem': 0} for i in range(nn)]
    total = nn * cpn
    ntasks = rng.randint(520, min(total, 640))
    reqs = [{'uid': u, 'ranks': 1, 'cpr': 1, 'gpr': 0, 'lfs': 0, 'mem': 0, 'rpn': 0, 'colo': None, 'excl': False,
             'prio': 0, 'env': None, 'app': None} for u in range(ntasks)]
    half = ntasks // 2
    iters = [{'incoming': [{'sched': reqs[:half]}], 'marks': [], 'envs': [], 'unsched': []},
             {'incoming': [{'sched': reqs[half:]}], 'marks': [], 'envs': [], 'unsched': []}]
    iters += [{'incoming': [], 'marks': [], 'envs': [], 'unsched': []} for _ in range(4)]
    return {'cfg': cfg, 'nodes': nodes, 'iters': iters, 'release_p': 1.0, 'release_seed': rng.randrange(10 ** 9),
            'big': True}


def canon_impl(out, crash):
    if crash:
        return 'crash'
    res = []
    for o in out:
        st = o['state']
        res.append({'events': [list(e) for e in o['events']],
                    'nodes': st['nodes'], 'offset': st['offset'], 'active': st['active'],
                    'waitpool': [w for w in st['waitpool'] if w[1]], 'colo': sorted(st['colo']),
                    'tagged': st['tagged'], 'cancel': st['cancel'], 'queued': o['queued'],
                    'slots': sorted([x for x in o['slots']])})
    return res


def canon_model(m):
    if not isinstance(m, list):
        return m
    res = []
    for o in m:
        if 'state' not in o:
            res.append(o); continue
        st = o['state']
        res.append({'events': [list(e) for e in o['events']],
                    'nodes': st['nodes'], 'offset': st['offset'], 'active': st['active'],
                    'waitpool': [w for w in st['waitpool'] if w[1]], 'colo': sorted(st['colo']),
                    'tagged': sorted(st['tagged']), 'cancel': st['cancel'], 'queued': st['queued'],
                    'slots': sorted([x for x in o['slots']])})
    return res


# ------------------------------------------------------------------------------
# property monitors on the implementation's observations
#
def fits_one_node(script, r, ignore_tag=False):
    """independent of the code under test: a plain request (cores, lfs, mem only - no GPUs, no ranks-per-node figure,
    no tags, no placement of the application's own) fits the idle pilot if ONE node has the free cores, the lfs and the
    mem for all its ranks.  (Sufficient, not necessary: requests that need several nodes are judged by the real routine.)"""
    if not script['cfg'].get('scattered', True): return False
    # (ignore_tag: a colocate tag that no earlier task carried confines the task to nothing yet; `exclusive` prefers nodes no
    #  tag has claimed and falls back to sharing when there is none)
    if r['gpr'] or r['rpn'] or r.get('app') is not None: return False
    if (r['colo'] is not None or r['excl']) and not ignore_tag: return False
    if r['ranks'] < 1 or r['cpr'] < 1: return False
    for n in script['nodes']:
        k = sum(1 for c in n['cores'] if c == 0) // r['cpr']
        if r['lfs']: k = min(k, (n['lfs'] or 0) // r['lfs'])
        if r['mem']: k = min(k, (n['mem'] or 0) // r['mem'])
        if k >= r['ranks']: return True
    return False


def fits_idle(rp, script, r):
    """does `r` fit the idle pilot?  Yes if one node holds it by plain arithmetic (fits_one_node); otherwise the REAL
    placement routine on the idle pilot is asked (GPU shares, several nodes, tags)"""
    if fits_one_node(script, r):
        return True
    s = make_sched(rp, script['cfg'], script['nodes'])
    try:
        slots, _ = s.schedule_task(req_to_task(r))
        return bool(slots)
    except Exception:
        return False


def monitor(rp, script, out, tasks, crash, props):
    """returns list of (property, signature, what)"""
    viol = []
    reqs = {}
    for it in script['iters']:
        for m in it['incoming']:
            for r in m.get('sched', []):
                reqs[r['uid']] = r
    has_app = any(r.get('app') for r in reqs.values())
    tag = 'app-slots:' if has_app else ''
    if crash:
        return [(p, tag + 'scheduler-loop-died', crash) for p in props]
    init = {n['index']: n for n in script['nodes']}
    held, final, waiting = {}, {}, set()
    colo_hist = {}
    idle_pending = None
    alone_pending = None
    unfit_pending = None
    prev_wp = set()
    for k, o in enumerate(out):
        it = script['iters'][k]
        slots = dict((u, sl) for u, sl in o['slots'])
        started_now = []
        for uid, st in o['events']:
            if st in ('AGENT_EXECUTING_PENDING', 'FAILED', 'CANCELED'):
                if uid in final:
                    viol.append(('C04', tag + 'reported-twice', 'task %d: %s after %s' % (uid, st, final[uid])))
                final[uid] = st
            if st == 'AGENT_EXECUTING_PENDING':
                started_now.append(uid)
                held[uid] = slots.get(uid, [])
                r = reqs[uid]
                # ---- C02: shape
                if not r.get('app'):
                    sl = held[uid]
                    cps = max(r['cpr'], 1)
                    if len(sl) != r['ranks']:
                        viol.append(('C02', tag + 'wrong-rank-count', 'task %d: %d slots for %d ranks' % (uid, len(sl), r['ranks'])))
                    for x in sl:
                        if x[0] not in init:
                            viol.append(('C02', tag + 'unknown-node', str(x)))
                        if len(set(x[1])) != cps or len(x[1]) != cps:
                            viol.append(('C02', tag + 'wrong-core-count', 'task %d: cores %s, requested %d' % (uid, x[1], cps)))
                        # ... cores and GPUs a rank can use: what the platform blocks (DOWN in the node map) does not count
                        # (not judged for scripts with placements of the application's own: such a placement on a blocked core
                        #  erases the block from the node map - recorded finding F3)
                        if x[0] in init and not has_app:
                            dead_c = [c for c in x[1] if c < len(init[x[0]]['cores']) and init[x[0]]['cores'][c] is None]
                            dead_g = [i for i, _ in x[2] if i < len(init[x[0]]['gpus']) and init[x[0]]['gpus'][i] is None]
                            if dead_c or dead_g:
                                viol.append(('C02', tag + 'rank-granted-fewer-usable-resources-than-requested',
                                             'task %d: of the cores %s / GPUs %s of a rank on node %d, cores %s / GPUs %s are blocked on that node'
                                             % (uid, x[1], [i for i, _ in x[2]], x[0], dead_c, dead_g)))
                        g = r['gpr']
                        if g >= U:
                            # (an amount above one GPU that is not whole cannot be granted as asked: g % U != 0 never fits)
                            ok = g % U == 0 and len(x[2]) == g // U and len(set(i for i, _ in x[2])) == len(x[2]) and all(sh == U for _, sh in x[2])
                        elif g > 0:
                            ok = len(x[2]) == 1 and x[2][0][1] == g
                        else:
                            ok = x[2] == []
                        if not ok:
                            viol.append(('C02', tag + 'wrong-gpu-amount', 'task %d: gpus %s, requested %d/16' % (uid, x[2], g)))
                        if x[3] != r['lfs'] or x[4] != r['mem']:
                            viol.append(('C02', tag + 'wrong-lfs-mem', str(x)))
                    # the ranks of a placement hold DISTINCT cores: ranks * cores_per_rank cores in all
                    seen_cores = {}
                    for x in sl:
                        for c in x[1]:
                            if (x[0], c) in seen_cores:
                                viol.append(('C02', tag + 'two-ranks-of-a-placement-share-a-core',
                                             'task %d: core %d of node %d is in the slots of two of its ranks (%s)' % (uid, c, x[0], [list(y[1]) for y in sl if y[0] == x[0]])))
                            seen_cores[(x[0], c)] = True
                    # a rank holds storage and memory only if its node had that much left when the placement was
                    # granted (what the tasks granted before hold on that node is taken from the monitor's own account)
                    if not has_app:
                        for n in set(x[0] for x in sl if x[0] in init):
                            for idx, what in ((3, 'lfs'), (4, 'mem')):
                                left = init[n][what] - sum(y[idx] for u2, s2 in held.items() if u2 != uid for y in s2 if y[0] == n)
                                asked = sum(y[idx] for y in sl if y[0] == n)
                                if asked > left:
                                    viol.append(('C02', 'ranks-hold-%s-their-node-does-not-have' % what,
                                                 'task %d: its ranks on node %d hold %d %s, the node had %d left' % (uid, n, asked, what, left)))
                    if r['rpn']:
                        per = defaultdict(int)
                        for x in sl: per[x[0]] += 1
                        if max(per.values() or [0]) > r['rpn']:
                            viol.append(('C02', tag + 'ranks-per-node-exceeded', 'task %d: %s' % (uid, dict(per))))
                    if r['colo'] is not None:
                        if r['colo'] in colo_hist and not set(x[0] for x in sl) <= set(colo_hist[r['colo']]):
                            viol.append(('C02', tag + 'colocate-tag-ignored', 'task %d on %s, tag nodes %s' %
                                         (uid, [x[0] for x in sl], colo_hist[r['colo']])))
                        colo_hist[r['colo']] = [x[0] for x in sl]
                    cfg = script['cfg']
                    if cps > cfg['cpn'] or r['gpr'] > cfg['gpn'] * U or r['lfs'] > cfg['lfs'] or r['mem'] > cfg['mem']:
                        viol.append(('C02', tag + 'oversized-request-granted', 'task %d' % uid))
            # (a task failed from the wait pool carries 'bisect failed': the pass found it unplaceable for good)
            if st == 'FAILED' and ('never be scheduled' in str(o['exc'].get(uid, '')) or 'bisect failed' in str(o['exc'].get(uid, ''))):
                # tasks with a colocate tag are confined to the tag's nodes (C02): "fits the idle pilot" is
                # not decided by the idle node map alone, so they are not judged by this clause
                # ... and with node layouts that differ from node to node (not producible by the resource
                # managers) the continuous walk depends on where the previous task left _node_offset
                uniform = len(set((tuple(n['cores']), tuple(n['gpus']), n['lfs'], n['mem']) for n in script['nodes'])) == 1
                if reqs[uid]['colo'] is None and uniform and fits_idle(rp, script, reqs[uid]):
                    viol.append(('C04', tag + 'fitting-task-failed-for-resources', 'task %d fits the idle pilot' % uid))
                elif reqs[uid]['colo'] is not None and reqs[uid]['colo'] not in colo_hist and uniform and not has_app \
                     and fits_one_node(script, reqs[uid], ignore_tag=True):
                    viol.append(('C04', tag + 'fitting-task-with-a-new-tag-failed-for-resources',
                                 'task %d carries a colocate tag no earlier task had (exclusive: %s) and fits one node of the idle pilot'
                                 % (uid, reqs[uid]['excl'])))
        # releases of this iteration (they happen at its end)
        for msg in it['unsched']:
            for uid in msg:
                if uid in held:
                    del held[uid]
        queue_empty = (o['queued'] == 0)
        # ---- C01: oversubscription among the held placements
        cores, gpus, lfs, mem = defaultdict(list), defaultdict(int), defaultdict(int), defaultdict(int)
        for uid, sl in held.items():
            for x in sl:
                n = init.get(x[0])
                if n is None:
                    viol.append(('C01', tag + 'placement-on-unknown-node', 'task %d' % uid)); continue
                for c in x[1]:
                    if c >= len(n['cores']) or n['cores'][c] is None:
                        viol.append(('C01', tag + 'blocked-or-missing-core-granted', 'task %d core %d on node %d' % (uid, c, x[0])))
                    cores[(x[0], c)].append(uid)
                for g, sh in x[2]:
                    if g >= len(n['gpus']) or n['gpus'][g] is None:
                        viol.append(('C01', tag + 'blocked-or-missing-gpu-granted', 'task %d gpu %d' % (uid, g)))
                    gpus[(x[0], g)] += sh
                lfs[x[0]] += x[3]; mem[x[0]] += x[4]
        for k2, us in cores.items():
            if len(us) > 1:
                viol.append(('C01', tag + 'core-held-twice', 'node %d core %d held by tasks %s' % (k2[0], k2[1], us)))
        for k2, sh in gpus.items():
            if sh > U:
                viol.append(('C01', tag + 'gpu-oversubscribed', 'node %d gpu %d: %d/16' % (k2[0], k2[1], sh)))
        for n, v in lfs.items():
            if v > init[n]['lfs']: viol.append(('C01', tag + 'lfs-oversubscribed', 'node %d: %d > %d' % (n, v, init[n]['lfs'])))
        for n, v in mem.items():
            if v > init[n]['mem']: viol.append(('C01', tag + 'mem-oversubscribed', 'node %d: %d > %d' % (n, v, init[n]['mem'])))
        # ---- C03: node map = initial map minus what is held
        exp = {}
        for n in script['nodes']:
            exp[n['index']] = [n['index'], list(n['cores']), list(n['gpus']), n['lfs'], n['mem']]
        for uid, sl in held.items():
            for x in sl:
                if x[0] in exp:
                    for c in x[1]:
                        if c < len(exp[x[0]][1]): exp[x[0]][1][c] = 1
                    for g, _ in x[2]:
                        if g < len(exp[x[0]][2]): exp[x[0]][2][g] = 1
                    exp[x[0]][3] -= x[3]; exp[x[0]][4] -= x[4]
        got = {n[0]: n for n in o['state']['nodes']}
        if queue_empty and got != exp:
            kind = 'capacity-not-restored' if not held else 'node-map-differs-from-held'
            viol.append(('C03', tag + kind, 'iteration %d: node map %s, expected %s' % (k, sorted(got.values()), sorted(exp.values()))))
        if queue_empty and o['state']['active'] != len(held):
            viol.append(('C03', tag + 'active-count-wrong', 'iteration %d: _active_cnt %d, %d tasks hold resources' % (k, o['state']['active'], len(held))))
        # ---- C04: every task in exactly one place
        wp = set(u for _, us in o['state']['waitpool'] for u in us)
        for uid, r in reqs.items():
            arrived = any(uid in [x['uid'] for m in script['iters'][j]['incoming'] for x in m.get('sched', [])] for j in range(k + 1))
            if not arrived: continue
            places = int(uid in final) + int(uid in wp)
            if places != 1:
                viol.append(('C04', tag + ('task-lost' if places == 0 else 'task-in-two-places'),
                             'iteration %d: task %d final=%s waiting=%s' % (k, uid, final.get(uid), uid in wp)))
        # ---- C04: priorities - a task from the wait pool is not started while a task with the same request and a
        #      strictly higher priority, which waited just as long, goes on waiting (what fits the one fits the other)
        shape = lambda r: (r['ranks'], r['cpr'], r['gpr'], r['lfs'], r['mem'], r['rpn'], r['colo'], r['excl'], r['env'])
        # (stated for TWO waiting tasks: with more of them in one pool, lazy_bisect may leave a task untried in a pass)
        for su in started_now:
            if su in prev_wp and len(prev_wp) == 2 and not has_app and reqs[su]['colo'] is None and reqs[su]['env'] is None:
                for hu in sorted(wp & prev_wp):
                    if reqs[hu]['prio'] > reqs[su]['prio'] and shape(reqs[hu]) == shape(reqs[su]) and hu not in o['state']['cancel']:
                        viol.append(('C04', tag + 'lower-priority-task-started-first',
                                     'iteration %d: task %d (priority %d) is started from the wait pool, task %d (priority %d, same request) keeps waiting'
                                     % (k, su, reqs[su]['prio'], hu, reqs[hu]['prio'])))
        prev_wp = set(wp)
        # ---- C04: an idle pilot with waiting tasks that all fit starts one in the next iteration
        if idle_pending is not None:
            if not started_now and not any(st == 'FAILED' for _, st in o['events']) and idle_pending:
                viol.append(('C04', tag + 'idle-pilot-starts-nothing', 'iteration %d: waiting %s all fit the idle pilot' % (k, sorted(idle_pending))))
        # ---- C04: ... and if none of them fits even the idle pilot, at least one is failed in the next iteration
        if unfit_pending:
            if not any(st in ('FAILED', 'CANCELED', 'AGENT_EXECUTING_PENDING') and uid in unfit_pending for uid, st in o['events']):
                viol.append(('C04', tag + 'unfitting-tasks-keep-waiting-on-idle-pilot',
                             'iteration %d: waiting %s, none fits the idle pilot, none was failed' % (k, sorted(unfit_pending))))
        # ---- C04: a task waiting ALONE is started as soon as enough resources are released for it: judged by plain
        #      arithmetic for plain requests on a pilot in scattered mode (any node may be used in part): the free
        #      cores (and lfs, mem) of the nodes together hold its ranks -> the next pass over the wait pool starts it
        if alone_pending is not None:
            if alone_pending not in started_now and alone_pending in wp and alone_pending not in o['state']['cancel']:
                viol.append(('C04', tag + 'task-waiting-alone-not-started-after-release',
                             'iteration %d: task %d waits alone, the free resources after the releases of iteration %d hold all its ranks '
                             '(ranks %d x %d cores), it is not started' % (k, alone_pending, k - 1, reqs[alone_pending]['ranks'], reqs[alone_pending]['cpr'])))
        alone_pending = None
        if len(wp) == 1 and not has_app and it['unsched'] and queue_empty and script['cfg'].get('scattered', True) \
           and k + 1 < len(out) and not script['iters'][k + 1]['incoming'] and not script['iters'][k + 1].get('marks'):
            u = next(iter(wp)); r = reqs[u]
            envs_known = set(e for j in range(k + 1) for e in script['iters'][j]['envs'])
            if not (r['gpr'] or r['rpn'] or r['colo'] is not None or r['excl'] or r['ranks'] < 1 or r['cpr'] < 1) \
               and (r['env'] is None or r['env'] in envs_known) and u not in o['state']['cancel'] and not o['state']['tagged']:
                room = 0
                for n in o['state']['nodes']:
                    kk = sum(1 for c in n[1] if c == 0) // r['cpr']
                    if r['lfs']: kk = min(kk, (n[3] or 0) // r['lfs'])
                    if r['mem']: kk = min(kk, (n[4] or 0) // r['mem'])
                    room += kk
                if room >= r['ranks']:
                    alone_pending = u
        unfit_pending = None
        idle_pending = None
        if not held and wp and not has_app:
            envs_known = set(e for j in range(k + 1) for e in script['iters'][j]['envs'])
            cand = [u for u in wp if (reqs[u]['env'] is None or reqs[u]['env'] in envs_known) and reqs[u]['colo'] is None]
            if cand and len(cand) == len(wp) and it['unsched'] and queue_empty:
                fits = [fits_idle(rp, script, reqs[u]) for u in cand]
                if all(fits):
                    idle_pending = set(cand)
                elif not any(fits) and k + 1 < len(out) and not script['iters'][k + 1]['incoming'] and \
                     len(set((tuple(n['cores']), tuple(n['gpus']), n['lfs'], n['mem']) for n in script['nodes'])) == 1:
                    # ("fits the idle pilot" is judged from node 0 on: with node layouts that differ from node to node a
                    #  continuous walk that starts elsewhere may find room where this one does not - only uniform pilots)
                    unfit_pending = set(cand)
    # directed scripts may name a task that has to be started by the end of the script (`must_start`: [uid, why])
    if script.get('must_start') and not has_app:
        u, why = script['must_start']
        if final.get(u) != 'AGENT_EXECUTING_PENDING':
            viol.append(('C04', 'waiting-task-not-started-although-enough-continuous-resources-were-released',
                         'task %d %s: %s' % (u, 'was ' + final[u] if u in final else 'still waits at the end', why)))
    return [v for v in viol if v[0] in props]
