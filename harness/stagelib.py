"""Runs the four real staging components (tmgr input, agent input, agent output,
tmgr output: their real `work` methods, real StagingHelper with the local back
end) on a scratch tree that holds a client directory and a resource / session /
pilot / task sandbox, and reports the resulting file tree.  `advance` is
recorded; pushing a task on to the next component is done by the driver below."""

import os
import copy
import shutil
import threading as mt

import rpload


class Prof(object):
    enabled = False
    def prof(self, *a, **k): pass


class Tree(object):
    """scratch locations; everything under one root so that a run can be compared and removed"""

    def __init__(self, root, sid='rp.session.verif.0001', pid='pilot.0000'):
        self.root   = os.path.realpath(root)
        self.client = self.root + '/client'
        self.rsbox  = self.root + '/resource/radical.pilot.sandbox'
        self.ssbox  = self.rsbox + '/' + sid
        self.psbox  = self.ssbox + '/' + pid
        self.other  = self.root + '/elsewhere'
        for d in (self.client, self.psbox, self.other):
            os.makedirs(d, exist_ok=True)
        self.sid, self.pid = sid, pid

    def url(self, path):
        return 'file://localhost' + path

    def task_dict(self, rp, uid, descr, sandbox=None, pid=None):
        td = rp.TaskDescription(from_dict=descr)
        td.verify()
        # Task.__init__ expands the short forms (no URL completion yet)
        from radical.pilot.staging_directives import expand_description
        expand_description(td)
        td = td.as_dict()
        tsbox = sandbox or (self.psbox + '/' + uid + '/')
        # `pid` only changes which pilot the task is bound to (the client side stager groups a bulk by pilot);
        # the sandboxes stay those of this tree
        return {'uid': uid, 'description': td, 'pilot': pid or self.pid, 'state': 'TMGR_STAGING_INPUT_PENDING',
                'client_sandbox': self.client, 'endpoint_fs': 'file://localhost', 'resource_sandbox': self.url(self.rsbox),
                'session_sandbox': self.url(self.ssbox), 'pilot_sandbox': self.url(self.psbox),
                'task_sandbox': self.url(tsbox), 'task_sandbox_path': tsbox, 'stdout': '', 'stderr': '',
                'target_state': None}

    def snapshot(self):
        """{relative path: content | '-> link target' | None for a directory}"""
        out = {}
        for dp, dns, fns in os.walk(self.root):
            for fn in fns:
                p = os.path.join(dp, fn)
                rel = p[len(self.root):]
                try:
                    st = os.lstat(p)
                    with open(p, 'rb') as f: data = f.read()
                    out[rel] = {'data': data.decode('utf8', 'replace')[:200], 'nlink': st.st_nlink, 'ino': st.st_ino}
                except Exception as e:
                    out[rel] = {'data': 'unreadable:%s' % e, 'nlink': 0, 'ino': 0}
        return out


def _mk(rp, cls, uid):
    import radical.pilot.utils as rpu
    o = object.__new__(cls)
    o._uid, o._log, o._prof = uid, rpload.NullLog(), Prof()
    o._stager = rpu.StagingHelper(o._log)
    o._pwd = os.getcwd()
    o.rec = []
    def advance(things, state=None, publish=True, push=False, **kw):
        if not isinstance(things, list): things = [things]
        for t in things:
            if state: t['state'] = state
            o.rec.append((t['uid'], t['state'], bool(push)))
    o.advance = advance
    o.publish = lambda *a, **k: None
    return o


def make_stagers(rp, tree):
    from radical.pilot.tmgr.staging_input.default  import Default as TIn
    from radical.pilot.agent.staging_input.default import Default as AIn
    from radical.pilot.agent.staging_output.default import Default as AOut
    from radical.pilot.tmgr.staging_output.default import Default as TOut
    tin  = _mk(rp, TIn,  'tmgr_staging_input.0000')
    tin._pilots, tin._pilots_lock, tin._connected = {}, mt.RLock(), []
    tin._session_sbox, tin._tar_idx, tin._mkdir_threshold = tree.url(tree.ssbox), 0, 10 ** 9
    ain  = _mk(rp, AIn,  'agent_staging_input.0000')
    aout = _mk(rp, AOut, 'agent_staging_output.0000')
    tout = _mk(rp, TOut, 'tmgr_staging_output.0000')
    return tin, ain, aout, tout


def last_state(comp, uid):
    st = [s for u, s, p in comp.rec if u == uid]
    return st[-1] if st else None


def run_pipeline(rp, tree, tasks, outcomes, produce, stagers=None):
    """tasks: task dicts (bulk).  outcomes: uid -> 'DONE'|'FAILED'|'CANCELED' (what execution ends in).
    produce: uid -> {relative path in task sandbox: content}, written when the task 'runs'.
    Returns {uid: final state, ...}, per-stage records"""
    # (`stagers`: the same four components serve one bulk after the other, as in a running session)
    tin, ain, aout, tout = stagers or make_stagers(rp, tree)
    cwd = os.getcwd()
    os.chdir(tree.client)
    final = {}
    try:
        tin.work(tasks)
        to_agent = [t for t in tasks if last_state(tin, t['uid']) == 'AGENT_STAGING_INPUT_PENDING']
        for t in tasks:
            if t not in to_agent: final[t['uid']] = last_state(tin, t['uid'])
        os.chdir(tree.psbox)
        # the agent receives copies (messages)
        to_agent = [copy.deepcopy(t) for t in to_agent]
        ain.work(to_agent)
        ran = [t for t in to_agent if last_state(ain, t['uid']) == 'AGENT_SCHEDULING_PENDING']
        for t in to_agent:
            if t not in ran: final[t['uid']] = last_state(ain, t['uid'])
        for t in ran:
            sb = t['task_sandbox_path']
            os.makedirs(sb, exist_ok=True)
            for rel, content in produce.get(t['uid'], {}).items():
                p = os.path.join(sb, rel)
                os.makedirs(os.path.dirname(p), exist_ok=True)
                with open(p, 'w') as f: f.write(content)
            t['target_state'] = outcomes.get(t['uid'], 'DONE')
            t['stdout_file'] = t['stderr_file'] = None
        aout.work(ran)
        to_client = [t for t in ran if last_state(aout, t['uid']) == 'TMGR_STAGING_OUTPUT_PENDING']
        for t in ran:
            if t not in to_client: final[t['uid']] = last_state(aout, t['uid'])
        os.chdir(tree.client)
        to_client = [copy.deepcopy(t) for t in to_client]
        tout.work(to_client)
        for t in to_client:
            final[t['uid']] = last_state(tout, t['uid'])
    finally:
        os.chdir(cwd)
    return final, {'tin': tin.rec, 'ain': ain.rec, 'aout': aout.rec, 'tout': tout.rec}
