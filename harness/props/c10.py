"""C10 — The generated task scripts run what the user described.

Implementation under test = the real script generators (Popen._handle_task ->
_create_exec_script / _create_launch_script, LaunchMethod.get_exec, real Fork /
MPIRun launchers) + bash executing what they wrote (see execlib).  Tie: the
command line, the export lines, the sandbox reference and the RP_GPUS_PER_RANK
text are compared with Model/Shell.lean, what bash made of them (argv,
environment) with the model's reading of the same text, the trace of commands
and the exit code with Model/Script.lean.  Monitor: the probe saw exactly the
described argv / environment / RP_* values / cwd, stdout and stderr are in the
described files, commands ran in the described order on the described ranks, a
failing pre_exec prevented the executable, exit codes as described."""

import os
import re
import shutil
import tempfile

import common
import rpload
import execlib

RESERVED = 1000000
ALPHA = ['a', 'b', 'Z', '0', ' ', ' ', '\t', '\n', "'", '"', '"', '\\', '\\', '*', '?', '[', ']', '~', '#', '&', ';', '|',
         '<', '>', '(', ')', '{', '}', '!', '=', '%', '-', '.', '/', ',', ':', '@', '^', 'ü', '漢', 'é', '😀']


def gen_str(rng, maxlen=8, extra=()):
    r = rng.random()
    if r < 0.12: return ''
    if r < 0.2:  return rng.choice(['-x', '--flag=1', '*', '~', 'a b', '"', '\\', '\\\\', "it's", 'a"b', 'end\\', '#c', ' lead', 'trail ', '\n'])
    return ''.join(rng.choice(ALPHA + list(extra)) for _ in range(rng.randint(1, maxlen)))


def gen_entries(rng, ranks, nid, codes, p_fail):
    """a pre_exec/post_exec list: [(kind, ...)] with fresh command ids; returns (json entries, description entries builder)"""
    entries = []
    for _ in range(rng.choice([0, 0, 1, 1, 2, 3])):
        if ranks >= 1 and rng.random() < 0.35:
            m = []
            for r in rng.sample(range(ranks + 1), rng.randint(1, ranks + 1)):       # ranks+1: a key no rank has
                ids = []
                for _ in range(rng.choice([1, 1, 2])):
                    ids.append(nid[0]); codes[nid[0]] = rng.choice([1, 3]) if rng.random() < p_fail else 0; nid[0] += 1
                m.append([r, ids])
            entries.append({'per': m})
        else:
            entries.append({'all': nid[0]}); codes[nid[0]] = rng.choice([1, 2]) if rng.random() < p_fail else 0; nid[0] += 1
    # a command may be listed more than once (`module load x; module purge; module load x`, a counter bumped twice): it
    # runs every time it is listed, at its place
    if entries and rng.random() < 0.2:
        e = rng.choice(entries)
        entries.insert(rng.randint(0, len(entries)), {'all': e['all']} if 'all' in e else {'per': [[r, list(ids)] for r, ids in e['per']]})
    return entries


def to_descr(entries, cmd, codes, rng):
    out = []
    for e in entries:
        if 'all' in e:
            out.append('%s %d %d' % (cmd, e['all'], codes[e['all']]))
        else:
            d = {}
            for r, ids in e['per']:
                cs = ['%s %d %d' % (cmd, i, codes[i]) for i in ids]
                d[str(r)] = cs[0] if len(cs) == 1 and rng.random() < 0.5 else cs
            out.append(d)
    return out


def gen_case(rng, sb):
    ranks = rng.choice([1, 1, 1, 2, 3])
    nid, codes = [1], {}
    p_fail = rng.choice([0, 0, 0.15, 0.4])
    pre  = gen_entries(rng, ranks, nid, codes, p_fail)
    post = gen_entries(rng, ranks, nid, codes, p_fail)
    prel, postl = [], []
    for lst in (prel, postl):
        for _ in range(rng.choice([0, 0, 1, 2])):
            lst.append(nid[0]); codes[nid[0]] = 4 if rng.random() < p_fail else 0; nid[0] += 1
    args = [gen_str(rng) for _ in range(rng.choice([0, 1, 2, 3, 5]))]
    expansion = rng.random() < 0.06
    if expansion:
        args.append(rng.choice(['$HOME', '`echo x`', 'a$RP_TASK_ID', '$(echo y)', '\\$lit']))
    env = {}
    for _ in range(rng.choice([0, 0, 1, 2, 3])):
        env[rng.choice(['FOO', 'BAR_1', 'X', 'PATH_EXTRA', 'CFG', '_U'])] = gen_str(rng)
    gpr = rng.choice([0, 0, 0, 1, 2, 0.5, 0.25, 1.5])
    gpu_type = rng.choice(['CUDA', 'CUDA', '']) if gpr else ''
    gpus = None
    if gpr:
        gpus = [sorted(rng.sample(range(4), max(1, int(gpr + 0.99)))) for _ in range(ranks)]
    exe_codes = [rng.choice([0, 0, 0, 0, 1, 7, 42]) for _ in range(ranks)]
    sandbox = rng.choice([None, None, None, 'sibling', 'elsewhere', 'deeper'])
    # a named environment: its script un-sets what the agent has and the named environment lacks
    # (RPV_AGENT_VAR) and exports its own values (RPV_NAMED_VAR); the task describes both differently
    named_env = 'ne1' if rng.random() < 0.2 else None
    if named_env:
        env['RPV_AGENT_VAR'] = 'task_a' + gen_str(rng, 3)
        env['RPV_NAMED_VAR'] = 'task_n' + gen_str(rng, 3)
    return {'ranks': ranks, 'named_env': named_env, 'args': args, 'env': env, 'pre': pre, 'post': post, 'pre_launch': prel, 'post_launch': postl,
            'codes': sorted(codes.items()), 'exe_codes': exe_codes, 'gpr': gpr, 'gpu_type': gpu_type, 'gpus': gpus,
            'omp': rng.choice([None, None, rng.choice([1, 2, 4])]), 'platform': rng.random() < 0.15,
            # unset / relative to the task sandbox / absolute ('ABS:' is replaced by a scratch directory), independently
            'stdout': rng.choice([None, None, 'out.txt', 'my out.txt', "o'q.out", 'a;b.out', 'ABS:abs.out', 'ABS:abs o.txt']),
            'stderr': rng.choice([None, None, 'err.txt', 'my err.txt', 'ABS:abs.err', 'ABS:abs e.txt']),
            'sandbox': sandbox, 'name': rng.choice([None, None, 'my.task']), 'seq': rng.randrange(10 ** 6), 'expansion': expansion,
            # (not together with a named environment: its prepared script un-sets what the executor's environment had when
            #  it was prepared - with an outer task's RP_* variables there it un-sets the task's own ones, DESIGN.md 7.3)
            'outer': rng.random() < 0.25 and not named_env,
            # the executable given by name, found through the PATH the task describes for itself (the agent's own PATH has a
            # different program of that name first)
            'bare': rng.random() < 0.2 and not named_env,
            # a startup timeout: the exec script reports the start of the task (once, from rank 0) before anything else
            'startup': rng.choice([0, 0, 0, 0, 30])}


def exe_of(sb, case):
    return 'probe' if case.get('bare') else sb.probe


def build(rp, sb, case, uid):
    import random
    rng = random.Random(case['seq'])
    codes = dict(case['codes'])
    d = {'executable': exe_of(sb, case), 'arguments': list(case['args']), 'environment': dict(case['env']), 'ranks': case['ranks'],
         'pre_exec': to_descr(case['pre'], sb.cmd, codes, rng), 'post_exec': to_descr(case['post'], sb.cmd, codes, rng),
         'pre_launch': ['%s %d %d' % (sb.cmd, i, codes[i]) for i in case['pre_launch']],
         'post_launch': ['%s %d %d' % (sb.cmd, i, codes[i]) for i in case['post_launch']],
         'gpus_per_rank': case['gpr'], 'gpu_type': case['gpu_type']}
    if case['omp']:    d.update({'threading_type': 'OpenMP', 'cores_per_rank': case['omp']})
    if case.get('startup'): d['startup_timeout'] = case['startup']
    for key in ('stdout', 'stderr'):
        v = case[key]
        if v and v.startswith('ABS:'):
            os.makedirs('%s/abs out/%s' % (sb.root, uid), exist_ok=True)
            v = '%s/abs out/%s/%s' % (sb.root, uid, v[4:])
        if v: d[key] = v
    if case['name']:   d['name'] = case['name']
    if case.get('named_env'):
        d['named_env'] = case['named_env']
        os.environ['RPV_AGENT_VAR'] = 'agent'
        nf = '%s/env/rp_named_env.%s.env' % (sb.psbox, case['named_env'])
        if not os.path.exists(nf):
            with open(nf, 'w') as fh:
                fh.write('PATH=%s\nRPV_NAMED_VAR=named\nRPV_ONLY_NAMED=named\n' % os.environ.get('PATH', '/usr/bin:/bin'))
    sandbox = None
    if case['sandbox'] == 'sibling':   sandbox = sb.psbox + '_data/' + uid
    if case['sandbox'] == 'elsewhere': sandbox = sb.root + '/other place/' + uid if False else sb.root + '/other/' + uid
    if case['sandbox'] == 'deeper':    sandbox = sb.psbox + '/sub/dir/' + uid
    t = execlib.make_task(rp, sb, d, uid=uid, sandbox=sandbox, gpus=case['gpus'])
    if case['name']: t['name'] = case['name']
    return t


def model_ops(sb, case, task, pwd):
    cw = True
    ops = [{'op': 'execline', 'exe': exe_of(sb, case), 'args': case['args']}]
    for k, v in case['env'].items():
        ops.append({'op': 'export', 'k': k, 'v': v})
    ops.append({'op': 'envorder', 'named': bool(case.get('named_env')), 'nenv': len(case['env'])})
    ops.append({'op': 'rpenv', 'gpr16': int(round(case['gpr'] * 16)), 'pwd': pwd, 'sbox': os.path.realpath(task['task_sandbox_path']), 'cw': cw})
    cuda = None
    if case['gpr'] and case['gpu_type'] == 'CUDA':
        cuda = [[r, [RESERVED + 1]] for r in range(case['ranks'])]
    ops.append({'op': 'run', 'ranks': case['ranks'], 'pre': case['pre'], 'post': case['post'],
                'omp': RESERVED if case['omp'] else None, 'cuda': cuda, 'platform': [RESERVED + 2] if case['platform'] else [],
                'pre_launch': case['pre_launch'], 'post_launch': case['post_launch'],
                'codes': [list(x) for x in case['codes']], 'exe_codes': case['exe_codes']})
    return ops


def observe(sb, case, task, res, p, launcher, pwd):
    """the implementation's answers to the model ops, in the same order"""
    out = []
    line = launcher.get_exec(task)
    argv = res['ranks'].get(0, {}).get('argv')
    out.append({'line': line, 'words': ([exe_of(sb, case)] + argv) if argv is not None else 'not-run'})
    exec_sh = open('%s/%s.exec.sh' % (task['task_sandbox_path'], task['uid'])).read()
    envr = res['ranks'].get(0, {}).get('env')
    # the export lines as the real _get_task_env wrote them: compared as one text (values may contain newlines)
    text = p._get_task_env(task, launcher)
    for i, k in enumerate(case['env'].keys()):
        out.append({'text': text if i == 0 else None, 'parsed': [k, envr.get(k)] if envr is not None else 'not-run'})
    # kinds of the parts of the task environment section, in order (export values may span lines:
    # exports are counted by the keys of the description)
    # (the line that sources a named environment names a script under <pilot sandbox>/env/; a value of the
    # description that merely contains a newline followed by `. ` is not such a line)
    mni = re.search(r'\n\. \S*/env/rp_named_env\.', text)
    ni, ei = (mni.start() if mni else -1), text.find('\nexport ')
    nexp = ['export'] * len(case['env'])
    if ni < 0:             kinds = nexp
    elif ei < 0 or ni < ei: kinds = ['named'] + nexp
    else:                   kinds = nexp + ['named']
    out.append(kinds)
    m = re.search(r'^export RP_TASK_SANDBOX="(.*)"$', exec_sh, re.M)
    out.append({'gpr': re.search(r'^export RP_GPUS_PER_RANK=(.*)$', exec_sh, re.M).group(1),
                'ref': m.group(1) if m else None,
                'expanded': os.path.normpath(envr['RP_TASK_SANDBOX']) if envr is not None else 'not-run'})
    events = []
    lines = res['log']
    by_rank = {}
    order = []
    for l in lines:
        m = re.match(r'^(cmd (\d+)|exe) rank=(\S+)$', l)
        kind, cid, rk = m.group(1), m.group(2), m.group(3)
        if rk == '-':
            events.append({'l': int(cid)})
        else:
            rk = int(rk)
            if rk not in by_rank:
                by_rank[rk] = []; events.append({'rank': rk, 'evs': by_rank[rk]})
            by_rank[rk].append('exe' if kind == 'exe' else int(cid))
    out.append({'rc': res['rc'], 'events': events})
    return out


def canon_model(case, ans):
    """drop the reserved (export) commands from the model's trace; ranks that ran nothing are not visible in the log"""
    if isinstance(ans, dict) and 'events' in ans:
        evs = []
        for e in ans['events']:
            if 'rank' in e:
                l = [x for x in e['evs'] if x == 'exe' or x < RESERVED]
                if l: evs.append({'rank': e['rank'], 'evs': l})
            else:
                evs.append(e)
        return {'rc': ans['rc'], 'events': evs}
    return ans


def monitor(sb, case, task, res, pwd):
    """the contract, judged on what the probes recorded (independent of the Lean model)"""
    bad = []
    codes = dict(case['codes'])
    n = case['ranks']
    sbox = os.path.realpath(task['task_sandbox_path'])
    prel_fail = next((i for i in case['pre_launch'] if codes[i]), None)

    def cmds_for(entries, r):
        if all('all' in e for e in entries):
            return [e['all'] for e in entries]
        out = []
        for e in entries:
            if 'all' in e: out.append(e['all'])
            else:
                for rr, ids in e['per']:
                    if rr == r: out += ids
        return out

    # expected trace per rank and exit codes
    exp_rank, exp_codes = {}, []
    for r in range(n):
        tr, code = [], None
        for c in cmds_for(case['pre'], r):
            tr.append(c)
            if codes[c]: code = 1; break
        if code is None:
            tr.append('exe'); code = case['exe_codes'][r]
            for c in cmds_for(case['post'], r):
                tr.append(c)
                if codes[c]: code = 1; break
        exp_rank[r] = tr; exp_codes.append(code)
    got_rank = {}
    got_l = []
    for l in res['log']:
        m = re.match(r'^(cmd (\d+)|exe) rank=(\S+)$', l)
        if m.group(3) == '-': got_l.append(int(m.group(2)))
        else: got_rank.setdefault(int(m.group(3)), []).append('exe' if m.group(1) == 'exe' else int(m.group(2)))
    if prel_fail is not None:
        if got_rank:
            bad.append(('launch:ran-after-failing-pre_launch', 'pre_launch command %d failed, ranks still ran: %s' % (prel_fail, got_rank)))
        if res['rc'] != 1:
            bad.append(('launch:exit-code-after-failing-pre_launch', 'exit code %s' % res['rc']))
        return bad
    # the start of the task is reported exactly once, by rank 0, and only when a startup timeout is set; it is a
    # report, not a condition: every rank goes on to its commands and the executable
    ctrl = open(sb.probe_dir + '/ctrl.log').read().splitlines() if os.path.exists(sb.probe_dir + '/ctrl.log') else []
    want_ctrl = ['rank=0 %s task_startup_done uid=%s' % (sb.sid, task['uid'])] if case.get('startup') and prel_fail is None else []
    if ctrl != want_ctrl:
        bad.append(('exec:startup-report-differs', 'radical-pilot-control was called as %s, described %s' % (ctrl, want_ctrl)))
    if os.path.exists(sb.probe_dir + '/decoy.ran'):
        bad.append(('exec:another-program-than-the-described-one-ran', 'the executable is described as %r with PATH=%r; the program of that name on the '
                    'agent\'s own PATH ran instead' % (exe_of(sb, case), case['env'].get('PATH'))))
    for r in range(n):
        if got_rank.get(r, []) != exp_rank[r]:
            sig = 'exec:order-or-rank-of-commands'
            if 'exe' in got_rank.get(r, []) and 'exe' not in exp_rank[r]: sig = 'exec:executable-ran-after-failing-pre_exec'
            if 'exe' not in got_rank.get(r, []) and 'exe' in exp_rank[r]: sig = 'exec:executable-did-not-run'
            bad.append((sig, 'rank %d ran %s, described: %s' % (r, got_rank.get(r, []), exp_rank[r])))
    postl_fail = any(codes[i] for i in case['post_launch'])
    exp_rc = 1 if postl_fail else next((c for c in exp_codes if c), 0)
    if res['rc'] != exp_rc:
        bad.append(('launch:exit-code', 'exit code %s, described %s (ranks %s)' % (res['rc'], exp_rc, exp_codes)))
    # what the executable saw
    for r, info in res['ranks'].items():
        if r >= n:
            bad.append(('exec:process-runs-as-a-rank-the-task-does-not-have', 'a process took itself for rank %d of %d' % (r, n)))
            continue
        if not case['expansion'] and info['argv'] != case['args']:
            bad.append(('exec:argv-differs', 'rank %d got %r, described %r' % (r, info['argv'], case['args'])))
        e = info['env']
        for k, v in case['env'].items():
            if '$' in v or '`' in v: continue
            if e.get(k) != v:
                bad.append(('exec:environment-value-differs', '%s=%r, described %r' % (k, e.get(k), v)))
        want = {'RP_TASK_ID': task['uid'], 'RP_TASK_NAME': case['name'] or task['uid'], 'RP_PILOT_ID': sb.pid, 'RP_SESSION_ID': sb.sid,
                'RP_RANK': str(r), 'RP_RANKS': str(n), 'RP_CORES_PER_RANK': str(case['omp'] or 1),
                'RP_GPUS_PER_RANK': ('%d' % case['gpr']) if int(case['gpr']) == case['gpr'] else ('%f' % case['gpr']),
                'RP_CONTROL_PUB_ADDRESS': 'tcp://10.0.0.1:20001', 'RP_CONTROL_SUB_ADDRESS': 'tcp://10.0.0.1:20002',
                'RP_REGISTRY_ADDRESS': 'tcp://10.0.0.1:10001', 'RP_RESOURCE': 'local.localhost'}
        for k, v in want.items():
            if e.get(k) != v:
                bad.append(('exec:rp-variable-differs:%s' % k, '%s=%r, described %r' % (k, e.get(k), v)))
        for k, v in {'RP_TASK_SANDBOX': sbox, 'RP_PILOT_SANDBOX': sb.psbox, 'RP_SESSION_SANDBOX': sb.ssbox, 'RP_RESOURCE_SANDBOX': sb.rsbox}.items():
            if os.path.normpath(e.get(k, '')) != os.path.normpath(v):
                bad.append(('exec:rp-variable-differs:%s' % k, '%s=%r, described %r' % (k, e.get(k), v)))
        if os.path.realpath(info['cwd']) != sbox:
            bad.append(('exec:not-in-task-sandbox', 'cwd %s, sandbox %s' % (info['cwd'], sbox)))
        if case['gpr'] and case['gpu_type'] == 'CUDA':
            if e.get('CUDA_VISIBLE_DEVICES') != ','.join(str(g) for g in case['gpus'][r]):
                bad.append(('exec:gpu-assignment-differs', 'rank %d CUDA_VISIBLE_DEVICES=%r, slot gpus %s' % (r, e.get('CUDA_VISIBLE_DEVICES'), case['gpus'][r])))
        if case['omp'] and e.get('OMP_NUM_THREADS') != str(case['omp']):
            bad.append(('exec:omp-threads-differ', '%r vs %s' % (e.get('OMP_NUM_THREADS'), case['omp'])))
    ran = sorted(r for r in got_rank if 'exe' in got_rank[r])
    if ran:
        so = ''.join('probe-stdout-%d\n' % r for r in ran); se = ''.join('probe-stderr-%d\n' % r for r in ran)
        if res['stdout_file'] is None or so not in res['stdout_file'].replace('\r', ''):
            if sorted((res['stdout_file'] or '').splitlines()) != sorted(so.splitlines()):
                bad.append(('launch:stdout-not-in-described-file', '%r in %s' % (res['stdout_file'], task.get('stdout_file'))))
        if res['stderr_file'] is None or not all(x in res['stderr_file'] for x in se.splitlines()):
            bad.append(('launch:stderr-not-in-described-file', '%r in %s' % (res['stderr_file'], task.get('stderr_file'))))
    for key in ('stdout_file', 'stderr_file'):
        if not res.get(key + '_recorded', True):
            bad.append(('launch:%s-recorded-differs-from-described' % key, 'task[%r] = %r' % (key, task.get(key))))
    return bad


def one(rp, sb, p, case, uid):
    if case.get('bare'):
        case['env'] = dict(case['env'], PATH='%s/bin:/usr/bin:/bin' % sb.root)
    task = build(rp, sb, case, uid)
    launcher = execlib.make_launcher(rp, sb, case['ranks'])
    if case.get('named_env'):
        case['_named_path'] = '%s/env/rp_named_env.%s.%s.sh' % (sb.psbox, case['named_env'], launcher.name.lower())
    # (the platform's list is ONE object of the resource configuration, handed out for every task of the executor)
    if not hasattr(sb, 'platform_pre'): sb.platform_pre = ['export PLATFORM_PRE=1']
    p._session.rcfg['task_pre_exec'] = sb.platform_pre if case['platform'] else None
    extra = {'PROBE_EXIT_%d' % r: str(c) for r, c in enumerate(case['exe_codes'])}
    if case.get('outer'):
        # the executor itself runs inside a rank of a task of another RP instance (a sub-agent, nested pilots): its
        # environment carries that task's RP_* variables
        extra.update({'RP_RANK': '7', 'RP_RANKS': '9', 'RP_TASK_ID': 'task.outer', 'RP_TASK_NAME': 'outer', 'RP_CORES_PER_RANK': '7'})
    res = execlib.run_task(rp, sb, p, task, launcher, env_extra=extra)
    return task, launcher, res


def run_sync(rp, sb, p, ranks, uid):
    """a task of several ranks with `pre_exec_sync`: the ranks run at the same time and reach the synchronisation behind
    their pre_exec section highest rank first, rank 0 last; every rank has to get past it and run the executable"""
    task = execlib.make_task(rp, sb, {'executable': sb.probe, 'arguments': ['sync'], 'ranks': ranks, 'pre_exec_sync': True,
                                      'pre_exec': ['true']}, uid=uid)
    launcher = execlib.make_launcher(rp, sb, ranks)
    p._session.rcfg['task_pre_exec'] = None
    res = execlib.run_task(rp, sb, p, task, launcher, env_extra={'RPV_MPIRUN_PARALLEL': 'reverse'}, timeout=25)
    shutil.rmtree(task['task_sandbox_path'], ignore_errors=True)
    return res


def sync_part(ctx, rp, sb, p):
    for ranks in (2, 3):
        res = run_sync(rp, sb, p, ranks, 'task.9%05d' % ranks)
        ctx.case({'pre_exec_sync': ranks}, nontrivial=True)
        if res['rc'] != 0 or len(res['ranks']) != ranks:
            ctx.fail('exec:ranks-do-not-get-past-the-pre_exec-synchronisation',
                     '%d ranks with pre_exec_sync, rank 0 arriving last: the launch script ended %r, %d ranks ran the executable'
                     % (ranks, res['rc'], len(res['ranks'])), {'sync': ranks}, observed={'rc': res['rc'], 'log': res['log']})
    ctx.obligation('tasks of 2 and 3 concurrent ranks with pre_exec_sync (rank 0 reaches the synchronisation last): every rank runs the executable', 'tie', True, '')


def run(ctx):
    rp  = rpload.load()
    rng = ctx.rng
    root = tempfile.mkdtemp(prefix='c10_')
    ops, impl, canon_cases = [], [], []
    dist = {'cases': 0, 'multi_rank': 0, 'pre_failed': 0, 'exe_nonzero': 0, 'per_rank_entries': 0, 'hostile_args': 0, 'env_values': 0,
            'sandbox_outside': 0, 'expansion': 0, 'gpu': 0}
    try:
        sb  = execlib.Sandbox(root)
        os.environ['PATH'] = '%s/decoy:%s' % (sb.root, os.environ.get('PATH', '/usr/bin:/bin'))      # the agent's own search path
        p   = execlib.make_executor(rp, sb)
        p.rp_ctrl = sb.ctrl
        pwd = p._pwd
        sync_part(ctx, rp, sb, p)
        cases = [dict(c) for c in CORPUS] + [gen_case(rng, sb) for _ in range(ctx.n(140, 5000))]
        for i, case in enumerate(cases):
            uid = 'task.%06d' % i
            task, launcher, res = one(rp, sb, p, case, uid)
            mops = model_ops(sb, case, task, pwd)
            obs  = observe(sb, case, task, res, p, launcher, pwd)
            ops += mops; impl += obs; canon_cases += [case] * len(mops)
            dist['cases'] += 1
            dist['multi_rank'] += case['ranks'] > 1
            dist['exe_nonzero'] += any(case['exe_codes'])
            dist['pre_failed'] += any(c for i, c in case['codes'] if any(('all' in e and e['all'] == i) or ('per' in e and any(i in ids for _, ids in e['per'])) for e in case['pre']))
            dist['per_rank_entries'] += any('per' in e for e in case['pre'] + case['post'])
            dist['hostile_args'] += any(re.search(r'[\s"\'\\*?~#&;|<>(){}!]', a) or a == '' for a in case['args'])
            dist['env_values'] += len(case['env'])
            dist['sandbox_outside'] += case['sandbox'] in ('sibling', 'elsewhere')
            dist['expansion'] += case['expansion']
            dist['gpu'] += bool(case['gpr'])
            ctx.case({'case': case}, nontrivial=bool(res['ranks']))
            for sig, what in monitor(sb, case, task, res, pwd):
                ctx.fail(sig, what, {'case': case}, observed={'rc': res['rc'], 'log': res['log'], 'launch_out': (res['launch_out'] or '')[-400:]})
            if getattr(sb, 'platform_pre', None) not in (None, ['export PLATFORM_PRE=1']):
                ctx.fail('exec:a-task-changed-the-platform-configuration', 'task_pre_exec of the resource configuration is %s after task %s'
                         % (sb.platform_pre[:6], uid), {'case': case, 'platform_twice': True})
                sb.platform_pre = ['export PLATFORM_PRE=1']
            shutil.rmtree(task['task_sandbox_path'], ignore_errors=True)
        # bash against the tokeniser on lines of the fragment (not produced by radical.pilot: bash is the implementation here)
        import subprocess as sp
        wops, wimpl = [], []
        for i in range(ctx.n(150, 4000)):
            parts = [rng.choice(['echo', '/bin/true', 'a.b', 'X=1'])]
            for _ in range(rng.randint(0, 4)):
                body = ''.join(rng.choice(ALPHA + ['\\"', '\\\\', '\\a', '\\\n']) for _ in range(rng.randint(0, 6)))
                parts.append(rng.choice(['"%s"' % body.replace('$', '').replace('`', ''), 'p%d' % i, '"%s"q' % body.replace('"', '').replace('\\', ''), 'k="v w"']))
            line = ' '.join(parts)
            wops.append({'op': 'words', 'line': line})
            try:
                out = sp.run(['bash', '-c', 'set -f; printf "%%s\\0" %s' % line], capture_output=True, timeout=10)
                real = [x.decode('utf8', 'replace') for x in out.stdout.split(b'\0')[:-1]] if out.returncode == 0 else None
            except Exception:
                real = None
            wimpl.append(real)
    finally:
        shutil.rmtree(root, ignore_errors=True)
    ctx.extra['distribution'] = dist
    ctx.sample({'case': cases[len(CORPUS)]}, limit=1)

    def cmp_canon(a, idx=[0]):
        return a
    # model answers: reserved commands filtered out, not-run placeholders skipped
    res = common.model('shell', ops); ctx.traces += len(ops)
    nbad, first = 0, None
    pending = None
    for op, case, m, r in zip(ops, canon_cases, res, impl):
        m = canon_model(case, m)
        if op['op'] == 'execline':
            ok = (m['line'] == r['line']) and (m['words'] is None or r['words'] == 'not-run' or m['words'] == r['words'])
        elif op['op'] == 'export':
            ok = (m['parsed'] is None or r['parsed'] == 'not-run' or m['parsed'] == r['parsed'])
            if r.get('text') is not None:
                pending = {'text': r['text'], 'lines': []}
            pending['lines'].append(m['line'])
            if len(pending['lines']) == len(case['env']):
                want = '\n# task env settings\n' + ''.join(l + '\n' for l in pending['lines'])
                if case.get('named_env'):
                    want = '\n# named environment\n. %s\n' % case['_named_path'] + want
                if want != pending['text']:
                    ok = False
                    r = {'text': pending['text'], 'parsed': r['parsed']}; m = {'text': want, 'parsed': m['parsed']}
        elif op['op'] == 'rpenv':
            ok = (m['gpr'] == r['gpr'] and m['ref'] == r['ref'] and (r['expanded'] == 'not-run' or os.path.normpath(m['expanded']) == r['expanded']))
        else:
            ok = (m == r)
        if not ok:
            nbad += 1
            if first is None: first = 'op=%s impl=%s model=%s' % (common.json.dumps(op)[:600], common.json.dumps(r)[:500], common.json.dumps(m)[:500])
    ctx.obligation('correspondence real script generators + bash vs Model/Shell, Model/Script (%d answers)' % len(ops), 'tie', nbad == 0,
                   '' if nbad == 0 else '%d differ; first: %s' % (nbad, first))
    wres = common.model('shell', wops)
    nb2, first2 = 0, None
    for op, m, r in zip(wops, wres, wimpl):
        if m is not None and m != r:
            nb2 += 1
            if first2 is None: first2 = '%r: bash %r model %r' % (op['line'], r, m)
    ctx.obligation('bash tokenisation vs Shell.words on %d lines of the fragment (%d answered by the model)'
                   % (len(wops), sum(1 for m in wres if m is not None)), 'tie', nb2 == 0, '' if nb2 == 0 else '%d differ; first: %s' % (nb2, first2))
    ctx.rule = ('tasks of 1-3 ranks (real Fork / real MPIRun with a stand-in mpirun), 0-5 arguments over an alphabet of spaces, tabs, '
                'newlines, both quotes, backslashes, glob and operator characters, empty strings, non-ASCII; 0-3 environment values '
                'from the same alphabet; global and per-rank pre_exec/post_exec entries (string and list values, keys of ranks that '
                'do not exist), pre/post_launch, failing commands, non-zero exits per rank, GPU assignments (CUDA), OpenMP, platform '
                'pre_exec, stdout/stderr names with spaces/quotes/semicolons, task sandboxes inside, next to and outside the pilot '
                'sandbox; non-trivial = the executable ran on at least one rank')
    ctx.assume += ['bash 5 executes the scripts; beyond the modelled fragment (tokenisation of plain/double-quoted words, the '
                   '"c || rp_error" skeleton, case on $RP_RANK, wait/exit) bash is sampled, not proved',
                   'arguments/values containing $ or ` are expanded by bash by design of ru.sh_quote: outside the theorems, run in a '
                   'separate stream and only recorded', 'the executable is a word of plain characters (it is written unquoted)',
                   'named environments of more than one launcher and services are not exercised',
                   'the stand-in mpirun starts the ranks one after the other and returns the first non-zero exit code']
    ctx.trusted += ['harness/execlib.py (probes, stand-in mpirun, session/registry stubs), harness/props/c10.py']


def _mk(**kw):
    base = {'ranks': 1, 'args': [], 'env': {}, 'pre': [], 'post': [], 'pre_launch': [], 'post_launch': [], 'codes': [], 'exe_codes': [0],
            'gpr': 0, 'gpu_type': '', 'gpus': None, 'omp': None, 'platform': False, 'stdout': None, 'stderr': None, 'sandbox': None,
            'name': None, 'seq': 1, 'expansion': False}
    base.update(kw)
    return base


CORPUS = [
    _mk(env={'CFG': '{"a": 1}'}),                                  # F14: double quote in an environment value
    _mk(env={'P': 'C:\\dir\\'}),
    _mk(env={'X': '\u00e9&]\n\n[', 'Y': 'a\nexport Z=1', 'Z': ''}),             # values with blank lines / looking like export lines                                   # trailing backslash in a value
    _mk(sandbox='sibling'),                                        # sandbox sharing a string prefix with the pilot sandbox
    _mk(stdout='my out.txt', stderr='my err.txt'),                 # stdout/stderr names with spaces
    _mk(stdout='out.txt', stderr='ABS:abs.err'),                   # one relative, one absolute
    _mk(stdout='ABS:abs.out', stderr='err.txt'),
    _mk(args=['a b', '', "x'y", 'q"r', '*', 'back\\slash', 'new\nline', 'ü']),
    _mk(ranks=2, exe_codes=[0, 0], pre=[{'all': 1}, {'per': [[0, [2]], [1, [3, 4]]]}], post=[{'all': 5}],
        codes=[[1, 0], [2, 0], [3, 0], [4, 3], [5, 0]]),
    _mk(ranks=2, exe_codes=[0, 9], gpr=1, gpu_type='CUDA', gpus=[[0], [1, 2]]),
    _mk(bare=True, args=['a']),                                    # executable by name, found through the task's own PATH
    _mk(bare=True, ranks=2, exe_codes=[0, 3]),
    _mk(startup=30, ranks=3, exe_codes=[0, 0, 5], args=['x']),     # a startup timeout on a task of several ranks
    _mk(startup=30),
    _mk(pre=[{'all': 1}, {'all': 2}, {'all': 1}], post=[{'all': 3}, {'all': 3}], codes=[[1, 0], [2, 0], [3, 0]]),   # commands listed twice
]
for c in CORPUS:
    c['codes'] = [tuple(x) for x in c['codes']]


def replay(ctx, data):
    rp = rpload.load()
    if 'sync' in data['input']:
        root = tempfile.mkdtemp(prefix='c10_')
        try:
            sb = execlib.Sandbox(root)
            p  = execlib.make_executor(rp, sb); p.rp_ctrl = sb.ctrl
            res = run_sync(rp, sb, p, data['input']['sync'], 'task.900000')
            print(res['rc'], sorted(res['ranks']), res['log'])
            return res['rc'] == 0 and len(res['ranks']) == data['input']['sync']
        finally:
            shutil.rmtree(root, ignore_errors=True)
    case = data['input']['case']
    case['codes'] = [tuple(x) for x in case['codes']]
    root = tempfile.mkdtemp(prefix='c10_')
    try:
        sb = execlib.Sandbox(root)
        os.environ['PATH'] = '%s/decoy:%s' % (sb.root, os.environ.get('PATH', '/usr/bin:/bin'))
        p  = execlib.make_executor(rp, sb)
        p.rp_ctrl = sb.ctrl
        task, launcher, res = one(rp, sb, p, case, 'task.000000')
        bad = monitor(sb, case, task, res, p._pwd)
        print('rc', res['rc'], 'log', res['log']); print((res['launch_out'] or '')[-500:]); print(bad)
        if data['input'].get('platform_twice'):
            # the same task once more on the same executor: the platform's list is as it was, the task runs what it ran
            print('platform list after the task:', getattr(sb, 'platform_pre', None))
            if getattr(sb, 'platform_pre', None) not in (None, ['export PLATFORM_PRE=1']): return False
            task2, launcher2, res2 = one(rp, sb, p, dict(case), 'task.000001')
            bad = bad or monitor(sb, case, task2, res2, p._pwd)
        return not bad
    finally:
        shutil.rmtree(root, ignore_errors=True)
