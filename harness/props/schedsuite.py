"""Suite of the agent scheduler cluster: real `_schedule_tasks` loop vs `rpmodel sched`, monitors per property."""

import copy

import common
import rpload
import schedlib


CORPUS = [
    # F1 (fixed): lfs not consulted -> two tasks with lfs 8 on a node with 10
    {'cfg': {'cpn': 4, 'gpn': 0, 'lfs': 10, 'mem': 0, 'scattered': True},
     'nodes': [{'index': 0, 'cores': [0, 0, 0, 0], 'gpus': [], 'lfs': 10, 'mem': 0}],
     'iters': [{'incoming': [{'sched': [dict(uid=0, ranks=1, cpr=1, gpr=0, lfs=8, mem=0, rpn=0, colo=None, excl=False, prio=0, env=None, app=None),
                                        dict(uid=1, ranks=1, cpr=1, gpr=0, lfs=8, mem=0, rpn=0, colo=None, excl=False, prio=0, env=None, app=None)]}],
                'marks': [], 'envs': [], 'unsched': []},
               {'incoming': [], 'marks': [], 'envs': [], 'unsched': [[0]]},
               {'incoming': [], 'marks': [], 'envs': [], 'unsched': []}]},
    # F2 (fixed): two ranks asking 0.625 GPU each piled up on GPU 0; blocked GPU raised TypeError
    {'cfg': {'cpn': 4, 'gpn': 2, 'lfs': 0, 'mem': 0, 'scattered': True},
     'nodes': [{'index': 0, 'cores': [0, 0, 0, 0], 'gpus': [None, 0], 'lfs': 0, 'mem': 0},
               {'index': 1, 'cores': [0, 0, 0, 0], 'gpus': [0, 0], 'lfs': 0, 'mem': 0}],
     'iters': [{'incoming': [{'sched': [dict(uid=0, ranks=2, cpr=1, gpr=10, lfs=0, mem=0, rpn=0, colo=None, excl=False, prio=0, env=None, app=None)]}],
                'marks': [], 'envs': [], 'unsched': []},
               {'incoming': [], 'marks': [], 'envs': [], 'unsched': [[0]]}]},
    # F4 (fixed): ranks <= 0 reported FAILED and then scheduled again
    {'cfg': {'cpn': 2, 'gpn': 0, 'lfs': 0, 'mem': 0, 'scattered': True},
     'nodes': [{'index': 0, 'cores': [0, 0], 'gpus': [], 'lfs': 0, 'mem': 0}],
     'iters': [{'incoming': [{'sched': [dict(uid=0, ranks=0, cpr=1, gpr=0, lfs=0, mem=0, rpn=0, colo=None, excl=False, prio=0, env=None, app=None)]}],
                'marks': [], 'envs': [], 'unsched': []},
               {'incoming': [], 'marks': [], 'envs': [], 'unsched': []}]},
]

def _req(uid, ranks, cpr, **kw):
    d = dict(uid=uid, ranks=ranks, cpr=cpr, gpr=0, lfs=0, mem=0, rpn=0, colo=None, excl=False, prio=0, env=None, app=None)
    d.update(kw); return d


def gen_idle_script(rng):
    """property-directed (C04): a task fills the pilot, a second one has to wait, then in ONE iteration a third
    arrives (has to wait, too) while the first completes; afterwards the pilot is idle and the loop runs on"""
    nn, cpn = rng.choice([1, 1, 2, 3]), rng.choice([1, 2, 4])
    nodes = [{'index': i, 'cores': [0] * cpn, 'gpus': [], 'lfs': 0, 'mem': 0} for i in range(nn)]
    w1 = _req(1, rng.randint(1, nn), rng.randint(1, cpn), prio=rng.choice([0, 0, 1]))
    w2 = _req(2, rng.randint(1, nn), rng.randint(1, cpn), prio=rng.choice([0, 0, 1]))
    E = lambda inc=None, un=None: {'incoming': inc or [], 'marks': [], 'envs': [], 'unsched': un or []}
    if rng.random() < 0.4:
        # ... or neither of the two fits even the idle pilot (more ranks than the pilot has cores)
        w1 = _req(1, nn * cpn + rng.randint(1, 3), 1, prio=rng.choice([0, 0, 1]))
        w2 = _req(2, nn * cpn + rng.randint(1, 3), 1, prio=rng.choice([0, 0, 1]))
    if cpn >= 2 and rng.random() < 0.3:
        # both waiting tasks fit the idle pilot, in the same priority pool, but not together: when the pilot has become
        # idle the first is started in the wait pool pass and the second has to go on waiting (it is not failed)
        nn = 1; nodes = nodes[:1]
        w1 = _req(1, 1, cpn - 1 if cpn > 2 else cpn)
        w2 = _req(2, 1, cpn // 2 + 1)
    if rng.random() < 0.25:
        # two tasks with the same request which needs the whole pilot; the second to arrive has the higher priority
        w1 = _req(1, nn, cpn, prio=rng.choice([0, -1]))
        w2 = _req(2, nn, cpn, prio=w1['prio'] + rng.choice([1, 2]))
    if nn * cpn >= 2 and rng.random() < 0.5:
        # the pilot is filled by two tasks which complete together (one unschedule message names both)
        first = [_req(0, 1, 1), _req(3, nn * cpn - 1, 1)] if cpn == 1 or nn == 1 else [_req(0, 1, cpn), _req(3, nn - 1, cpn)]
        rel = [[0, 3]]
    else:
        first, rel = [_req(0, nn, cpn)], [[0]]
    iters = [E([{'sched': first}]), E([{'sched': [w1]}])]
    if rng.random() < 0.5: iters.append(E())
    iters.append(E([{'sched': [w2]}], rel))
    iters += [E(), E(), E()]
    return {'cfg': {'cpn': cpn, 'gpn': 0, 'lfs': 0, 'mem': 0, 'scattered': rng.random() < 0.7}, 'nodes': nodes, 'iters': iters}


def gen_alone_script(rng):
    """property-directed (C04): a pilot of 3-4 nodes in scattered mode is filled with single-core tasks; a task of several
    ranks arrives and waits alone; then completions free its cores spread over several nodes (some in the middle of the
    node list only in part): the task is started with the next pass"""
    nn, cpn = rng.choice([3, 3, 4]), rng.choice([2, 4])
    nodes = [{'index': i, 'cores': [0] * cpn, 'gpus': [], 'lfs': 0, 'mem': 0} for i in range(nn)]
    E = lambda inc=None, un=None: {'incoming': inc or [], 'marks': [], 'envs': [], 'unsched': un or []}
    fill = [_req(u, 1, 1) for u in range(nn * cpn)]          # task u lands on node u // cpn (first free core first)
    # how many cores come free per node: every node some, none of them all
    free = [rng.randint(1, cpn - 1) if cpn > 1 else 1 for _ in range(nn)]
    if rng.random() < 0.3: free[rng.randrange(nn)] = 0
    ranks = sum(free) - rng.choice([0, 0, 1]) if sum(free) > 2 else sum(free)
    w = _req(100, max(2, ranks), 1)
    rel = [n * cpn + j for n in range(nn) for j in rng.sample(range(cpn), free[n])]
    rng.shuffle(rel)
    k = rng.randint(1, len(rel))
    iters = [E([{'sched': fill}]), E([{'sched': [w]}]), E(None, [rel[:k]] + ([rel[k:]] if rel[k:] else [])), E(), E(), E()]
    return {'cfg': {'cpn': cpn, 'gpn': 0, 'lfs': 0, 'mem': 0, 'scattered': True}, 'nodes': nodes, 'iters': iters}


def gen_excl_script(rng):
    """property-directed (C04, exclusive colocate tags): tasks with exclusive tags of their own spread over several nodes each
    until every node is claimed by some tag; they complete; then a task with a further, new exclusive tag arrives at the
    idle pilot: no node is left unclaimed, it shares one (it is not failed, it is started)"""
    cpn = rng.choice([2, 4])
    per = rng.choice([2, 2, 3])                      # nodes per tagged task
    ntag = rng.choice([1, 2])
    nn = per * ntag
    nodes = [{'index': i, 'cores': [0] * cpn, 'gpus': [], 'lfs': 0, 'mem': 0} for i in range(nn)]
    E = lambda inc=None, un=None: {'incoming': inc or [], 'marks': [], 'envs': [], 'unsched': un or []}
    first = [_req(k, per * cpn, 1, colo=k + 1, excl=True) for k in range(ntag)]
    late = _req(50, rng.randint(1, cpn), 1, colo=9, excl=rng.random() < 0.8)
    iters = [E([{'sched': first}]), E(None, [[k for k in range(ntag)]]), E(), E([{'sched': [late]}]), E(), E()]
    if rng.random() < 0.4:
        # ... or it arrives while the others still run (it waits alone), and is started when they complete
        iters = [E([{'sched': first}]), E([{'sched': [late]}]), E(None, [[k for k in range(ntag)]]), E(), E(), E()]
    return {'cfg': {'cpn': cpn, 'gpn': 0, 'lfs': 0, 'mem': 0, 'scattered': True}, 'nodes': nodes, 'iters': iters}


def gen_rpn_restart_script(rng):
    """property-directed (C02, ranks_per_node in the continuous, non-scattered search): full-node tasks occupy the first nodes,
    all but the first complete; a task with a ranks_per_node limit then collects ranks from the last nodes, hits the
    occupied node for its last ranks, and has to start over behind it: no node may get more ranks than the limit"""
    cpn = rng.choice([4, 8])
    nn  = rng.choice([5, 6, 6, 7])
    nodes = [{'index': i, 'cores': [0] * cpn, 'gpus': [], 'lfs': 0, 'mem': 0} for i in range(nn)]
    E = lambda inc=None, un=None: {'incoming': inc or [], 'marks': [], 'envs': [], 'unsched': un or []}
    nfill = nn - 1
    fillers = [_req(k, 1, cpn) for k in range(nfill)]
    rpn  = rng.choice([1, 2, 2, 3])
    full = rng.choice([1, 2, 2])                       # nodes that deliver `rpn` ranks before the occupied one is met
    late = _req(50, rpn * full + rng.randint(1, rpn), 1, rpn=rpn)
    iters = [E([{'sched': fillers}]), E(None, [list(range(1, nfill))]), E(), E([{'sched': [late]}]), E(), E()]
    return {'cfg': {'cpn': cpn, 'gpn': 0, 'lfs': 0, 'mem': 0, 'scattered': False}, 'nodes': nodes, 'iters': iters}


def gen_restart_first_script(rot):
    """property-directed (C04, continuous = non-scattered search): sixteen single-core tasks fill four nodes of four cores, a
    task of six ranks waits alone; completions free 2, 3 and 2 cores on three nodes (nowhere enough for it), then all four
    cores of the node behind the last of them: that node and its neighbour before it (2 + 4 free cores, neighbours by index)
    hold a continuous placement - first node partly, last node fully - and the task has to be started"""
    cpn, nn = 4, 4
    nodes = [{'index': i, 'cores': [0] * cpn, 'gpus': [], 'lfs': 0, 'mem': 0} for i in range(nn)]
    E = lambda inc=None, un=None: {'incoming': inc or [], 'marks': [], 'envs': [], 'unsched': un or []}
    fill = [_req(k, 1, 1) for k in range(16)]          # node n holds tasks 4n .. 4n+3
    w = _req(50, 6, 1)
    order = [(rot + i) % nn for i in range(nn)]
    on = lambda n, k: [4 * n + j for j in range(k)]
    iters = [E([{'sched': fill}]), E([{'sched': [w]}]), E(None, [on(order[0], 2)]), E(None, [on(order[1], 3)]), E(None, [on(order[2], 2)]),
             E(None, [on(order[3], 4)]), E(), E()]
    return {'cfg': {'cpn': cpn, 'gpn': 0, 'lfs': 0, 'mem': 0, 'scattered': False}, 'nodes': nodes, 'iters': iters,
            'must_start': [50, 'nodes %d and %d are neighbours and have 2 and 4 free cores: a continuous placement of 6 single-core ranks' % (order[2], order[3])]}


def gen_colo_script(rng):
    """property-directed (C02, colocate): a continuous (non-scattered) pilot with some nodes full; a tagged task of several
    ranks is placed - possibly after its walk found ranks on a node, met a full node and started over - and then a second
    task with the same tag arrives while other nodes have room: it may only go where the first one was placed"""
    nn, cpn = rng.choice([4, 4, 5, 6]), rng.choice([1, 2, 4])
    nodes = [{'index': i, 'cores': [0] * cpn, 'gpus': [], 'lfs': 0, 'mem': 0} for i in range(nn)]
    E = lambda inc=None, un=None: {'incoming': inc or [], 'marks': [], 'envs': [], 'unsched': un or []}
    fillers = [_req(i, 1, cpn) for i in range(nn)]                       # each fills one node: the pilot is full
    keep = rng.sample(range(nn), rng.randint(1, nn - 3))                 # ... and these stay, the others complete
    freed = [[i] for i in range(nn) if i not in keep]
    tag = rng.choice([0, 7])
    a = _req(10, rng.choice([2, 2, 3]), cpn, colo=tag)
    b = _req(11, 1, 1, colo=tag)
    iters = [E([{'sched': fillers}]), E([], freed), E([{'sched': [a]}]), E([{'sched': [b]}]), E(), E([], [[10]]), E(), E()]
    return {'cfg': {'cpn': cpn, 'gpn': 0, 'lfs': 0, 'mem': 0, 'scattered': False}, 'nodes': nodes, 'iters': iters}


APP_WITNESS = {   # F3 (recorded): an application-placed task is not marked busy; the next task gets the same core
    'cfg': {'cpn': 1, 'gpn': 0, 'lfs': 0, 'mem': 0, 'scattered': True},
    'nodes': [{'index': 0, 'cores': [0], 'gpus': [], 'lfs': 0, 'mem': 0}],
    'iters': [{'incoming': [{'sched': [dict(uid=0, ranks=1, cpr=1, gpr=0, lfs=0, mem=0, rpn=0, colo=None, excl=False, prio=0, env=None,
                                            app=[{'node': 0, 'cores': [0], 'gpus': [], 'lfs': 0, 'mem': 0}]),
                                       dict(uid=1, ranks=1, cpr=1, gpr=0, lfs=0, mem=0, rpn=0, colo=None, excl=False, prio=0, env=None, app=None)]}],
               'marks': [], 'envs': [], 'unsched': []},
              {'incoming': [], 'marks': [], 'envs': [], 'unsched': [[0]]},
              {'incoming': [], 'marks': [], 'envs': [], 'unsched': [[1]]}]}


def run(ctx, prop):
    rp  = rpload.load()
    rng = ctx.rng
    scripts = [copy.deepcopy(c) for c in CORPUS] + [copy.deepcopy(APP_WITNESS)]
    n = ctx.n(300, 12000)
    for i in range(n):
        sc = schedlib.gen_script(rng, app_slots=(i % 6 == 5))
        scripts.append(schedlib.fill_releases(rp, sc))
    for i in range(ctx.n(30, 600)):
        scripts.append(gen_idle_script(rng))
    for i in range(ctx.n(40, 800)):
        scripts.append(schedlib.keep_valid_releases(rp, gen_colo_script(rng)))
    for i in range(ctx.n(25, 500)):
        scripts.append(schedlib.keep_valid_releases(rp, gen_alone_script(rng)))
    for i in range(ctx.n(20, 400)):
        scripts.append(schedlib.keep_valid_releases(rp, gen_excl_script(rng)))
    for i in range(ctx.n(24, 400)):
        scripts.append(schedlib.keep_valid_releases(rp, gen_rpn_restart_script(rng)))
    for rot in (0, 2, 3):
        # (rotation 1 would make the two nodes neighbours only across the end of the node list)
        scripts.append(gen_restart_first_script(rot))
    for i in range(ctx.n(2, 40)):
        # large pilots: more than 512 releases reach the scheduler within one drain of the unschedule queue
        scripts.append(schedlib.fill_releases(rp, schedlib.gen_big_script(rng)))
    ops, impl = [], []
    dist = {'scripts': 0, 'iterations': 0, 'started': 0, 'failed': 0, 'canceled': 0, 'waited': 0, 'released': 0, 'crash': 0, 'with_app_slots': 0}
    for k, sc in enumerate(scripts):
        for it in sc['iters']:
            if it['unsched'] == 'auto': it['unsched'] = []
        # every other script: completed tasks come back in the wire format of the message layer (plain dictionaries)
        sc['wire'] = (k % 2 == 1)
        s, out, tasks, crash = schedlib.run_script(rp, sc)
        ops.append(schedlib.model_op(sc))
        impl.append(schedlib.canon_impl(out, crash))
        dist['scripts'] += 1; dist['iterations'] += len(out)
        ev = [e for o in out for e in o['events']]
        dist['started']  += sum(1 for e in ev if e[1] == 'AGENT_EXECUTING_PENDING')
        dist['failed']   += sum(1 for e in ev if e[1] == 'FAILED')
        dist['canceled'] += sum(1 for e in ev if e[1] == 'CANCELED')
        dist['released'] += sum(len(m) for it in sc['iters'] for m in it['unsched'])
        dist['waited']   += sum(1 for o in out if any(w[1] for w in o['state']['waitpool']))
        if crash: dist['crash'] += 1
        if any(r.get('app') for it in sc['iters'] for m in it['incoming'] for r in m.get('sched', [])): dist['with_app_slots'] += 1
        ctx.case(ops[-1], nontrivial=any(e[1] == 'AGENT_EXECUTING_PENDING' for e in ev))
        for p, sig, what in schedlib.monitor(rp, sc, out, tasks, crash, [prop]):
            ctx.fail(sig, what, {'script': sc})
    if prop == 'C03':
        # executor half of C03: one unschedule publication per accepted task, for every schedule
        from props import c07, c08
        eops, eimpl = [], []
        for _ in range(ctx.n(150, 5000)):
            cs = c07.gen_schedule(rng)
            obs, done, rec, quiet = c07.run_schedule(rp, cs)
            eops.append(c07.model_choices(done)); eimpl.append(obs)
            ctx.case(eops[-1], nontrivial=obs[-1]['unsched'] == 1)
            bad = c07.monitor(obs, rec, quiet, True)
            if bad and ('released' in bad[0] or 'left-behind' in bad[0]):
                ctx.fail('executor:' + bad[0], bad[1], {'script': None, 'choices': cs})
        common.compare(ctx, 'exec', eops, eimpl, what='executor half: unschedule publications of the real Popen executor per schedule')
        # ... and for bulks: Popen.work on several tasks of which some cannot be launched - every task of the bulk is
        # named in exactly one unschedule publication, the failed ones at once, the others after their process ended
        bops, bimpl = [], []
        bulks = [[(0, True, 0), (1, False, 0), (2, False, 3)], [(1, False, 0), (0, True, 0)]]
        for _ in range(ctx.n(60, 1500)):
            bulks.append([(u, rng.random() < 0.35, rng.choice([0, 0, 1])) for u in rng.sample(range(8), rng.randint(2, 5))])
        for b in bulks:
            evs = c07.run_bulk(rp, b)
            bops.append({'op': 'bulk', 'tasks': [{'uid': u, 'fault': f, 'code': c} for u, f, c in b]}); bimpl.append(evs)
            ctx.case(bops[-1], nontrivial=any(f for u, f, c in b))
            bad = c07.bulk_monitor(b, evs)
            if bad and 'released' in bad[0]:
                ctx.fail('executor:' + bad[0], bad[1] + ' (bulk %s)' % b, {'script': None, 'bulk': [list(x) for x in b]}, observed=evs)
            # a task still running must not have been released: nothing that happened while Popen.work handled the bulk
            # (all launched processes still run then) may name a launched task in an unschedule publication
            early = [u for u, f, c in b if not f and ['unsched', u] in [e[:2] for e in evs[:c07.run_bulk.intake_events]]]
            if early:
                ctx.fail('executor:bulk:launched-task-released-while-it-runs',
                         'tasks %s of bulk %s are named in an unschedule publication while their processes run' % (early, b),
                         {'script': None, 'bulk': [list(x) for x in b]}, observed=evs)
        common.compare(ctx, 'exec', bops, bimpl, what='executor half: real Popen.work on bulks with unlaunchable tasks, unschedule publications per task')
        res, unsched = c08.run_intake(rp, [], [3], [3])
        if res['canceled'] and not all(t in unsched for t in res['canceled']):
            ctx.fail('cancel-at-executor-intake:resources-never-released',
                     'task 3 holds slots, is canceled by the executor intake filter, no unschedule is published',
                     {'script': None, 'intake': {'cl': [], 'uids': [3], 'things': [3]}})
    ctx.sample({'script': scripts[-1], 'observed_events': [o['events'] for o in
                schedlib.run_script(rp, scripts[-1])[1]]}, limit=1)
    # how many scripts meet the hypothesis of the whole-history theorems (release messages name held
    # placements: RunOK), and does the model agree that capacity is restored when nothing is held
    try:
        rk = common.model('sched', [dict(o, op='runok') for o in ops])
        dist['history_hypothesis_met'] = sum(1 for r in rk if isinstance(r, dict) and r.get('run_ok'))
        dist['history_hypothesis_met_and_quiescent'] = sum(1 for r in rk if isinstance(r, dict) and r.get('run_ok') and r.get('held') == 0)
        bad_restore = [i for i, r in enumerate(rk) if isinstance(r, dict) and r.get('run_ok') and r.get('held') == 0 and not r.get('restored')]
        ctx.obligation('whole-history theorems: hypothesis RunOK met by %d of %d scripts (%d of them end with nothing held); '
                       'model node map restored on all of those' % (dist['history_hypothesis_met'], len(ops), dist['history_hypothesis_met_and_quiescent']),
                       'tie', dist['history_hypothesis_met'] > 0 and not bad_restore, str(bad_restore[:3]))
    except Exception as e:
        ctx.obligation('whole-history theorems: hypothesis evaluated on the scripts', 'tie', False, repr(e))
    ctx.extra['distribution'] = dist
    common.compare(ctx, 'sched', ops, impl, canon=schedlib.canon_model,
                   what='real AgentSchedulingComponent._schedule_tasks loop (Continuous): events, node map, wait pool, counters per iteration')
    ctx.rule = ('scripts: 1-5 nodes x 1-8 cores x 0-4 GPUs, lfs/mem, blocked cores/GPUs; 2-10 loop iterations with request '
                'streams (single/multi rank, cores_per_rank up to > node size, GPU requests incl. k/16 shares and 1.5, lfs/mem, '
                'ranks_per_node, colocate/exclusive tags, priorities, named envs, ranks<=0, application supplied slots in 1/6 '
                'of the scripts), cancel messages and cancel marks, releases of running tasks in random order; '
                'non-trivial = at least one task was started')
    ctx.assume += ['which messages an iteration of the loop finds on its queues is an input (mp.Queue timing is not modelled)',
                   'GPU shares are dyadic (k/16): float comparisons are exact', 'no partitions, no raptor tasks',
                   'a release names a task that currently holds resources, once (the executor property C07 provides this)']
    ctx.trusted += ['harness/schedlib.py: scripted queues, cancel list, advance recorder, ru.PWatcher/RegistryClient stubs']


def replay(ctx, data, prop):
    rp = rpload.load()
    sc = data['input']['script']
    if sc is None:
        from props import c07, c08
        if 'intake' in data['input']:
            i = data['input']['intake']
            res, unsched = c08.run_intake(rp, i['cl'], i['uids'], i['things'])
            print(res, unsched)
            return all(t in unsched for t in res['canceled'])
        if 'bulk' in data['input']:
            b = [tuple(x) for x in data['input']['bulk']]
            evs = c07.run_bulk(rp, b)
            bad = c07.bulk_monitor(b, evs)
            early = [u for u, f, c in b if not f and ['unsched', u] in [e[:2] for e in evs[:c07.run_bulk.intake_events]]]
            print(evs, bad, 'released while running:', early)
            return not (bad and 'released' in bad[0]) and not early
        obs, done, rec, quiet = c07.run_schedule(rp, data['input']['choices'])
        return c07.monitor(obs, rec, quiet, True) is None
    # (which tasks run - and so which releases are meaningful - depends on the tree: releases that name a task
    #  holding nothing on THIS tree are dropped, as the assumption "a release names a task that holds resources" demands)
    sc = schedlib.keep_valid_releases(rp, sc)
    s, out, tasks, crash = schedlib.run_script(rp, sc)
    v = schedlib.monitor(rp, sc, out, tasks, crash, [prop])
    for o in out: print(o['events'])
    print(v, crash)
    # (judged by the clause the input was recorded for, if it says so - a script with placements of the application's own
    #  also shows the recorded findings F3 on every tree; by every clause otherwise)
    sig = str(data.get('signature') or '')
    if sig and not sig.startswith('corpus:'):
        return sig not in [x[1] for x in v]
    return not v
