"""Resource manager -> agent scheduler chain (C01): the node list the REAL `_init_from_scratch`
of a resource manager produces (harness of C18: node files, environment, blocked cores/GPUs from
the resource configuration, sub-agent and service nodes) is handed to the REAL Continuous scheduler
(harness/schedlib.py), which then places enough tasks to fill the pilot.

Monitor (ground truth is the CONFIGURATION, not the node map the resource manager produced): no task
is ever granted a core or GPU index the configuration marks as blocked, and no task is placed on a
node reserved for a sub-agent or a service."""

import copy

import rpload
import schedlib
from schedlib import U


def gen(rng):
    from props import c18
    c = c18.gen_case(rng)
    cfg = c['cfg']
    if rng.random() < 0.7:
        cfg['gpn'] = rng.choice([2, 2, 3, 4])
        cfg['blocked_gpus'] = sorted(rng.sample(range(cfg['gpn']), 1 if cfg['gpn'] < 3 else rng.choice([1, 2])))
        cfg['env_gpus'] = None; cfg['env_gpu_ids'] = 0
    if rng.random() < 0.3 and cfg['cpn'] > 2:
        cfg['blocked_cores'] = sorted(rng.sample(range(cfg['cpn']), rng.choice([1, 2])))
    waves = []
    uid = 0
    for _ in range(rng.randint(1, 3)):
        w = []
        for _ in range(rng.randint(2, 12)):
            w.append({'uid': uid, 'ranks': rng.choice([1, 1, 2]), 'cpr': 1, 'gpr': rng.choice([0, U, U, U // 2]),
                      'release': rng.random() < 0.3}); uid += 1
        waves.append(w)
    return {'case': c, 'waves': waves}


def run_chain(rp, inp, scratch):
    from props import c18
    case = inp['case']
    res, shared, msg = c18.run_real(rp, case, scratch)
    if res == 'error' or not res['node_list']:
        return None, None
    nodes = [{'index': n[1], 'cores': [None if o == 'down' else 0 for o in n[2]],
              'gpus': [None if o == 'down' else 0 for o in n[3]], 'lfs': 0, 'mem': 0} for n in res['node_list']]
    iters = []
    for w in inp['waves']:
        ts = [{'uid': t['uid'], 'ranks': t['ranks'], 'cpr': t['cpr'], 'gpr': t['gpr'], 'lfs': 0, 'mem': 0, 'rpn': 0,
               'colo': None, 'excl': False, 'prio': 0, 'env': None, 'app': None} for t in w]
        iters.append({'incoming': [{'sched': ts}], 'marks': [], 'envs': [], 'unsched': []})
        iters.append({'incoming': [], 'marks': [], 'envs': [], 'unsched': [[t['uid']] for t in w if t['release']]})
    script = {'cfg': {'cpn': res['cores_per_node'], 'gpn': res['gpus_per_node'], 'lfs': 0, 'mem': 0, 'scattered': True},
              'nodes': nodes, 'iters': iters}
    # a release may only name a task that holds resources
    s, out, tasks, crash = schedlib.run_script(rp, copy.deepcopy(script))
    started = set(e[0] for o in out for e in o['events'] if e[1] == 'AGENT_EXECUTING_PENDING')
    for it in script['iters']:
        it['unsched'] = [m for m in it['unsched'] if m[0] in started]
    s, out, tasks, crash = schedlib.run_script(rp, script)
    return res, out


def monitor(inp, res, out):
    cfg = inp['case']['cfg']
    compute  = set(n[1] for n in res['node_list'])
    reserved = set(n[1] for n in res['agent_node_list'] + res['service_node_list'])
    for o in out:
        for uid, sl in o['slots']:
            for x in sl:
                if x[0] in reserved or x[0] not in compute:
                    return ('rm-chain:task-placed-on-agent-or-service-node', 'task %d on node %d (reserved: %s)' % (uid, x[0], sorted(reserved)))
                for c in x[1]:
                    if c in cfg['blocked_cores']:
                        return ('rm-chain:blocked-core-granted', 'task %d holds core %d on node %d; the configuration blocks cores %s' %
                                (uid, c, x[0], cfg['blocked_cores']))
                for g, sh in x[2]:
                    if g in cfg['blocked_gpus']:
                        return ('rm-chain:blocked-gpu-granted', 'task %d holds GPU %d on node %d; the configuration blocks GPUs %s' %
                                (uid, g, x[0], cfg['blocked_gpus']))
    return None


def run(ctx, prop):
    rp = rpload.load()
    n = ok = multi = 0
    for _ in range(ctx.n(160, 6000)):
        inp = gen(ctx.rng)
        res, out = run_chain(rp, inp, ctx.scratch)
        n += 1
        if res is None:
            ctx.case({'rm_chain': inp}, nontrivial=False); continue
        ok += 1
        granted = any(o['slots'] for o in out)
        blocked = bool(inp['case']['cfg']['blocked_gpus'] or inp['case']['cfg']['blocked_cores'])
        if len(res['node_list']) > 1 and blocked: multi += 1
        ctx.case({'rm_chain': inp}, nontrivial=granted and blocked)
        bad = monitor(inp, res, out)
        if bad:
            ctx.fail(bad[0], bad[1], {'script': None, 'rm_chain': inp},
                     observed={'node_list': res['node_list'], 'slots': [o['slots'] for o in out]})
    ctx.obligation('resource manager -> scheduler chain: %d allocations (%d initialised, %d with several compute nodes and blocked '
                   'cores/GPUs); no blocked core/GPU and no reserved node is ever granted' % (n, ok, multi), 'tie', multi > 0, '')
    ctx.trusted += ['harness/props/rmchain.py (C18 harness feeding the scheduler harness)']


def replay(ctx, data, prop):
    rp = rpload.load()
    inp = data['input']['rm_chain']
    res, out = run_chain(rp, inp, ctx.scratch)
    if res is None:
        print('initialisation failed'); return True
    bad = monitor(inp, res, out)
    print(res['node_list'], [o['slots'] for o in out], bad)
    return not bad
