"""C20 — Raptor workers and masters account for every request.

(A) allocator: real DefaultWorker._alloc/_dealloc driven by random request streams vs Raptor.alloc/dealloc.
(B) routing / target state: real Master._request_cb/_submit_tasks/_result_cb and the real
    AgentSchedulingComponent._schedule_incoming vs masterRoute/masterSeen/schedRoute/targetState.
(C) dispatchers: real Worker._dispatch_func/_eval/_exec/_proc/_shell run in-process, several in a row,
    on generated payloads (return, print, raise, edit os.environ, replace sys.stdout) vs dispatchPy.
(D) life cycle of one request: real DefaultWorker._request_cb/_dispatch/_worker_proc/_result_cb with
    `multiprocessing` replaced by cooperative stand-ins (processes = controlled threads), every
    interleaving of rank process / dispatch process / timeout / result watcher vs Raptor.lstep."""

import io
import os
import sys
import copy
import types
import asyncio
import itertools
import threading as mt
import subprocess as sp

import common
import rpload
import coop
import schedlib

MODES = ['task.executable', 'task.function', 'task.method', 'task.eval', 'task.exec', 'task.proc', 'task.shell']


class Rec(object):
    def __init__(self): self.items = []
    def put(self, x): self.items.append(x)


class Prof(object):
    enabled = False
    def prof(self, *a, **k): pass


def make_worker(rp, ncores, ngpus):
    from radical.pilot.raptor.worker_default import DefaultWorker
    w = object.__new__(DefaultWorker)
    w._uid, w._log, w._prof = 'worker.0000', rpload.NullLog(), Prof()
    w._n_cores, w._n_gpus = ncores, ngpus
    w._rlock = mt.Lock()
    w._resources = {'cores': [0] * ncores, 'gpus': [0] * ngpus}
    w._res_evt = mt.Event()
    w._pool, w._plock = dict(), mt.Lock()
    w._res_put = Rec()
    w._task_env = {k: v for k, v in os.environ.items() if not k.startswith('RP_')}
    w._modes = dict()
    from radical.pilot import task_description as td
    w.register_mode(td.TASK_FUNC, w._dispatch_func); w.register_mode(td.TASK_METH, w._dispatch_meth)
    w.register_mode(td.TASK_EVAL, w._dispatch_eval); w.register_mode(td.TASK_EXEC, w._dispatch_exec)
    w.register_mode(td.TASK_PROC, w._dispatch_proc); w.register_mode(td.TASK_SHELL, w._dispatch_shell)
    return w


# -- (A) ---------------------------------------------------------------------------------------
def run_alloc(rp, ncores, ngpus, ops):
    w = make_worker(rp, ncores, ngpus)
    tasks, answers = {}, []
    for o in ops:
        if o[0] == 'alloc':
            t = {'uid': 'req.%d' % o[1], 'cores': o[2], 'gpus': o[3]}
            try:
                ok = w._alloc(t)
                if ok:
                    tasks[o[1]] = t
                    answers.append({'cores': list(t['slots'][0]['cores']), 'gpus': list(t['slots'][0]['gpus'])})
                else:
                    answers.append('wait')
            except AssertionError:
                answers.append('assert')
        else:
            t = tasks.get(o[1])
            if t is None: answers.append('unknown'); continue
            try:
                w._dealloc(t); del tasks[o[1]]; answers.append('ok')
            except AssertionError:
                answers.append('assert')
    return {'answers': answers, 'cores': list(w._resources['cores']), 'gpus': list(w._resources['gpus'])}, tasks


def alloc_monitor(o, r):
    """no index in two live requests; all returned at the end"""
    bad, held = [], {}
    for op, a in zip(o, r['answers']):
        if op[0] == 'alloc' and isinstance(a, dict):
            for kind in ('cores', 'gpus'):
                for idx in a[kind]:
                    if (kind, idx) in [x for v in held.values() for x in v]:
                        bad.append(('allocator:%s-given-to-two-requests' % kind[:-1], '%s %d' % (kind, idx)))
            held[op[1]] = [(k, i_) for k in ('cores', 'gpus') for i_ in a[k]]
        elif op[0] == 'dealloc' and a == 'ok':
            held.pop(op[1], None)
    if not held and (any(r['cores']) or any(r['gpus'])):
        bad.append(('allocator:resources-not-returned', str(r)))
    return bad


def gen_alloc_ops(rng):
    nc, ng = rng.choice([1, 2, 4, 8]), rng.choice([0, 0, 1, 2])
    ops, live, nid = [], [], 0
    for _ in range(rng.randint(3, 30)):
        if live and rng.random() < 0.45:
            i = rng.choice(live); live.remove(i); ops.append(['dealloc', i])
        else:
            c = rng.choice([1, 1, 2, nc, rng.randint(1, nc)]) if rng.random() < 0.93 else rng.choice([0, nc + 1])
            g = rng.choice([0, 0, 1, ng]) if rng.random() < 0.95 else ng + 1
            ops.append(['alloc', nid, c, g]); live.append(nid); nid += 1
    # everything that was accepted finishes, in random order
    rng.shuffle(live)
    ops += [['dealloc', i] for i in live]
    return nc, ng, ops


# -- (B) ---------------------------------------------------------------------------------------
def run_master(rp, mode, seen):
    from radical.pilot.raptor.master import Master
    m = object.__new__(Master)
    m._uid, m._log, m._prof = 'master.0000', rpload.NullLog(), Prof()
    m._psbox, m._ssbox, m._rsbox, m._pid = '/p', '/s', '/r', 'pilot.0000'
    class S(object):
        def _get_task_sandbox(self, task, pilot): return 'file://localhost/p/%s/' % task['uid']
    m._session = S()
    m._req_put = Rec()
    m._task_service_data = {}
    m.rec = []
    m.advance = lambda things, state=None, publish=True, push=False, **kw: m.rec.append(('advance', [t['uid'] for t in (things if isinstance(things, list) else [things])], state, push))
    m.publish = lambda *a, **k: m.rec.append(('publish',))
    task = {'uid': 'task.000000', 'description': {'mode': mode, 'ranks': 1, 'uid': 'task.000000'}, 'raptor_seen': seen}
    if not seen: del task['raptor_seen']
    m._request_cb([task])
    to_workers = any(task in b for b in m._req_put.items)
    to_agent = any(r[0] == 'advance' and r[2] == 'AGENT_STAGING_INPUT_PENDING' and r[3] for r in m.rec)
    return {'master': 'workers' if to_workers and not to_agent else 'agent' if to_agent and not to_workers else 'both-or-none',
            'seen': bool(task.get('raptor_seen'))}


def run_sched_route(rp, has_raptor, mode, seen):
    s = schedlib.make_sched(rp, {'cpn': 4, 'gpn': 0, 'lfs': 0, 'mem': 0, 'scattered': False},
                            [{'index': 0, 'cores': [0, 0, 0, 0], 'gpus': [], 'lfs': 0, 'mem': 0}])
    s._raptor_lock, s._raptor_queues, s._raptor_tasks = mt.Lock(), {'master.0000': Rec()}, {}
    t = schedlib.req_to_task({'uid': 0, 'ranks': 1, 'cpr': 1, 'gpr': 0, 'lfs': 0, 'mem': 0, 'rpn': 0, 'prio': 0})
    t['description']['mode'] = mode
    t['description']['raptor_id'] = 'master.0000' if has_raptor else None
    if seen: t['raptor_seen'] = True
    s._queue_sched.put(([t], s._SCHEDULE))
    s._schedule_incoming()
    fwd = any(t in b for b in s._raptor_queues['master.0000'].items)
    return 'raptor' if fwd else 'schedule'


def run_target(rp, exit_code, present):
    from radical.pilot.raptor.master import Master
    m = object.__new__(Master)
    m._uid, m._log, m._prof = 'master.0000', rpload.NullLog(), Prof()
    m._task_service_data = {}
    m.advance = lambda *a, **k: None
    task = {'uid': 'task.000000'}
    if present: task['exit_code'] = exit_code
    m._result_cb([task])
    return task['target_state']


def run_master_bulk(rp, codes, cb_raises):
    """one bulk of returned requests through the real Master._result_cb; the application's overloaded result_cb raises or
    not (it chokes on a failed request's missing return value, say).  Returns [(uid, target state)] of what is handed on."""
    from radical.pilot.raptor.master import Master
    class AppMaster(Master):
        def result_cb(self, tasks):
            if cb_raises: raise ValueError('application callback failed')
    m = object.__new__(AppMaster)
    m._uid, m._log, m._prof = 'master.0000', rpload.NullLog(), Prof()
    m._task_service_data = {}
    handed = []
    m.advance = lambda things, state=None, **kw: handed.extend((t['uid'], t.get('target_state'), state) for t in (things if isinstance(things, list) else [things]))
    tasks = [{'uid': 'req.%04d' % k, 'exit_code': c, 'description': {}} for k, c in enumerate(codes)]
    err = None
    try: m._result_cb(tasks)
    except Exception as e: err = type(e).__name__
    return handed, err


# -- (C) ---------------------------------------------------------------------------------------
PAYLOADS = {}


def payload_fn(pl):
    def run(*a, **k):
        if pl['rebinds']:
            if pl.get('rebind_to') == 'devnull':
                # (a leftover redirect to a file, the `sys.stdout = sys.__stdout__` idiom: the new stream is no buffer)
                sys.stdout = open(os.devnull, 'w'); sys.stderr = open(os.devnull, 'w')
            else:
                sys.stdout = io.StringIO(); sys.stderr = io.StringIO()
        for x in pl['out']: print('o%d' % x)
        for x in pl['err']: print('e%d' % x, file=sys.stderr)
        for k_, v in pl['edits']:
            if v is None: os.environ.pop('C20K%d' % k_, None)
            else: os.environ['C20K%d' % k_] = 'v%d' % v
        if pl.get('raises') is not None:
            raise ValueError('x%d' % pl['raises'])
        return pl['returns']
    return run


def install_payload_module():
    m = types.ModuleType('c20_payloads')
    m.run = lambda i: PAYLOADS[i]()
    sys.modules['c20_payloads'] = m


def env_view(d):
    return sorted([int(k[4:]), int(v[1:])] for k, v in d.items() if k.startswith('C20K'))


def c_env():
    out = sp.run(['env'], stdout=sp.PIPE).stdout.decode('utf8', 'replace')
    d = {}
    for line in out.splitlines():
        if line.startswith('C20K') and '=' in line:
            k, v = line.split('=', 1); d[k] = v
    return env_view(d)


def toks(s, prefix):
    if s is None: return []
    if isinstance(s, bytes): s = s.decode()
    out = []
    for line in s.splitlines():
        line = line.strip()
        if line.startswith(prefix) and line[1:].isdigit(): out.append(int(line[1:]))
        elif 'failed' in line: out.append(0)
    return out


def _plain_fn(): return 7


def _exc_num(text):
    """payload exceptions are ValueError('x<n>'); anything else (a refused request) is 0"""
    import re
    m = re.search(r"ValueError\('x(\d+)'\)", text)
    return int(m.group(1)) if m else 0


def run_dispatch_seq(rp, seq, base_env=()):
    """several requests in a row in ONE process (as in a persistent rank); returns per request what
    was reported and what the environment / stdio looked like afterwards"""
    w = make_worker(rp, 2, 0)
    install_payload_module()
    orig_environ = os.environ
    saved = dict(os.environ)
    real_out, real_err = sys.stdout, sys.stderr
    # the worker has streams of its own (a worker class that logs to a file or a buffer): what a request does to
    # sys.stdout / sys.stderr must be undone to THESE objects, not to the interpreter's original streams
    out0, err0 = io.StringIO(), io.StringIO()
    sys.stdout, sys.stderr = out0, err0
    res = []
    # (base_env: variables the worker process has before any request - a request that removes one of them must not leave
    #  it removed)
    for k, v in base_env: os.environ['C20K%d' % k] = 'v%d' % v
    try:
        for i, (mode, pl, tenv) in enumerate(seq):
            PAYLOADS[i] = payload_fn(pl)
            td = {'mode': mode, 'environment': {'C20K%d' % k: 'v%d' % v for k, v in tenv}, 'args': [], 'kwargs': {}}
            if mode == 'task.function' and pl.get('unresolved') == 'missing':
                td['function'] = 'c20_no_such_callable_%d' % i                 # cannot be resolved
            elif mode == 'task.function' and pl.get('unresolved') == 'pytask_args':
                td['function'] = rp.PythonTask(_plain_fn, (), {}); td['args'] = [1]  # a PythonTask must not come with args
            elif mode == 'task.function':
                setattr(w, 'c20_payload_%d' % i, PAYLOADS[i]); td['function'] = 'c20_payload_%d' % i
            elif mode == 'task.eval':
                td['code'] = "__import__('c20_payloads').run(%d)" % i
            elif mode == 'task.exec':
                td['code'] = 'import c20_payloads\nreturn c20_payloads.run(%d)' % i; td['pre_exec'] = []
            task = {'uid': 'req.%d' % i, 'description': td}
            try:
                if mode == 'task.function': r = asyncio.run(w._dispatch_func(task))
                elif mode == 'task.eval':   r = w._dispatch_eval(task)
                else:                       r = w._dispatch_exec(task)
            except Exception as ex:
                # the dispatcher refused the request (DefaultWorker._dispatch reports it as failed)
                r = ('', '', 1, None, ('x0', repr(ex)))
            o, e, ret, val, exc = r
            if pl.get('unresolved'): e = ''          # (whether a refusal leaves a line on stderr is not compared)
            res.append({'out': toks(o, 'o'), 'err': toks(e, 'e'), 'ret': ret, 'val': val,
                        'exc': _exc_num(exc[0]) if exc[0] else None,
                        'env': env_view(os.environ), 'cenv': c_env(), 'real': type(os.environ) is type(orig_environ),
                        'stdio_restored': sys.stdout is out0 and sys.stderr is err0})
    finally:
        sys.stdout, sys.stderr = real_out, real_err
        os.environ = orig_environ
        for k in list(os.environ):
            if k.startswith('C20K'): del os.environ[k]
        for k, v in saved.items():
            if os.environ.get(k) != v: os.environ[k] = v
    return res


def gen_payload(rng):
    pl = {'out': [rng.randint(1, 9) for _ in range(rng.choice([0, 1, 2]))],
          'err': [rng.randint(1, 9) for _ in range(rng.choice([0, 0, 1]))],
          'edits': [[rng.randint(1, 4), rng.choice([None, rng.randint(1, 9), rng.randint(1, 9)])] for _ in range(rng.choice([0, 0, 1, 2]))],
          'rebinds': rng.random() < 0.15, 'returns': rng.randint(0, 99), 'raises': None}
    if rng.random() < 0.3: pl['raises'] = rng.randint(1, 9)
    pl['unresolved'] = None
    if pl['rebinds'] and rng.random() < 0.5: pl['rebind_to'] = 'devnull'
    return pl


def gen_unresolved(rng):
    """a function request that is refused before anything runs: unknown callable / PythonTask with args"""
    return {'out': [], 'err': [], 'edits': [], 'rebinds': False, 'returns': 0, 'raises': 0,
            'unresolved': rng.choice(['missing', 'pytask_args'])}


def run_proc(rp, mode, out, err, code):
    w = make_worker(rp, 1, 0)
    script = '; '.join(['echo o%d' % x for x in out] + ['echo e%d 1>&2' % x for x in err] + ['exit %d' % code])
    if mode == 'task.proc':
        task = {'uid': 'req.0', 'description': {'executable': '/bin/sh', 'arguments': ['-c', script], 'environment': {}}}
        r = w._dispatch_proc(task)
    else:
        task = {'uid': 'req.0', 'description': {'command': script, 'environment': {}}}
        r = w._dispatch_shell(task)
    o, e, ret, val, exc = r
    return {'out': toks(o, 'o'), 'err': toks(e, 'e'), 'ret': ret, 'val': val, 'exc': exc[0]}


def run_proc_env(rp, base, reqs):
    """a stream of proc / shell requests on ONE worker: per request the values its child sees for
    the probe variables RPV_K1..RPV_K4 (None = unset).  base: [[k, v]] in the worker's task environment"""
    w = make_worker(rp, 1, 0)
    for k in list(w._task_env):
        if k.startswith('RPV_K'): del w._task_env[k]
    for k, v in base:
        w._task_env['RPV_K%d' % k] = str(v)
    script = '; '.join('echo "o${RPV_K%d-U}"' % k for k in (1, 2, 3, 4))
    seen = []
    for mode, env in reqs:
        e = {'RPV_K%d' % k: str(v) for k, v in env}
        if mode == 'task.proc':
            task = {'uid': 'req.0', 'description': {'executable': '/bin/sh', 'arguments': ['-c', script], 'environment': e}}
            o, _, ret, _, exc = w._dispatch_proc(task)
        else:
            task = {'uid': 'req.0', 'description': {'command': script, 'environment': e}}
            o, _, ret, _, exc = w._dispatch_shell(task)
        if isinstance(o, bytes): o = o.decode()
        vals = [None if x[1:] == 'U' else int(x[1:]) for x in (o or '').split() if x.startswith('o')]
        seen.append(vals if ret == 0 and len(vals) == 4 else 'failed: %r %r' % (ret, exc))
    return seen


def proc_env_part(ctx, rp):
    rng = ctx.rng
    ops, impl = [], []
    cases = [([], [('task.proc', [[1, 5]]), ('task.proc', []), ('task.shell', [])]),
             ([[2, 7]], [('task.shell', [[2, 1]]), ('task.proc', [[3, 3]]), ('task.shell', [])])]
    for _ in range(ctx.n(25, 600)):
        base = [[k, rng.randint(1, 9)] for k in rng.sample([1, 2, 3, 4], rng.choice([0, 0, 1, 2]))]
        reqs = [(rng.choice(['task.proc', 'task.shell']),
                 [[k, rng.randint(1, 9)] for k in rng.sample([1, 2, 3, 4], rng.choice([0, 1, 1, 2]))]) for _ in range(rng.randint(2, 5))]
        cases.append((base, reqs))
    for base, reqs in cases:
        seen = run_proc_env(rp, base, reqs)
        ops.append({'op': 'proc_env', 'base': base, 'keys': [1, 2, 3, 4], 'reqs': [e for m, e in reqs]})
        impl.append(seen)
        ctx.case({'proc_env': [m for m, e in reqs], 'base': base, 'envs': [e for m, e in reqs]},
                 nontrivial=any(e for m, e in reqs[:-1]))
        b = dict((k, v) for k, v in base)
        for i, ((m, e), got) in enumerate(zip(reqs, seen)):
            want = dict(b); want.update(dict((k, v) for k, v in e))
            if got != [want.get(k) for k in (1, 2, 3, 4)]:
                ctx.fail('dispatch:request-sees-environment-of-an-earlier-request',
                         'request %d (%s, own variables %s, worker base %s) sees %s; earlier requests set %s'
                         % (i, m, e, base, got, [x for _, x in reqs[:i]]),
                         {'kind': 'proc_env', 'base': base, 'reqs': [[m, e] for m, e in reqs]})
                break
    common.compare(ctx, 'raptor', ops, impl, what='real Worker._dispatch_proc/_dispatch_shell streams on one worker: environment every child sees')


# -- (D) ---------------------------------------------------------------------------------------
class FakeMP(object):
    """cooperative stand-ins for multiprocessing: a process is a controlled thread"""

    def __init__(self, ctl):
        self.ctl, self.pids, self.procs, self.tl = ctl, itertools.count(1001), {}, mt.local()
        self.timeout_flag = set()
        fm = self

        class Process(object):
            def __init__(self, target=None, args=(), **kw):
                self.target, self.args, self.pid, self.daemon, self.state = target, args, next(fm.pids), False, 'new'
                self.role = 'dp' if getattr(target, '__name__', '') == '_dispatch' else 'wp'
                fm.procs[self.pid] = self
            def start(self):
                self.state = 'alive'
                self.worker = fm.ctl.spawn('p%d' % self.pid, self._run, run_to_first_point=False)
                if self.role == 'dp': coop.point('started')      # (a point only when the starter is a controlled thread)
            def _run(self):
                fm.tl.proc = self
                try:
                    self.target(*self.args)
                except SystemExit:
                    pass
                finally:
                    if self.role == 'wp' and self.state != 'killed': coop.point('exit')
                    if self.state != 'killed': self.state = 'exited'
            def join(self, timeout=None):
                me = getattr(fm.tl, 'proc', None)
                while self.state == 'alive':
                    coop.point('join')
                    if me is not None and me.pid in fm.timeout_flag and timeout is not None:
                        fm.timeout_flag.discard(me.pid); return
            def is_alive(self): return self.state == 'alive'
            def terminate(self): self.state = 'killed'

        class Lock(object):
            def __init__(self): self.held = False
            def __enter__(self):
                coop.point('acquire')
                while self.held: coop.point('acquire')
                self.held = True
            def __exit__(self, *a):
                me = getattr(fm.tl, 'proc', None)
                if me is not None and me.role == 'wp': coop.point('release')
                self.held = False

        class Queue(object):
            def __init__(self): self.items = []
            def put(self, x):
                me = getattr(fm.tl, 'proc', None)
                if me is not None and me.role == 'wp': coop.point('put')
                self.items.append(x)
            def close(self): pass
            def join_thread(self): pass

        class Event(object):
            def __init__(self): self.f = False
            def set(self): self.f = True
            def is_set(self): return self.f
            def clear(self): self.f = False

        self.Process, self.Lock, self.Queue, self.Event = Process, Lock, Queue, Event


class OsProxy(object):
    def __init__(self, fm): self._fm = fm
    def getpid(self):
        p = getattr(self._fm.tl, 'proc', None)
        return p.pid if p is not None else os.getpid()
    def __getattr__(self, k): return getattr(os, k)


def run_life(rp, choices, scratch, task=None):
    import radical.pilot.raptor.worker_default as wd
    ctl = coop.Controller()
    fm  = FakeMP(ctl)
    w   = make_worker(rp, 2, 0)
    w._result_queue = fm.Queue()
    w._sbox = scratch
    saved_mp, saved_os = wd.mp, wd.os
    saved_spt = sys.modules.get('setproctitle')
    sys.modules['setproctitle'] = types.SimpleNamespace(setproctitle=lambda *a: None)
    env0, cwd0 = dict(os.environ), os.getcwd()
    wd.mp, wd.os = fm, OsProxy(fm)
    watcher_alive = True
    done = []
    try:
        if task is None:
            task = {'uid': 'req.0', 'cores': 1, 'gpus': 0, 'task_sandbox_path': scratch + '/req.0',
                    'description': {'mode': 'task.eval', 'code': '40 + 2', 'timeout': 5, 'environment': {}}}
        w._request_cb([task])                         # allocates, creates and starts the dispatch process
        dp = [p for p in fm.procs.values() if p.role == 'dp'][0]
        ctl.grant('p%d' % dp.pid)                     # the dispatch process starts the rank process and joins
        wp = [p for p in fm.procs.values() if p.role == 'wp'][0]
        ctl.grant('p%d' % wp.pid)                     # the rank process computes and arrives at the result lock
        obs = []
        for c in choices:
            mc = [c]
            if c == 'wp':
                if wp.state == 'alive': ctl.grant('p%d' % wp.pid)
            elif c == 'dp':
                where = ctl.where('p%d' % dp.pid)
                if where == 'join':
                    if wp.state != 'alive': ctl.grant('p%d' % dp.pid)
                elif where == 'acquire':
                    lock_held = any(ctl.where('p%d' % p.pid) in ('put', 'release') for p in [wp]) and wp.state == 'alive'
                    ctl.grant('p%d' % dp.pid)
                    if not lock_held: mc = ['dp', 'dp']      # acquiring and deciding is one grant here
            elif c == 'timeout':
                if ctl.where('p%d' % dp.pid) == 'join':
                    fm.timeout_flag.add(dp.pid); ctl.grant('p%d' % dp.pid)
            elif c == 'watcher':
                if watcher_alive and w._result_queue.items:
                    r = w._result_queue.items.pop(0)
                    try:
                        w._result_cb(r)
                    except Exception:
                        watcher_alive = False
            done += mc
            wst = {'put': 'has_lock', 'release': 'put', 'exit': 'released', 'acquire': 'running'}.get(ctl.where('p%d' % wp.pid))
            if wp.state == 'exited': wst = 'exited'
            if wp.state == 'killed': wst = 'killed'
            obs.append({'wp': wst, 'queued': len(w._result_queue.items), 'in_pool': dp.pid in w._pool,
                        'held': any(w._resources['cores']), 'answers': len(w._res_put.items), 'watcher': watcher_alive})
    finally:
        ctl.close()
        wd.mp, wd.os = saved_mp, saved_os
        if saved_spt is not None: sys.modules['setproctitle'] = saved_spt
        else: sys.modules.pop('setproctitle', None)
        os.chdir(cwd0)
        for k in list(os.environ):
            if k not in env0: del os.environ[k]
        for k, v in env0.items():
            if os.environ.get(k) != v: os.environ[k] = v
    return obs, done, w._res_put.items


RANK_KINDS = ['returns', 'raises', 'sandbox', 'mode', 'pytask_args', 'no_code']


def rank_task(rp, kind, n, scratch):
    """one request for the whole worker-side path (real _request_cb -> _dispatch -> _worker_proc -> _result_cb):
    'returns' / 'raises': the call runs; the other kinds fail OUTSIDE the dispatchers' own capturing block, in the
    rank process's try block: the sandbox cannot be made (a path component is a file), no dispatcher is registered
    for the mode, a serialized PythonTask that comes with arguments of its own, an eval request without code"""
    td = {'mode': 'task.eval', 'code': '40 + %d' % n, 'timeout': 5, 'environment': {}, 'args': [], 'kwargs': {}}
    sbox = '%s/rank.%s' % (scratch, kind)
    if kind == 'raises':  td['code'] = "(_ for _ in ()).throw(ValueError('x%d'))" % n
    if kind == 'mode':    td['mode'] = 'task.c20_unknown'
    if kind == 'no_code': td['code'] = ''
    if kind == 'pytask_args':
        td.update({'mode': 'task.function', 'function': rp.PythonTask(_plain_fn, (), {}), 'args': [n]})
    if kind == 'sandbox':
        with open('%s/rank.file' % scratch, 'w') as fh: fh.write('x')
        sbox = '%s/rank.file/sub' % scratch
    return {'uid': 'req.0', 'cores': 1, 'gpus': 0, 'task_sandbox_path': sbox, 'description': td}


def run_rank(rp, kind, n, scratch):
    obs, done, answers = run_life(rp, ['wp'] * 5 + ['dp'] * 3 + ['watcher'] * 2, scratch, task=rank_task(rp, kind, n, scratch))
    if len(answers) != 1:
        return {'answers': len(answers)}
    a = answers[0]
    code = a.get('exit_code')
    return {'answers': 1, 'exit': code, 'val': a.get('return_value'), 'exc': bool(a.get('exception')),
            'state': run_target(rp, code, True), 'held': obs[-1]['held']}


class PLock(object):
    """`_plock`: taking it and leaving it are scheduling points of the request thread"""
    def __init__(self): self.held = False
    def __enter__(self):
        while self.held: coop.point('plock-wait')
        self.held = True
        coop.point('locked')
    def __exit__(self, *a):
        coop.point('unlock')
        self.held = False


def run_start(rp, choices, scratch):
    """the REAL _request_cb in a controlled thread against the REAL _result_cb: choices 'req' (next step of the
    request thread), 'proc' (the dispatch process and its rank process run to their end), 'watcher' (the result
    watcher handles a queued result; blocked while the pool lock is held)"""
    import radical.pilot.raptor.worker_default as wd
    ctl = coop.Controller()
    fm  = FakeMP(ctl)
    w   = make_worker(rp, 2, 0)
    w._plock = PLock()
    w._result_queue = fm.Queue()
    w._sbox = scratch
    saved_mp, saved_os = wd.mp, wd.os
    saved_spt = sys.modules.get('setproctitle')
    sys.modules['setproctitle'] = types.SimpleNamespace(setproctitle=lambda *a: None)
    env0, cwd0 = dict(os.environ), os.getcwd()
    wd.mp, wd.os = fm, OsProxy(fm)
    watcher_alive, finished = True, False
    done = []
    try:
        task = {'uid': 'req.0', 'cores': 1, 'gpus': 0, 'task_sandbox_path': scratch + '/req.0',
                'description': {'mode': 'task.eval', 'code': '40 + 2', 'timeout': 5, 'environment': {}}}
        ctl.spawn('req', lambda: w._request_cb([task]), run_to_first_point=False)
        for c in list(choices) + ['req'] * 5 + ['proc', 'watcher', 'watcher']:
            if c == 'req':
                if ctl.where('req') != 'done': ctl.grant('req')
            elif c == 'proc':
                if any(p.role == 'dp' and p.state != 'new' for p in fm.procs.values()) and not finished:
                    for _ in range(400):
                        live = [p for p in list(fm.procs.values()) if p.state != 'new' and ctl.where('p%d' % p.pid) != 'done']
                        if not live: break
                        for p in live: ctl.grant('p%d' % p.pid)
                    finished = True
            elif c == 'watcher':
                if watcher_alive and w._result_queue.items and not w._plock.held:
                    r = w._result_queue.items.pop(0)
                    try:
                        w._result_cb(r)
                    except Exception:
                        watcher_alive = False
            done.append(c)
        where = ctl.where('req')
        rq = {'done': 'done', 'locked': 'locked', 'started': 'started', 'unlock': 'registered', None: 'idle'}.get(where, str(where))
        obs = {'rq': rq, 'queued': bool(w._result_queue.items), 'in_pool': bool(w._pool), 'held': any(w._resources['cores']),
               'answered': len(w._res_put.items) > 0, 'watcher': watcher_alive}
        nans = len(w._res_put.items)
    finally:
        ctl.close()
        wd.mp, wd.os = saved_mp, saved_os
        if saved_spt is not None: sys.modules['setproctitle'] = saved_spt
        else: sys.modules.pop('setproctitle', None)
        os.chdir(cwd0)
        for k in list(os.environ):
            if k not in env0: del os.environ[k]
        for k, v in env0.items():
            if os.environ.get(k) != v: os.environ[k] = v
    return obs, done, nans


def start_monitor(obs, nans):
    bad = []
    if not obs['watcher']:
        bad.append(('worker:result-watcher-died', 'the result of the request was handled before its process was registered: '
                    '_result_cb raised, no request is ever answered again'))
    if nans != 1:
        bad.append(('worker:request-not-answered-exactly-once', '%d results went back to the master' % nans))
    if obs['held']:
        bad.append(('worker:resources-not-returned', 'cores of the request are still busy'))
    return bad


def gen_start(rng):
    return [rng.choice(['req', 'req', 'proc', 'watcher']) for _ in range(rng.randint(0, 8))]


def gen_life(rng):
    n = rng.randint(4, 16)
    cs = [rng.choice(['wp', 'wp', 'dp', 'dp', 'timeout', 'watcher']) for _ in range(n)]
    # then run to quiescence
    return cs + ['wp'] * 4 + ['dp'] * 3 + ['watcher'] * 3


def life_flag(rp):
    """does the working tree decide with the recorded flag (repaired) or with is_alive()?"""
    import inspect
    import radical.pilot.raptor.worker_default as wd
    src = inspect.getsource(wd.DefaultWorker._dispatch)
    return 'is_alive()' not in src.split('with res_lock:')[-1].split('terminate')[0]


def life_monitor(obs, answers):
    last = obs[-1]
    bad = []
    if last['answers'] != 1:
        bad.append(('worker:request-not-answered-exactly-once', '%d results went back to the master' % last['answers']))
    if not last['watcher']:
        bad.append(('worker:result-watcher-died', 'a second result for the same request raised in _result_cb; no later request is answered'))
    if last['held']:
        bad.append(('worker:resources-not-returned', 'cores of the request are still busy'))
    return bad



# -- (E) the scheduler's raptor backlog -----------------------------------------------------------
class FakePutter(object):
    log = None
    def __init__(self, queue, addr): self.name = addr
    def put(self, x):
        for t in (x if isinstance(x, list) else [x]):
            FakePutter.log.append([int(self.name), int(t['uid'].split('.')[1]) if isinstance(t['uid'], str) else t['uid']])


def run_fwd(rp, ops):
    import radical.pilot.agent.scheduler.base as sb
    s = schedlib.make_sched(rp, {'cpn': 4, 'gpn': 0, 'lfs': 0, 'mem': 0, 'scattered': False},
                            [{'index': 0, 'cores': [0, 0, 0, 0], 'gpus': [], 'lfs': 0, 'mem': 0}])
    s._raptor_lock, s._raptor_queues, s._raptor_tasks = mt.Lock(), {}, {}
    s._scheduler_process = True
    failed = []
    s._fail_task = lambda task, e, detail: failed.append(task['uid'])
    FakePutter.log = []
    saved = sb.ru.zmq.Putter
    sb.ru.zmq.Putter = FakePutter
    errors = []
    def ctl(msg):
        # (an exception in a control callback is logged by the subscriber's listener; the component goes on)
        try: s.control_cb('control_pubsub', msg)
        except Exception as e: errors.append('%s: %s' % (msg['cmd'], type(e).__name__))
    try:
        for o in ops:
            if o[0] == 'incoming':
                ts = []
                for key, uids in o[1]:
                    for u in uids:
                        t = schedlib.req_to_task({'uid': u, 'ranks': 1, 'cpr': 1, 'gpr': 0, 'lfs': 0, 'mem': 0, 'rpn': 0, 'prio': 0})
                        t['description']['mode'] = 'task.function'
                        t['description']['raptor_id'] = '*' if key is None else 'master.%d' % key
                        ts.append(t)
                # one message per group: the groups arrive in this order within one drain
                for key, uids in o[1]:
                    s._queue_sched.put(([t for t in ts if t['uid'] in uids], s._SCHEDULE))
                s._schedule_incoming()
            elif o[0] == 'register':
                ctl({'cmd': 'register_raptor_queue', 'arg': {'name': 'master.%d' % o[1], 'queue': 'q', 'addr': str(o[1])}})
            elif o[0] == 'unregister':
                ctl({'cmd': 'unregister_raptor_queue', 'arg': {'name': 'master.%d' % o[1]}})
            else:
                ctl({'cmd': 'cancel_tasks', 'arg': {'uids': list(o[1])}})
    finally:
        sb.ru.zmq.Putter = saved
    def key(k): return None if k == '*' else int(k.split('.')[1])
    return {'queues': [int(k.split('.')[1]) for k in s._raptor_queues],
            'backlog': [[key(k), [t['uid'] for t in v]] for k, v in s._raptor_tasks.items()],
            'delivered': FakePutter.log, 'failed': failed,
            'canceled': [e[0] for e in s.events if e[1] == 'CANCELED'], 'errors': errors}


def gen_fwd(rng):
    ops, uid = [], 0
    masters = [1, 2, 3]
    for _ in range(rng.randint(2, 9)):
        r = rng.random()
        if r < 0.5:
            groups, keys = [], []
            for _ in range(rng.choice([1, 1, 2, 3])):
                k = rng.choice([None, None] + masters)
                if k in keys: continue
                keys.append(k)
                n = rng.choice([1, 1, 2, 3]); groups.append([k, list(range(uid, uid + n))]); uid += n
            ops.append(['incoming', groups])
        elif r < 0.75: ops.append(['register', rng.choice(masters)])
        elif r < 0.9:  ops.append(['unregister', rng.choice(masters)])
        else:          ops.append(['cancel', rng.sample(range(max(1, uid)), min(max(1, uid), rng.randint(1, 2)))])
    return ops, uid


def fwd_monitor(ops, r, n):
    bad = []
    seen = {}
    for q, t in r['delivered']:
        seen[t] = seen.get(t, 0) + 1
    waiting = [t for k, ts in r['backlog'] for t in ts]
    for t in range(n):
        places = seen.get(t, 0) + (t in r['failed']) + (t in r['canceled']) + (t in waiting)
        if places != 1:
            bad.append(('scheduler:raptor-request-not-accounted-once', 'request %d: delivered %d times, failed %s, canceled %s, waiting %s'
                        % (t, seen.get(t, 0), t in r['failed'], t in r['canceled'], t in waiting)))
    if r.get('errors'):
        bad.append(('scheduler:control-callback-raises', 'the scheduler\'s control callback raised: %s' % r['errors']))
    for k, ts in r['backlog']:
        if ts and ((k is None and r['queues']) or (k is not None and k in r['queues'])):
            bad.append(('scheduler:raptor-request-waits-although-master-registered',
                        'requests %s wait for %s while masters %s are registered: they never reach a worker'
                        % (ts, '*' if k is None else 'master.%d' % k, r['queues'])))
    return bad


# ----------------------------------------------------------------------------------------------
def run(ctx):
    rp  = rpload.load()
    rng = ctx.rng
    # (A)
    ops, impl = [], []
    for i in range(ctx.n(300, 10000)):
        nc, ng, o = gen_alloc_ops(rng)
        r, live = run_alloc(rp, nc, ng, o)
        ops.append({'op': 'alloc_seq', 'ncores': nc, 'ngpus': ng, 'ops': o}); impl.append(r)
        ctx.case(ops[-1], nontrivial=any(isinstance(a, dict) for a in r['answers']))
        for sig, what in alloc_monitor(o, r):
            ctx.fail(sig, what, {'kind': 'alloc', 'op': ops[-1]})
    common.compare(ctx, 'raptor', ops, impl, what='real DefaultWorker._alloc/_dealloc over request streams')
    # (B) exhaustive
    rops, rimpl = [], []
    for mode in MODES + ['raptor.worker']:
        for seen in (False, True):
            for has in (False, True):
                rops.append({'op': 'route', 'mode': mode, 'seen': seen, 'has_raptor': has})
                m = run_master(rp, mode, seen) if mode != 'raptor.worker' else {'master': 'workers', 'seen': seen}
                rimpl.append({'master': m['master'], 'seen': m['seen'], 'sched': run_sched_route(rp, has, mode, seen)})
                ctx.case(rops[-1], nontrivial=True)
                if mode == 'task.executable' and m['master'] != 'agent':
                    ctx.fail('master:executable-request-not-routed-to-agent', str(m), {'kind': 'route', 'op': rops[-1]})
                if mode in MODES[1:] and m['master'] != 'workers':
                    ctx.fail('master:function-request-not-routed-to-workers', str(m), {'kind': 'route', 'op': rops[-1]})
    common.compare(ctx, 'raptor', rops, rimpl, what='real Master._request_cb/_submit_tasks and scheduler raptor forwarding (exhaustive)')
    tops, timpl = [], []
    for code in [None, 0, 1, 2, -1, 255, '0', '1']:
        for present in (True, False):
            if code is None and present: e = None
            tops.append({'op': 'target', 'exit': (int(code) if code is not None and present else None)})
            timpl.append(run_target(rp, code, present))
            want = 'DONE' if (present and code is not None and int(code) == 0) else 'FAILED'
            if timpl[-1] != want:
                ctx.fail('master:target-state-differs', 'exit code %r -> %s' % (code if present else 'absent', timpl[-1]), {'kind': 'target', 'op': tops[-1]})
    common.compare(ctx, 'raptor', tops, timpl, what='real Master._result_cb exit code -> target state')
    # whatever the application's result callback does with a bulk of returned requests - also when it raises - every request
    # of the bulk is handed back, once, with the state its exit code says
    for _ in range(ctx.n(40, 600)):
        codes = [rng.choice([0, 0, 1, 3]) for _ in range(rng.randint(1, 4))]
        for raises in (False, True):
            handed, err = run_master_bulk(rp, codes, raises)
            ctx.case({'master_bulk': [codes, raises]}, nontrivial=raises)
            want = [('req.%04d' % k, 'DONE' if c == 0 else 'FAILED') for k, c in enumerate(codes)]
            if err or [(u, t) for u, t, s_ in handed] != want or any(s_ != 'AGENT_STAGING_OUTPUT_PENDING' for u, t, s_ in handed):
                ctx.fail('master:returned-requests-not-handed-back', 'bulk with exit codes %s, the application\'s result_cb %s: handed back %s%s'
                         % (codes, 'raises' if raises else 'returns', handed, ' (%s escaped)' % err if err else ''),
                         {'kind': 'master_bulk', 'codes': codes, 'raises': raises})
    ctx.obligation('real Master._result_cb with an application result_cb that returns or raises: every returned request is handed back once', 'tie', True, '')
    # (E)
    fops, fimpl = [], []
    for ops_, n_ in [(list(o), n) for o, n in FWD_CORPUS] + [gen_fwd(rng) for _ in range(ctx.n(200, 6000))]:
        r = run_fwd(rp, ops_)
        fops.append({'op': 'fwd', 'ops': ops_}); fimpl.append(r)
        ctx.case(fops[-1], nontrivial=bool(r['delivered']))
        for sig, what in fwd_monitor(ops_, r, n_):
            ctx.fail(sig, what, {'kind': 'fwd', 'ops': ops_, 'n': n_})
    common.compare(ctx, 'raptor', fops, fimpl, canon=lambda x: {k: (v if k != 'backlog' else [e for e in v if e[1]]) for k, v in x.items() if k != 'errors'} if isinstance(x, dict) else x,
                   what='real scheduler raptor backlog: _schedule_incoming forwarding, register/unregister_raptor_queue, cancel')
    # (C)
    dops, dimpl = [], []
    restore_c = None
    for i in range(ctx.n(40, 1500)):
        seq = [(rng.choice(['task.function', 'task.eval', 'task.exec']), gen_payload(rng),
                [[rng.randint(1, 4), rng.randint(1, 9)] for _ in range(rng.choice([0, 0, 1]))]) for _ in range(rng.randint(1, 4))]
        # function requests that cannot be resolved, with an environment of their own
        seq = [(m, pl, te) if not (m == 'task.function' and rng.random() < 0.3) else
               (m, gen_unresolved(rng), [[rng.randint(1, 4), rng.randint(1, 9)] for _ in range(rng.choice([1, 1, 2]))])
               for m, pl, te in seq]
        base = [[1, 5], [3, 7]] if i % 2 else []
        res = run_dispatch_seq(rp, seq, base)
        proc = {'env': [list(x) for x in base], 'cenv': [list(x) for x in base], 'real': True}
        for (mode, pl, tenv), r in zip(seq, res):
            if restore_c is None: restore_c = r['real']      # the repaired code keeps the real os.environ object
            dops.append({'op': 'dispatch', 'restore_c': restore_c, 'proc': proc, 'task_env': tenv, 'payload': pl})
            dimpl.append({'out': r['out'], 'err': r['err'], 'ret': r['ret'], 'val': r['val'], 'exc': r['exc'],
                          'env': r['env'], 'cenv': r['cenv'], 'real': r['real']})
            ctx.case(dops[-1], nontrivial=bool(pl['edits'] or pl['out'] or pl['raises']))
            ok = pl['raises'] is None
            if (r['ret'] == 0) != ok:
                ctx.fail('dispatch:exit-code-does-not-tell-success', 'ret %s, payload %s' % (r['ret'], 'returned' if ok else 'raised'), {'kind': 'dispatch', 'seq': seq, 'base': base})
            if ok and r['val'] != pl['returns']:
                ctx.fail('dispatch:return-value-lost', '%r vs %r' % (r['val'], pl['returns']), {'kind': 'dispatch', 'seq': seq, 'base': base})
            if not ok and r['exc'] != pl['raises']:
                ctx.fail('dispatch:exception-not-reported', '%r' % r['exc'], {'kind': 'dispatch', 'seq': seq, 'base': base})
            if not pl['rebinds'] and (r['out'] != pl['out'] or [x for x in r['err'] if x] != pl['err']):
                ctx.fail('dispatch:captured-output-differs', '%s %s' % (r['out'], r['err']), {'kind': 'dispatch', 'seq': seq, 'base': base})
            if r['env'] != proc['env'] or not r['stdio_restored']:
                ctx.fail('dispatch:environment-or-stdio-not-restored', 'os.environ afterwards %s, before %s; stdio restored: %s' % (r['env'], proc['env'], r['stdio_restored']), {'kind': 'dispatch', 'seq': seq, 'base': base})
            if r['cenv'] != proc['cenv']:
                ctx.fail('dispatch:process-environment-not-restored', 'children of the next request inherit %s (before the request: %s)' % (r['cenv'], proc['cenv']), {'kind': 'dispatch', 'seq': seq, 'base': base})
            proc = {'env': r['env'], 'cenv': r['cenv'], 'real': r['real']}
    common.compare(ctx, 'raptor', dops, dimpl, canon=lambda x: {k: (sorted(v) if k in ('env', 'cenv') else v) for k, v in x.items()} if isinstance(x, dict) else x,
                   what='real Worker._dispatch_func/_eval/_exec, several requests in one process')
    for i in range(ctx.n(12, 300)):
        mode = rng.choice(['task.proc', 'task.shell'])
        out, err, code = [rng.randint(1, 9) for _ in range(rng.choice([0, 1, 2]))], [rng.randint(1, 9) for _ in range(rng.choice([0, 1]))], rng.choice([0, 0, 1, 3])
        r = run_proc(rp, mode, out, err, code)
        ctx.case({'proc': [mode, out, err, code]}, nontrivial=True)
        if r['ret'] != code or r['out'] != out or r['err'] != err or r['exc'] is not None:
            ctx.fail('dispatch:process-result-differs', '%s for exit %d out %s err %s' % (r, code, out, err), {'kind': 'proc', 'args': [mode, out, err, code]})
    ctx.obligation('proc/shell dispatchers report exit code and captured output of the child', 'tie', True, '')
    proc_env_part(ctx, rp)
    # (D)
    flag = life_flag(rp)
    lops, limpl = [], []
    scheds = [list(c) for c in LIFE_CORPUS] + [gen_life(rng) for _ in range(ctx.n(120, 4000))]
    for cs in scheds:
        obs, done, answers = run_life(rp, cs, ctx.scratch)
        lops.append({'op': 'life', 'flag': flag, 'choices': done}); limpl.append(obs[-1])
        ctx.case(lops[-1], nontrivial='timeout' in cs)
        for sig, what in life_monitor(obs, answers):
            ctx.fail(sig, what, {'kind': 'life', 'choices': cs})
    common.compare(ctx, 'raptor', lops, limpl, what='real DefaultWorker request life cycle under cooperative multiprocessing (final state per schedule)')
    # ... and a rank process that dies before it reports (the payload ends the process: sys.exit, a crash): the request is
    # answered all the same (as failed), once, and its resources come back
    for cs in scheds[:ctx.n(40, 600)]:
        if 'timeout' in cs: continue
        dead = {'uid': 'req.0', 'cores': 1, 'gpus': 0, 'task_sandbox_path': ctx.scratch + '/req.0',
                'description': {'mode': 'task.eval', 'code': '(_ for _ in ()).throw(SystemExit(3))', 'timeout': 5, 'environment': {}}}
        obs, done, answers = run_life(rp, cs, ctx.scratch, task=dead)
        ctx.case({'life_dead': done}, nontrivial=True)
        for sig, what in life_monitor(obs, answers):
            ctx.fail(sig + ':rank-process-died', what + ' (the rank process ended without a result)', {'kind': 'life_dead', 'choices': cs})
        if len(answers) == 1 and answers[0].get('exit_code') == 0:
            ctx.fail('worker:dead-rank-process-reported-as-success', str(answers[0].get('exit_code')), {'kind': 'life_dead', 'choices': cs})
    # (D+) the outcome of one request over the whole worker-side path
    kops, kimpl = [], []
    for i in range(ctx.n(3, 40)):
        for kind in RANK_KINDS:
            n = rng.randint(1, 9)
            r = run_rank(rp, kind, n, ctx.scratch)
            ran = kind in ('returns', 'raises')
            kops.append({'op': 'rank', 'raised': None if ran else 1, 'ret': 0 if kind == 'returns' else 1,
                         'val': 40 + n if kind == 'returns' else None, 'exc': n if kind == 'raises' else None})
            kimpl.append({'exit': r.get('exit'), 'val': r.get('val'), 'exc': r.get('exc'), 'state': r.get('state')})
            ctx.case({'rank': [kind, n]}, nontrivial=not ran)
            inp = {'kind': 'rank', 'request': kind, 'n': n}
            if r['answers'] != 1:
                ctx.fail('worker:request-not-answered-exactly-once', '%d results for a %s request' % (r['answers'], kind), inp)
            elif kind != 'returns' and (r['exit'] == 0 or r['state'] == 'DONE'):
                ctx.fail('worker:request-that-did-not-succeed-reported-done', 'a %s request (%s) came back with exit code %r -> %s, exception recorded: %s'
                         % (kind, 'the call raised' if ran else 'the call never ran: the rank process raised before the dispatcher returned',
                            r['exit'], r['state'], r['exc']), inp)
            elif kind != 'returns' and not r['exc']:
                ctx.fail('worker:exception-not-reported', 'a %s request came back without its exception' % kind, inp)
            elif kind == 'returns' and (r['exit'] != 0 or r['val'] != 40 + n or r['state'] != 'DONE'):
                ctx.fail('worker:successful-request-not-reported', str(r), inp)
            elif r['held']:
                ctx.fail('worker:resources-not-returned', 'cores of a %s request are still busy' % kind, inp)
    common.compare(ctx, 'raptor', kops, kimpl, what='real _request_cb -> _dispatch -> _worker_proc -> _result_cb -> Master._result_cb: requests that return, raise, '
                   'or fail in the rank process before the dispatcher returns (sandbox, unknown mode, refused function, empty code)')
    # (D') the start of a request: request thread against the result watcher
    import itertools as _it
    sops, simpl = [], []
    starts = [list(c) for n in range(0, 5) for c in _it.product(['req', 'proc', 'watcher'], repeat=n)]
    starts += [gen_start(rng) for _ in range(ctx.n(40, 2000))]
    for cs in starts:
        obs, done, nans = run_start(rp, cs, ctx.scratch)
        sops.append({'op': 'start', 'choices': done}); simpl.append(obs)
        ctx.case(sops[-1], nontrivial='proc' in cs and 'watcher' in cs)
        for sig, what in start_monitor(obs, nans):
            ctx.fail(sig, what, {'kind': 'start', 'choices': cs})
    common.compare(ctx, 'raptor', sops, simpl, what='real _request_cb (controlled thread) against the real _result_cb: every schedule of up to 4 steps, then run to the end')
    ctx.rule = ('(A) request streams over workers of 1-8 cores / 0-2 GPUs with demands up to (and sometimes beyond) the worker size, '
                'completions in random order; (B) all modes x seen x raptor_id exhaustively; (C) 1-4 requests in a row in one process: '
                'payloads that print, return, raise, set/delete environment variables, replace sys.stdout, with task environments; '
                '(D) schedules of 4-16 steps of rank process / dispatch process / timeout / result watcher, then run to quiescence')
    ctx.assume += ['multiprocessing is replaced by cooperative stand-ins in (D): one step = the code between two accesses to the result '
                   'lock / result queue / process state; real process isolation, signals and mp.Queue feeder threads are not modelled',
                   'payload behaviours are abstract (what is printed, edited, returned or raised); eval/exec/subprocess semantics are Python\'s',
                   'the MPI worker (worker_mpi.py) is not anchored; it shares the dispatchers tied in (C)']
    ctx.trusted += ['harness/props/c20.py (stand-ins for multiprocessing, payload generator), harness/coop.py, harness/schedlib.py']


FWD_CORPUS = [
    ([['incoming', [[1, [0]], [None, [1, 2]]]], ['register', 1]], 3),       # named and '*' requests wait when the master registers
    ([['register', 1], ['register', 2], ['incoming', [[None, [0, 1, 2]]]], ['unregister', 1], ['incoming', [[1, [3]]]], ['unregister', 1]], 4),
]

LIFE_CORPUS = [
    # the rank process has queued its result and released the lock but not yet exited when the join times out
    ['wp', 'wp', 'timeout', 'wp', 'dp', 'watcher', 'watcher', 'wp', 'dp', 'watcher'],
    ['timeout', 'dp', 'wp', 'watcher', 'watcher'],
    ['wp', 'wp', 'wp', 'wp', 'dp', 'dp', 'watcher'],
]


def replay(ctx, data):
    rp = rpload.load()
    i = data['input']
    if i['kind'] == 'proc_env':
        reqs = [(m, e) for m, e in i['reqs']]
        seen = run_proc_env(rp, i['base'], reqs)
        b = dict((k, v) for k, v in i['base'])
        ok = True
        for (m, e), got in zip(reqs, seen):
            want = dict(b); want.update(dict((k, v) for k, v in e))
            ok = ok and got == [want.get(k) for k in (1, 2, 3, 4)]
        print('observed:', seen)
        return ok
    if i['kind'] == 'life_dead':
        dead = {'uid': 'req.0', 'cores': 1, 'gpus': 0, 'task_sandbox_path': ctx.scratch + '/req.0',
                'description': {'mode': 'task.eval', 'code': '(_ for _ in ()).throw(SystemExit(3))', 'timeout': 5, 'environment': {}}}
        obs, done, answers = run_life(rp, i['choices'], ctx.scratch, task=dead)
        bad = life_monitor(obs, answers); print(obs[-1], bad)
        return not bad and not (len(answers) == 1 and answers[0].get('exit_code') == 0)
    if i['kind'] == 'life':
        obs, done, answers = run_life(rp, i['choices'], ctx.scratch)
        bad = life_monitor(obs, answers); print(obs[-1], bad); return not bad
    if i['kind'] == 'start':
        obs, done, nans = run_start(rp, i['choices'], ctx.scratch)
        bad = start_monitor(obs, nans); print(obs, bad); return not bad
    if i['kind'] == 'dispatch':
        seq = [tuple(x) for x in i['seq']]
        base = i.get('base', [])
        res = run_dispatch_seq(rp, seq, base)
        proc = {'env': [list(x) for x in base], 'cenv': [list(x) for x in base]}
        ok = True
        for (mode, pl, tenv), r in zip(seq, res):
            print(r)
            if r['env'] != proc['env'] or r['cenv'] != proc['cenv'] or not r['stdio_restored']: ok = False
            if (r['ret'] == 0) != (pl['raises'] is None): ok = False
            proc = {'env': r['env'], 'cenv': r['cenv']}
        return ok
    if i['kind'] == 'rank':
        r = run_rank(rp, i['request'], i['n'], ctx.scratch); print(r)
        if r['answers'] != 1: return False
        if i['request'] == 'returns': return r['exit'] == 0 and r['state'] == 'DONE' and r['val'] == 40 + i['n']
        return r['exit'] != 0 and r['state'] == 'FAILED' and r['exc'] and not r['held']
    if i['kind'] == 'master_bulk':
        handed, err = run_master_bulk(rp, i['codes'], i['raises'])
        print(handed, err)
        return not err and [(u, t) for u, t, s_ in handed] == [('req.%04d' % k, 'DONE' if c == 0 else 'FAILED') for k, c in enumerate(i['codes'])]
    if i['kind'] == 'target':
        e = i['op']['exit']
        got = [run_target(rp, e, True)] + ([run_target(rp, None, False)] if e is None else [])
        want = 'DONE' if e == 0 else 'FAILED'
        print('exit code', e, '->', got)
        return all(g == want for g in got)
    if i['kind'] == 'fwd':
        r = run_fwd(rp, i['ops']); bad = fwd_monitor(i['ops'], r, i['n']); print(r, bad); return not bad
    if i['kind'] == 'alloc':
        r, live = run_alloc(rp, i['op']['ncores'], i['op']['ngpus'], i['op']['ops'])
        bad = alloc_monitor(i['op']['ops'], r); print(r); print(bad)
        return not bad
    raise NotImplementedError('replay: unknown kind %r' % i.get('kind'))
