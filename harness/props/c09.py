"""C09 — Launch commands enact the placement they were given.

Real launch-method objects (object.__new__ + the real init_from_info with the info
record the registry would deliver) answer sequences of tasks; each command string
and every host / rank / node file it references is parsed back into the structured
`Cmd` of Model/Launch.lean and compared with the model (tie).  The monitor judges
the parsed commands against the placement with an interpretation of the launcher
written independently of the model (count, nodes, pinning, no residue of earlier
tasks).  FORK, MPIRUN (+MPT, dplace, ccmrun), MPIEXEC (rank file, host files, PALS),
SRUN, APRUN, CCMRUN, IBRUN, PRTE, SSH, RSH.  Not covered: JSRUN (placement comes in
the jsrun scheduler's own slot format), FLUX, DRAGON (no command is built)."""

import os
import re
import shutil
import tempfile, copy

import common
import rpload

LMS = ['FORK', 'MPIRUN', 'MPIEXEC', 'SRUN', 'APRUN', 'CCMRUN', 'IBRUN', 'PRTE', 'SSH', 'RSH']


def hname(i):
    # unpadded numbering: node1 is a prefix of node10, node11, node100 (names must be compared whole)
    return 'localhost' if i == 0 else 'node%d' % i


def hid(s):
    s = s.strip()
    if s == 'localhost': return 0
    assert s.startswith('node'), s
    return int(s[4:])


class RMInfoStub(dict):
    """rm_info as the launch methods read it: item access, .get, .details, .node_list"""
    def __init__(self, cpn, nodes, tpc=1):
        dict.__init__(self, cores_per_node=cpn, threads_per_core=tpc, requested_gpus=0)
        self.details   = {}
        self.node_list = [{'index': i, 'name': hname(i)} for i in nodes]


def make_lm(rp, lm, cfg, sbox):
    import radical.pilot.agent.launch_method as rplm
    mods = {'FORK': ('fork', 'Fork'), 'MPIRUN': ('mpirun', 'MPIRun'), 'MPIEXEC': ('mpiexec', 'MPIExec'),
            'SRUN': ('srun', 'Srun'), 'APRUN': ('aprun', 'APRun'), 'CCMRUN': ('ccmrun', 'CCMRun'),
            'IBRUN': ('ibrun', 'IBRun'), 'PRTE': ('prte', 'PRTE'), 'SSH': ('ssh', 'SSH'), 'RSH': ('rsh', 'RSH')}
    import importlib
    m = importlib.import_module('radical.pilot.agent.launch_method.' + mods[lm][0])
    C = getattr(m, mods[lm][1])
    o = object.__new__(C)
    name = lm
    if lm == 'MPIRUN':
        if cfg.get('dplace'): name = 'MPIRUN_DPLACE'
        elif cfg.get('mpt'):  name = 'MPIRUN_MPT'
    o.name     = name
    o._log     = rpload.NullLog()
    o._prof    = rpload.NullLog()
    o._lm_cfg  = {'options': {'tasks_per_node': cfg.get('tpn') or None}, 'resource': 'local.localhost'}
    o._rm_info = RMInfoStub(cfg.get('cpn', 8), cfg.get('node_idx', list(range(2, 10))))
    info = {'env': {}, 'env_sh': 'env/lm_%s.sh' % lm.lower(), 'command': lm.lower()}
    if lm == 'FORK':
        o.node_name = hname(cfg.get('self', 1))
    if lm == 'MPIRUN':
        info.update({'mpt': bool(cfg.get('mpt')), 'rsh': False, 'ccmrun': 'ccmrun' if cfg.get('ccmrun') else '',
                     'dplace': 'dplace' if cfg.get('dplace') else '', 'omplace': 'omplace' if cfg.get('mpt') else '',
                     'mpi_version': '4.1', 'mpi_flavor': C.MPI_FLAVOR_SPECTRUM if cfg.get('spectrum') else C.MPI_FLAVOR_OMPI,
                     'command': 'mpirun'})
        o._mpt = o._rsh = False; o._ccmrun = o._dplace = o._omplace = ''
    if lm == 'MPIEXEC':
        info.update({'mpt': False, 'rsh': False, 'use_rf': bool(cfg.get('use_rf')), 'use_hf': bool(cfg.get('use_hf')),
                     'can_os': False, 'ccmrun': '', 'dplace': '', 'omplace': '', 'mpi_version': '4.1',
                     'mpi_flavor': C.MPI_FLAVOR_PALS if cfg.get('pals') else C.MPI_FLAVOR_OMPI, 'command': 'mpiexec'})
    if lm == 'SRUN':
        info.update({'version': '%d.05' % cfg.get('vmajor', 20), 'vmajor': cfg.get('vmajor', 20)})
        o._traverse, o._exact, o._verbose = bool(cfg.get('traverse')), False, False
    if lm == 'PRTE':
        info.update({'details': {'dvm_list': {'0': {'dvm_uri': 'uri0'}, 0: {'dvm_uri': 'uri0'}}}, 'command': 'prun'})
        o._verbose = False
    o.init_from_info(info)
    return o


def make_task(rp, t, uid, sbox):
    from radical.pilot.resource_config import Slot, RO
    slots = [Slot(cores=[RO(index=c, occupation=1.0) for c in s['cores']],
                  gpus=[RO(index=g, occupation=1.0) for g in s['gpus']],
                  node_index=s['node'], node_name=hname(s['host']), lfs=0, mem=0) for s in t['slots']]
    return {'uid': uid, 'slots': slots, 'partition': '0', 'task_sandbox_path': sbox,
            'description': {'ranks': t['ranks'], 'cores_per_rank': t['cpr'], 'gpus_per_rank': 1.0 if t['gpus'] else 0.0,
                            'use_mpi': t['use_mpi'], 'executable': '/bin/true' if t['exe'] else '',
                            'mem_per_rank': 0, 'metadata': {}}}


def read(path):
    with open(path) as f:
        return f.read()


def ibrun_chain(rp, nalloc, agent_nodes, service, tpn, sbox):
    """the nodes the real Slurm resource manager offers out of an allocation of `nalloc` nodes when the agent layout
    reserves some of them (sub-agents on nodes of their own, a services node), handed to the real IBRun: for a one-rank
    task on each offered node, the `-o` offset - into ibrun's processor list, which covers the WHOLE allocation in its
    own order - has to address that node.  Returns [(node index in the allocation, offset of the command)]."""
    from props import c18
    hosts = [0, 1, 2, 5, 6, 7][:nalloc]               # c18.HOSTS ids of plain compute hosts, in allocation order
    case = {'op': 'init', 'kind': 'slurm', 'exec_vnode': None, 'stale': None,
            'cfg': {'cpn': 8, 'gpn': 0, 'smt': 1, 'nodes': nalloc, 'cores': 8, 'gpus': 0, 'backup': 0, 'blocked_cores': [],
                    'blocked_gpus': [], 'agent_nodes': agent_nodes, 'service_nodes': service, 'env_gpus': None, 'env_gpu_ids': 0},
            'lines': [{'id': h, 'login': False, 'batch': False} for h in hosts],
            'hosts': [{'id': h, 'login': False, 'batch': False} for h in hosts],
            'env_cpus': None, 'detected': 64, 'reach': list(range(len(c18.HOSTS))), 'hang': []}
    rm, shared, err = c18.run_real(rp, case, sbox)
    if rm == 'error':
        return 'rm-error: %s' % err
    offered = [n[1] for n in rm['node_list']]           # node indices, in the order of rm_info.node_list
    cfg = {'cpn': 8, 'node_idx': offered, 'tpn': tpn}
    o = make_lm(rp, 'IBRUN', cfg, sbox)
    out = []
    for k, idx in enumerate(offered):
        t = {'ranks': 1, 'cpr': 1, 'gpus': False, 'use_mpi': True, 'exe': True,
             'slots': [{'host': idx, 'node': idx, 'cores': [0], 'gpus': []}]}
        c = parse('IBRUN', o.get_launch_cmds(make_task(rp, t, 'task.%06d' % k, sbox), 'EXEC'), cfg)
        out.append((idx, c['offset'], c['tpn']))
    return out


def ibrun_chain_part(ctx, rp, sbox):
    n = 0
    for nalloc in (2, 3, 5):
        for agent_nodes in (0, 1, 2):
            for service in (0, 1):
                if agent_nodes + service >= nalloc: continue
                for tpn in (0, 4):
                    r = ibrun_chain(rp, nalloc, agent_nodes, service, tpn, sbox)
                    n += 1
                    ctx.case({'ibrun_chain': [nalloc, agent_nodes, service, tpn]}, nontrivial=bool(agent_nodes or service))
                    inp = {'ibrun_chain': {'nalloc': nalloc, 'agent_nodes': agent_nodes, 'service': service, 'tpn': tpn}}
                    if isinstance(r, str):
                        ctx.fail('ibrun-chain:resource-manager-raises', r, inp); continue
                    for idx, off, t in r:
                        if off != idx * t:
                            ctx.fail('ibrun-chain:offset-addresses-another-node-of-the-allocation',
                                     'allocation of %d nodes, %d reserved for sub-agents, %d for services: a task on node %d of the allocation '
                                     'is started with -o %d (tasks per node %d), i.e. on node %d' % (nalloc, agent_nodes, service, idx, off, t, off // t), inp)
                            break
    ctx.obligation('nodes offered by the real Slurm resource manager with nodes reserved for sub-agents / services -> real IBRun: the offset '
                   'addresses the task\'s node in the allocation (%d layouts)' % n, 'tie', True, '')


def parse(lm, cmd, cfg):
    """real command string (+ the files it names) -> the structure of Model/Launch.lean `Cmd`"""
    w = cmd.split()
    def opt(name):
        return w[w.index(name) + 1] if name in w else None
    if lm == 'FORK':
        return {'lm': 'fork'} if w == ['EXEC'] else {'lm': '?', 'raw': cmd}
    if lm == 'MPIRUN':
        i = w.index('mpirun')
        assert w[:i] == (['ccmrun'] if cfg.get('ccmrun') else []), cmd
        mpt_hosts = []
        if not w[i + 1].startswith('-'):
            mpt_hosts = [hid(x) for x in w[i + 1].split(',')]
        hf = opt('-hostfile') or opt('-file')
        dp = None
        if 'dplace' in w:
            if w[w.index('dplace') + 1] == '-c': dp = [int(x) for x in w[w.index('dplace') + 2].split(',')]
            else:                                dp = 'no-core-list'
        return {'lm': 'mpirun', 'np': int(opt('-np')), 'mpt_hosts': mpt_hosts,
                'host': [hid(x) for x in opt('-host').split(',')] if opt('-host') else [],
                'hostfile': [hid(x) for x in read(hf).split()] if hf else None, 'dplace': dp,
                'mpt': bool(('-file' in w) or mpt_hosts)}
    if lm == 'MPIEXEC':
        rf, hf, ppn, bind = None, None, None, []
        if opt('-rf'):
            rf = []
            for k, line in enumerate(read(opt('-rf')).splitlines()):
                m = re.match(r'^rank (\d+)=(\S+) slots=(\S*)$', line)
                assert m and int(m.group(1)) == k, line
                rf.append([hid(m.group(2)), [int(x) for x in m.group(3).split(',') if x]])
        f = opt('--hostfile') or opt('-f')
        if f:
            hf = []
            for line in read(f).splitlines():
                m = re.match(r'^(\S+?)(?: slots=|:)(\d+)$', line)
                if m: hf.append([hid(m.group(1)), int(m.group(2))])
                else: hf.append([hid(line), 0])
        if opt('--ppn'): ppn = int(opt('--ppn'))
        if opt('--cpu-bind'):
            b = opt('--cpu-bind'); assert b.startswith('list:')
            for x in b[5:].split(':'):
                bind.append(x)
        return {'lm': 'mpiexec', 'np': int(opt('-np')), 'rf': rf, 'hf': hf, 'ppn': ppn, 'bind': bind}
    if lm == 'SRUN':
        nl, viaf = [], False
        for x in w:
            if x.startswith('--nodelist='): nl = sorted(hid(h) for h in x.split('=', 1)[1].split(','))
            if x.startswith('--nodefile='):
                viaf = True
                nl = sorted(hid(h) for h in read(x.split('=', 1)[1]).strip().split(','))
        nt = opt('--ntasks'); cpt = opt('--cpus-per-task')
        for x in w:
            if x.startswith('--ntasks='): nt = x.split('=')[1]
            if x.startswith('--cpus-per-task='): cpt = x.split('=')[1]
        return {'lm': 'srun', 'nodes': int(opt('--nodes')) if opt('--nodes') else None, 'ntasks': int(nt),
                'cpt': int(cpt) if cpt is not None else 0, 'nodelist': nl, 'file': viaf}
    if lm == 'APRUN':  return {'lm': 'aprun', 'n': int(opt('-n')), 'd': int(opt('-d'))}
    if lm == 'CCMRUN': return {'lm': 'ccmrun', 'n': int(opt('-n'))}
    if lm == 'IBRUN':
        m = re.match(r'^IBRUN_TASKS_PER_NODE=(\d+)$', w[0]); assert m, cmd
        return {'lm': 'ibrun', 'tpn': int(m.group(1)), 'n': int(opt('-n')), 'offset': int(opt('-o'))}
    if lm == 'PRTE':
        hosts = []
        if opt('--host'):
            hosts = [[hid(x.split(':')[0]), int(x.split(':')[1])] for x in opt('--host').split(',')]
        m = re.search(r'PE=(\d+)', cmd)
        return {'lm': 'prte', 'np': int(opt('--np')), 'pe': int(m.group(1)), 'hosts': hosts}
    if lm in ('SSH', 'RSH'):
        assert w[0] == lm.lower() and w[2] == 'EXEC', cmd
        return {'lm': lm.lower(), 'host': hid(w[1])}
    raise ValueError(lm)


def bind_pairs(bind):
    """PALS cpu-bind entries as the model keeps them: [first, last] for `a-b`, {'list': [...]} otherwise"""
    out = []
    for x in bind:
        if re.match(r'^\d+-\d+$', x): a, b = x.split('-'); out.append([int(a), int(b)])
        else:                         out.append({'list': [int(y) for y in x.split(',') if y]})
    return out


def bind_cores(x):
    """cores a cpu-bind list entry names"""
    cores = []
    for part in x.split(','):
        if not part: continue
        if '-' in part:
            a, b = part.split('-'); cores += list(range(int(a), int(b) + 1))
        else:
            cores.append(int(part))
    return cores


def run_real(rp, lm, cfg, tasks, sbox):
    """one launcher instance answers the tasks in order; returns per task {'can', 'cmd'} with parsed commands"""
    o = make_lm(rp, lm, cfg, sbox)
    out, raw = [], []
    for k, t in enumerate(tasks):
        # '_uid': the same task (uid, sandbox) is placed again, elsewhere: its command is generated anew
        task = make_task(rp, t, 'task.%06d' % t.get('_uid', k), sbox)
        try:
            can = bool(o.can_launch(task)[0])
        except IndexError:
            can = False
        try:
            s = o.get_launch_cmds(task, 'EXEC')
            raw.append(s)
            c = parse(lm, s, cfg)
        except ValueError:      c = {'err': 'ValueError'};     raw.append(None)
        except AssertionError:  c = {'err': 'AssertionError'}; raw.append(None)
        except (RuntimeError, IndexError): c = {'err': 'RuntimeError'}; raw.append(None)
        out.append({'can': can, 'cmd': c})
    return out, raw


def canon_real(r):
    r = {'can': r['can'], 'cmd': dict(r['cmd'])}
    if r['cmd'].get('lm') == 'mpiexec':
        r['cmd']['bind'] = bind_pairs(r['cmd']['bind'])
    return r


def host_counts(t):
    d = {}
    for s in t['slots']:
        d[s['host']] = d.get(s['host'], 0) + 1
    return d


def monitor(lm, cfg, t, c):
    """judge one parsed command against the placement; returns [(signature, what)]"""
    bad = []
    if 'err' in c or not t['slots'] or len(t['slots']) != t['ranks']:
        return bad        # the placement covers the ranks of the task (C02); anything else is not a placement
    want = host_counts(t)
    n = len(t['slots'])
    k = c.get('lm')
    got, total = None, None
    if k == 'fork':
        total = 1
        # fork starts the process where the executor runs
        got = {t['slots'][0]['host']: 1} if t['slots'][0]['host'] in (0, cfg.get('self')) else {cfg.get('self'): 1}
    elif k == 'mpirun':
        hosts = c['mpt_hosts'] + c['host'] + (c['hostfile'] or [])
        got = {}
        for h in hosts: got[h] = got.get(h, 0) + (c['np'] if c['mpt'] else 1)
        total = len(hosts) * c['np'] if c['mpt'] else c['np']
        if cfg.get('dplace') and (c['dplace'] is None or c['dplace'] == 'no-core-list'):
            bad.append(('mpirun-dplace:ranks-not-pinned', 'the dplace launcher names no cores: %s' % c['dplace']))
        elif c['dplace'] is not None and c['dplace'] != [s['cores'][0] for s in t['slots']]:
            bad.append(('mpirun-dplace:cores-differ-from-placement', 'dplace -c %s, first cores of the ranks %s'
                        % (c['dplace'], [s['cores'][0] for s in t['slots']])))
    elif k == 'mpiexec':
        total = c['np']
        if c['rf'] is not None:
            got = {}
            for h, cores in c['rf']: got[h] = got.get(h, 0) + 1
            if [x[1] for x in c['rf']] != [s['cores'] for s in t['slots']]:
                bad.append(('mpiexec-rankfile:cores-differ-from-placement', '%s vs %s' % (c['rf'], t['slots'])))
        elif c['ppn'] is not None:
            # PALS: --ppn P fills the hosts of the host file in order with P ranks each
            order = [h for h, _ in c['hf']]
            counts = [want.get(h, 0) for h in order]
            uniform = all(x == c['ppn'] for x in counts[:-1]) and (not counts or counts[-1] <= c['ppn'])
            # whether PALS can express the placement is a matter of the placement: its ranks grouped by host, every host
            # but the last one used holding the same number of ranks (no fewer on the last).  Then the host file has to
            # name the hosts in the order the ranks use them - PALS fills the hosts in file order
            used = []
            for sl in t['slots']:
                if not used or used[-1] != sl['host']: used.append(sl['host'])
            if len(set(used)) == len(used) and used:
                cw = [want[h] for h in used]
                per_host = {h: sorted(tuple(sorted(sl['cores'])) for sl in t['slots'] if sl['host'] == h) for h in used}
                matters = len(set(cw)) > 1 or len(set(map(tuple, per_host.values()))) > 1     # (equal hosts may be swapped)
                if all(x == cw[0] for x in cw[:-1]) and cw[-1] <= cw[0] and order != used and sorted(order) == sorted(used) and matters:
                    bad.append(('mpiexec-pals:host-file-order-differs-from-placement',
                                'the ranks use the hosts in the order %s (%s ranks each), the host file lists %s: with --ppn %s the ranks '
                                'land on other hosts than placed' % (used, cw, order, c['ppn'])))
            if uniform and sorted(order) == sorted(want):
                got = dict(want)                 # ranks fall where the placement has them
                # rank i of the command is slot i only if the slots are grouped by host in file order
                for b, s in zip(c['bind'], t['slots']):
                    if sorted(bind_cores(b)) != sorted(s['cores']):
                        bad.append(('mpiexec-pals:cpu-bind-names-other-cores',
                                    '--cpu-bind entry %s binds cores %s, the rank holds %s' % (b, bind_cores(b), s['cores'])))
                        break
            else:
                got = None                       # not claimed (see DESIGN.md, C09)
            # whichever rank lands where: the core sets the command pins are the core sets of the placement
            if c['bind'] and sorted(sorted(bind_cores(b)) for b in c['bind']) != sorted(sorted(s['cores']) for s in t['slots']):
                bad.append(('mpiexec-pals:cpu-bind-names-other-cores',
                            '--cpu-bind pins the core sets %s, the ranks hold %s'
                            % ([bind_cores(b) for b in c['bind']], [s['cores'] for s in t['slots']])))
        else:
            got = {}
            for h, kk in c['hf']: got[h] = got.get(h, 0) + kk
    elif k == 'srun':
        total = c['ntasks']
        if sorted(set(want)) != c['nodelist']:
            bad.append(('srun:nodes-differ-from-placement', 'nodelist %s, placement nodes %s' % (c['nodelist'], sorted(set(want)))))
        if c['nodes'] is not None and c['nodes'] != len(want):
            bad.append(('srun:node-count-differs', '--nodes %s, placement spans %d' % (c['nodes'], len(want))))
    elif k in ('aprun', 'ccmrun', 'ibrun'):
        total = c['n']
        if k == 'ibrun' and t['slots'] and all(s['cores'] for s in t['slots']) and t['cpr']:
            # `ibrun -o off`: rank j runs on task slot off + j of the job (tpn slots per node, nodes in RM order).
            # Judged only for placements ibrun can express at all.
            nodes, tpn, cpr = cfg['node_idx'], c['tpn'], t['cpr']
            # the task slot of the job each rank sits on (none if its cores are not one aligned block); the ranks may be
            # listed in any order: what counts is the set of task slots
            def slot_of(sl):
                if sl['node'] not in nodes or not sl['cores'] or sl['cores'][0] % cpr: return None
                loc = sl['cores'][0] // cpr
                if loc >= tpn or sl['cores'] != list(range(loc * cpr, loc * cpr + cpr)): return None
                return nodes.index(sl['node']) * tpn + loc
            idx = [slot_of(sl) for sl in t['slots']]
            if tpn and cpr and tpn * cpr <= cfg['cpn'] and None not in idx and len(idx) == n:
                off0 = min(idx)
                if sorted(idx) == list(range(off0, off0 + n)) and c['offset'] != off0:
                    where = [(nodes[(c['offset'] + j) // tpn] if (c['offset'] + j) // tpn < len(nodes) else None, ((c['offset'] + j) % tpn) * cpr)
                             for j in range(n)]
                    bad.append(('ibrun:offset-starts-ranks-elsewhere',
                                '-o %d (tasks per node %d) starts the ranks at (node, first core) %s, the placement is %s'
                                % (c['offset'], tpn, where, [(sl['node'], sl['cores'][0]) for sl in t['slots']])))
    elif k == 'prte':
        total = c['np']
        got = {}
        for h, kk in c['hosts']: got[h] = got.get(h, 0) + kk
    elif k in ('ssh', 'rsh'):
        total, got = 1, {c['host']: 1}
    if total is not None and total != n:
        bad.append(('%s:process-count-differs' % k, 'command starts %s processes, placement has %d ranks' % (total, n)))
    if got is not None and {h: v for h, v in got.items() if v} != want:
        bad.append(('%s:nodes-differ-from-placement' % k, 'processes per host %s, placement %s' % (got, want)))
    return bad


def gen_task(rng, lm, cfg, force_n=None):
    nodes = cfg.get('node_idx', list(range(2, 10)))
    cpn   = cfg.get('cpn', 8)
    r = rng.random()
    nslots = rng.choice([1, 1, 2, 3, 4, 6]) if r < 0.9 else rng.choice([0, 43, 50])
    if force_n: nslots = force_n
    if lm == 'MPIRUN' and nslots == 0: nslots = 1      # mpirun without a placement: no host argument at all, not a command
    if lm in ('MPIRUN', 'MPIEXEC', 'PRTE') and rng.random() < 0.12: nslots = rng.choice([42, 43, 44, 50])   # host list vs host file threshold, every flavour
    if lm in ('FORK', 'SSH', 'RSH'):
        nslots = rng.choice([1, 1, 1, 2, 0]) if lm != 'FORK' else rng.choice([1, 1, 1, 2])
    cpr = rng.choice([1, 1, 2, 3])
    if lm == 'SRUN' and nslots >= 43 and (force_n or rng.random() < 0.7):
        nodes = list(range(2, 60))
    if lm != 'SRUN' and lm != 'IBRUN' and nslots >= 42:
        nodes = list(nodes) + [n for n in range(10, 40) if n not in nodes]      # room for that many ranks
    if lm == 'IBRUN' and rng.random() < 0.5:
        # a placement ibrun can express: ranks on consecutive task slots of the job, from any slot on
        n   = rng.choice([1, 2, 3, 4, 6, 8])
        tpn = cfg.get('tpn') or max(1, cpn // (n * cpr))
        if tpn * cpr <= cpn and n <= tpn * len(nodes):
            off = rng.randint(0, tpn * len(nodes) - n)
            slots = []
            for j in range(n):
                loc = (off + j) % tpn
                h = nodes[(off + j) // tpn]
                slots.append({'host': h, 'node': h, 'cores': list(range(loc * cpr, loc * cpr + cpr)), 'gpus': []})
            if rng.random() < 0.4: rng.shuffle(slots)        # the same placement, its ranks listed in another order
            return {'ranks': n, 'cpr': cpr, 'gpus': False, 'slots': slots, 'use_mpi': rng.choice([None, True]), 'exe': True}
    slots = []
    # ranks of a task are grouped by node, nodes in list order (what the continuous scheduler produces),
    # sometimes shuffled (application supplied placements)
    pool = list(nodes)
    if lm == 'FORK': pool = [rng.choice([0, cfg['self'], cfg['self'], 1, 10, 11, 100, 5])]
    used = {}
    cur = rng.choice(pool)
    spread = rng.sample(pool, nslots) if (force_n and lm == 'SRUN' and len(pool) >= nslots) else None    # one rank per node
    for i in range(nslots):
        if spread: cur = spread[i]
        elif rng.random() < 0.45: cur = rng.choice(pool)
        free = [c for c in range(cpn) if c not in used.setdefault(cur, set())]
        if len(free) < cpr:
            cands = [h for h in pool if len([c for c in range(cpn) if c not in used.setdefault(h, set())]) >= cpr]
            if not cands: break
            cur = rng.choice(cands)
            free = [c for c in range(cpn) if c not in used[cur]]
        r2 = rng.random()
        if r2 < 0.55:   cores = free[:cpr]                       # first free cores
        elif r2 < 0.85: cores = sorted(rng.sample(free, cpr))    # holes: other tasks hold the cores between
        else:           cores = rng.sample(free, cpr)            # ... in any order (placements supplied by the application)
        if cpr >= 3 and rng.random() < 0.12:
            # ... an order in which first and last entry span exactly as many indices as the list is long although the
            # cores are no contiguous block ([0, 5, 2, 3]): must not be abbreviated as a range
            starts = [a for a in free if a + cpr - 1 in free]
            if starts:
                a = rng.choice(starts)
                rest = [c for c in free if c not in (a, a + cpr - 1)]
                outside = [c for c in rest if not a < c < a + cpr - 1]
                if outside and len(rest) >= cpr - 2:
                    mid = [rng.choice(outside)]
                    mid += rng.sample([c for c in rest if c not in mid], cpr - 3)
                    rng.shuffle(mid)
                    cores = [a] + mid + [a + cpr - 1]
        used[cur].update(cores)
        slots.append({'host': cur, 'node': cur, 'cores': cores, 'gpus': [0] if rng.random() < 0.2 else []})
    if rng.random() < 0.7:
        slots.sort(key=lambda s: s['host'])
    if rng.random() < 0.03 and slots:
        slots[rng.randrange(len(slots))]['cores'] = []
    ranks = len(slots) if rng.random() < 0.95 or not slots else len(slots) + 1
    if not slots: ranks = rng.choice([1, 2, 4])
    return {'ranks': ranks, 'cpr': cpr, 'gpus': rng.random() < 0.3, 'slots': slots,
            'use_mpi': rng.choice([None, None, True, False]), 'exe': rng.random() < 0.95}


# ------------------------------------------------------------------------------
# JSRUN: the placement comes as resource sets (what the jsrun scheduler hands over)
#
def make_jsrun(rp, erf, tpc, gpn):
    from radical.pilot.agent.launch_method.jsrun import JSRUN
    o = object.__new__(JSRUN)
    o.name, o._log, o._prof = 'JSRUN_ERF' if erf else 'JSRUN', rpload.NullLog(), rpload.NullLog()
    o._in_pytest = False
    o._rm_info = {'threads_per_core': tpc, 'gpus_per_node': gpn}
    o._erf, o._command = False, ''
    o.init_from_info({'env': {}, 'env_sh': 'env/lm_jsrun.sh', 'command': 'jsrun', 'erf': bool(erf)})
    return o


def jsrun_task(rp, t, uid, sbox):
    slots = [{'node_name': hname(r['node']), 'node_index': r['node'], 'cores': [list(c) for c in r['ranks']],
              'gpus': [list(r['gpus']) for _ in r['ranks']] if r['gpus'] else [], 'lfs': 0, 'mem': 0} for r in t['rsets']]
    from radical.pilot import constants as rpc
    return {'uid': uid, 'slots': slots, 'task_sandbox_path': sbox,
            'description': {'executable': '/bin/true', 'ranks': t['nranks'], 'gpus_per_rank': 1.0 if t['cuda'] else 0.0,
                            'gpu_type': rpc.CUDA if t['cuda'] else '', 'threading_type': rpc.OpenMP if t['omp'] else ''}}


def parse_jsrun(cmd):
    w = cmd.split()
    assert w[0] == 'jsrun' and w[-1] == 'EXEC', cmd
    smpi = None
    for x in w:
        if x.startswith('--smpiargs='): smpi = 'gpu' if 'gpu' in x else 'off'
    if '--erf_input' in w:
        lines = []
        text = read(w[w.index('--erf_input') + 1]).splitlines()
        assert text[0] == 'cpu_index_using: logical', text[0]
        for line in text[1:]:
            m = re.match(r'^rank: ([\d,]+) : \{ host: (\d+); cpu: ((?:\{[\d,]*\},?)+)(?:; gpu: \{([\d,]*)\})? \}$', line)
            assert m, line
            lines.append({'ranks': [int(x) for x in m.group(1).split(',')], 'host': int(m.group(2)),
                          'cpus': [[int(y) for y in x.split(',') if y] for x in re.findall(r'\{([\d,]*)\}', m.group(3))],
                          'gpus': [int(x) for x in (m.group(4) or '').split(',') if x]})
        return {'lm': 'jsrun_erf', 'smpi': smpi, 'lines': lines}
    def num(flag):
        for x in w:
            if re.match(r'^-%s\d+$' % flag, x): return int(x[2:])
        return None
    b = None
    if '-b' in w:
        v = w[w.index('-b') + 1]
        b = 'rs' if v == 'rs' else int(v.split(':')[1])
    return {'lm': 'jsrun', 'smpi': smpi, 'n': num('n'), 'a': num('a'), 'c': num('c'), 'g': num('g'), 'r': num('r'), 'b': b}


def gen_jsrun_task(rng, cfg):
    nodes = list(range(2, 8))
    nrs   = rng.choice([1, 1, 2, 3, 4, 6])
    a     = rng.choice([1, 1, 2, 2, 3])                 # ranks per resource set (several when ranks share a GPU)
    cpr   = rng.choice([1, 2, 4])
    ng    = rng.choice([0, 0, 1, 1, 2])
    uniform = rng.random() < 0.85
    rsets, used = [], {}
    for i in range(nrs):
        node = rng.choice(nodes) if rng.random() < 0.5 or not rsets else rsets[-1]['node']
        k = a if uniform else rng.choice([1, 2, 3])
        base = used.get(node, 0)
        ranks = [list(range(base + j * cpr, base + (j + 1) * cpr)) for j in range(k)]
        used[node] = base + k * cpr
        rsets.append({'node': node, 'ranks': ranks, 'gpus': list(range(ng)) if ng else []})
    return {'rsets': rsets, 'nranks': sum(len(r['ranks']) for r in rsets), 'cuda': bool(ng) and rng.random() < 0.6,
            'omp': rng.random() < 0.4}


def jsrun_monitor(t, c):
    bad = []
    n = t['nranks']
    if c.get('lm') == 'jsrun_erf':
        ids = [x for l in c['lines'] for x in l['ranks']]
        if sorted(ids) != list(range(n)):
            bad.append(('jsrun-erf:rank-ids-differ-from-the-ranks-of-the-task',
                        'the resource file names ranks %s, the task has %d ranks' % (ids, n)))
        want = [(r['node'], r['ranks'], r['gpus'], len(r['ranks'])) for r in t['rsets']]
        got  = [(l['host'], l['cpus'], l['gpus'], len(l['ranks'])) for l in c['lines']]
        if got != want:
            bad.append(('jsrun-erf:resource-sets-differ-from-placement', '%s vs %s' % (got, want)))
    elif c.get('lm') == 'jsrun':
        if len(set(len(r['ranks']) for r in t['rsets'])) == 1 and c['n'] * c['a'] != n:
            bad.append(('jsrun:process-count-differs', '-n%d -a%d for %d ranks' % (c['n'], c['a'], n)))
    return bad


def jsrun_part(ctx, rp, sbox, ops, impl, dist):
    rng = ctx.rng
    for i in range(ctx.n(80, 2500)):
        cfg = {'erf': i % 2 == 0, 'tpc': rng.choice([1, 1, 2, 4]), 'gpn': rng.choice([4, 6])}
        tasks = [gen_jsrun_task(rng, cfg) for _ in range(rng.randint(2, 4))]
        tasks.append(tasks[0])                      # the first task again: same file, same command
        o = make_jsrun(rp, cfg['erf'], cfg['tpc'], cfg['gpn'])
        parsed = []
        for k, t in enumerate(tasks):
            task = jsrun_task(rp, t, 'task.%06d' % (0 if k == len(tasks) - 1 else k), sbox)
            try:
                c = parse_jsrun(o.get_launch_cmds(task, 'EXEC'))
            except AssertionError as e:
                if 'rank:' in str(e) or 'jsrun' in str(e) or 'cpu_index' in str(e): raise
                c = {'err': 'Error'}
            except Exception:
                c = {'err': 'Error'}
            parsed.append(c)
            ops.append({'op': 'jsrun', 'erf': cfg['erf'], 'tpc': cfg['tpc'], 'gpn': cfg['gpn'], 'rsets': t['rsets'],
                        'nranks': t['nranks'], 'cuda': t['cuda'], 'omp': t['omp']})
            impl.append(c)
            dist['JSRUN'] = dist.get('JSRUN', 0) + 1
            ctx.case(ops[-1], nontrivial=len(t['rsets']) > 1 and any(len(r['ranks']) > 1 for r in t['rsets']))
            for sig, what in jsrun_monitor(t, c):
                ctx.fail(sig, what, {'lm': 'JSRUN', 'cfg': cfg, 'tasks': [t]}, observed=c)
        if parsed[0] != parsed[-1]:
            ctx.fail('jsrun:command-depends-on-earlier-tasks', '%s vs %s' % (parsed[0], parsed[-1]),
                     {'lm': 'JSRUN', 'cfg': cfg, 'tasks': tasks})


def gen_cfg(rng, lm):
    cfg = {'cpn': rng.choice([4, 8, 16]), 'node_idx': list(range(2, rng.choice([6, 10])))}
    if lm == 'FORK':   cfg.update({'localhost': 0, 'self': rng.choice([1, 10, 11, 12, 100, 5])})
    if lm == 'MPIRUN':
        v = rng.choice(['plain', 'plain', 'mpt', 'dplace', 'ccmrun', 'spectrum'])
        cfg.update({'mpt': v == 'mpt', 'dplace': v == 'dplace', 'ccmrun': v == 'ccmrun', 'spectrum': v == 'spectrum'})
    if lm == 'MPIEXEC':
        v = rng.choice(['rf', 'hf', 'pals', 'plain'])
        cfg.update({'use_rf': v == 'rf', 'use_hf': v == 'hf', 'pals': v == 'pals'})
    if lm == 'SRUN':   cfg.update({'vmajor': rng.choice([17, 18, 19, 23]), 'traverse': rng.random() < 0.2})
    if lm == 'IBRUN':  cfg.update({'tpn': rng.choice([0, 0, 4, 8])})
    return cfg


def run_registry(rp, names, sbox):
    """launch methods of ONE family in several flavours (MPIRUN, MPIRUN_MPT, MPIRUN_DPLACE ... - a platform may configure
    more than one) created one after the other through the REAL LaunchMethod.__init__ against one registry (in memory),
    with the tools they look for on the PATH; each then writes the command for a task of 3 ranks placed 2 + 1.  Returns
    the command per flavour."""
    import radical.utils as ru
    import radical.pilot.agent.launch_method.base as lmb
    from radical.pilot.agent.launch_method.mpirun import MPIRun
    bindir = os.path.join(sbox, 'lm_bin')
    os.makedirs(bindir, exist_ok=True)
    for tool in ('mpirun', 'omplace', 'dplace', 'ccmrun'):
        fn = os.path.join(bindir, tool)
        with open(fn, 'w') as fh: fh.write('#!/bin/sh\necho "mpirun (Open MPI) 4.1.0"\n')
        os.chmod(fn, 0o755)
    store = {}
    class Reg(object):
        def __init__(self, url=None, **kw): pass
        def get(self, k): return copy.deepcopy(store.get(k))
        def put(self, k, v): store[k] = copy.deepcopy(v)
        def close(self): pass
    saved = (ru.zmq.RegistryClient, ru.env_eval, ru.env_prep, lmb.LaunchMethod._init_from_scratch, os.environ.get('PATH', ''))
    ru.zmq.RegistryClient, ru.env_eval, ru.env_prep = Reg, (lambda *a, **k: {}), (lambda *a, **k: {})
    # (the inspection normally runs in a child process under the launcher's environment: here in this process)
    lmb.LaunchMethod._init_from_scratch = lambda self, env, env_sh: self.init_from_scratch(env, env_sh)
    os.environ['PATH'] = bindir + ':' + saved[4]
    out = {}
    try:
        t = {'ranks': 3, 'cpr': 1, 'gpus': 0, 'use_mpi': True, 'exe': True,
             'slots': [{'node': 2, 'host': 2, 'cores': [0], 'gpus': []}, {'node': 2, 'host': 2, 'cores': [1], 'gpus': []},
                       {'node': 3, 'host': 3, 'cores': [0], 'gpus': []}]}
        for name in names:
            try:
                o = MPIRun(name, ru.Config(from_dict={'reg_addr': 'mem://reg', 'pre_exec': [], 'pre_exec_cached': [], 'options': {},
                                                        'resource': 'local.localhost'}),
                           RMInfoStub(8, list(range(2, 10))), rpload.NullLog(), rpload.NullLog())
                out[name] = o.get_launch_cmds(make_task(rp, t, 'task.000000', sbox), 'EXEC').replace(bindir + '/', '')
            except Exception as e:
                out[name] = 'raised %s' % type(e).__name__
    finally:
        ru.zmq.RegistryClient, ru.env_eval, ru.env_prep, lmb.LaunchMethod._init_from_scratch = saved[:4]
        os.environ['PATH'] = saved[4]
    return out


REG_FLAVOURS = ['MPIRUN', 'MPIRUN_MPT', 'MPIRUN_DPLACE', 'MPIRUN_CCMRUN', 'MPIRUN_RSH']


def registry_part(ctx, rp, sbox):
    import itertools
    alone = {n: run_registry(rp, [n], sbox)[n] for n in REG_FLAVOURS}
    n = 0
    for a, b in itertools.permutations(REG_FLAVOURS, 2):
        got = run_registry(rp, [a, b], sbox)
        n += 1
        ctx.case({'registry': [a, b]}, nontrivial=True)
        for name in (a, b):
            if got[name] != alone[name]:
                ctx.fail('launch-method:command-depends-on-the-flavours-created-before',
                         '%s created %s %s writes `%s`; created alone it writes `%s`' % (name, 'after' if name == b else 'before', a if name == b else b, got[name], alone[name]),
                         {'kind': 'registry', 'names': [a, b]})
                break
    if any(v.startswith('raised') for v in alone.values()):
        ctx.fail('launch-method:creation-through-the-registry-raises', str(alone), {'kind': 'registry', 'names': REG_FLAVOURS[:1]})
    ctx.obligation('launch methods of one family in two flavours created through the real LaunchMethod.__init__ against one registry: each writes '
                   'the command it writes when created alone (%d ordered pairs)' % n, 'tie', True, '')


def run(ctx):
    rp  = rpload.load()
    rng = ctx.rng
    sbox = tempfile.mkdtemp(prefix='c09_')
    registry_part(ctx, rp, sbox)
    ops, impl = [], []
    dist = {lm: 0 for lm in LMS}
    dist.update({'errors': 0, 'tasks': 0, 'multi_node': 0, 'holes': 0, 'hostfile': 0, 'cannot': 0})
    try:
        for i in range(ctx.n(400, 12000)):
            lm  = LMS[i % len(LMS)]
            cfg = gen_cfg(rng, lm)
            tasks = [gen_task(rng, lm, cfg) for _ in range(rng.randint(2, 5))]
            # the first task comes back at the end: a launcher that keeps something of the tasks in
            # between answers differently the second time
            if lm == 'SRUN' and rng.random() < 0.5:
                # two placements over more than 42 nodes for one task: the node file must be the second one's
                tasks[0] = gen_task(rng, lm, cfg, force_n=rng.choice([43, 46, 50]))
                tasks.append(dict(gen_task(rng, lm, cfg, force_n=rng.choice([43, 45, 50])), _uid=0))
            else:
                tasks.append(dict(tasks[1], _uid=0))
            tasks.append(tasks[0])
            res, raw = run_real(rp, lm, cfg, tasks, sbox)
            if raw[0] is not None and raw[-1] is not None:
                a = raw[0].replace('task.%06d' % 0, 'T'); b = raw[-1].replace('task.%06d' % (len(tasks) - 1), 'T')
                if a != b:
                    ctx.fail('%s:command-depends-on-earlier-tasks' % lm.lower(),
                             'first answer %r, answer for the same task after %d other tasks %r' % (a, len(tasks) - 2, b),
                             {'lm': lm, 'cfg': cfg, 'tasks': tasks})
            fresh, _ = run_real(rp, lm, cfg, [tasks[-2]], sbox)
            if canon_real(fresh[0]) != canon_real(res[-2]):
                ctx.fail('%s:command-depends-on-earlier-tasks' % lm.lower(),
                         'a fresh launcher answers %s, the used one %s' % (fresh[0], res[-2]),
                         {'lm': lm, 'cfg': cfg, 'tasks': tasks})
            for t, r in zip(tasks, res):
                ops.append({'op': 'launch', 'lm': lm, 'cfg': cfg, 'task': t})
                impl.append(canon_real(r))
                dist[lm] += 1; dist['tasks'] += 1
                if 'err' in r['cmd']: dist['errors'] += 1
                if not r['can']: dist['cannot'] += 1
                if len(set(s['host'] for s in t['slots'])) > 1: dist['multi_node'] += 1
                if any(s['cores'] and s['cores'] != list(range(s['cores'][0], s['cores'][0] + len(s['cores']))) for s in t['slots']): dist['holes'] += 1
                if len(t['slots']) > 42: dist['hostfile'] += 1
                ctx.case(ops[-1], nontrivial='err' not in r['cmd'] and len(t['slots']) > 0)
                if r['can']:
                    for sig, what in monitor(lm, cfg, t, r['cmd']):
                        ctx.fail(sig, what, {'lm': lm, 'cfg': cfg, 'tasks': [t]}, observed=r['cmd'])
        jops, jimpl = [], []
        jsrun_part(ctx, rp, sbox, jops, jimpl, dist)
        # find_launcher: first launcher of the configured order that accepts the task
        fops, fimpl = [], []
        from radical.pilot.agent.resource_manager.base import ResourceManager
        for i in range(ctx.n(150, 3000)):
            order = rng.sample(LMS, rng.randint(1, 5))
            cfgs  = {lm: gen_cfg(rng, lm) for lm in order}
            rm = object.__new__(ResourceManager)
            rm._log = rpload.NullLog()
            rm._launch_order = list(order)
            rm._launchers = {lm: make_lm(rp, lm, cfgs[lm], sbox) for lm in order}
            # one resource manager serves the whole workload: several tasks in a row, judged against the CONFIGURED
            # order (what a task gets must not depend on the tasks looked up before it)
            seq = []
            for k in range(rng.choice([1, 2, 3, 4])):
                lmc   = rng.choice(order)
                t     = gen_task(rng, lmc, cfgs[lmc])
                seq.append(t)
                task = make_task(rp, t, 'task.%06d' % (10 * i + k), sbox)
                cans = []
                ok = True
                for lm in order:
                    try: cans.append(bool(rm._launchers[lm].can_launch(task)[0]))
                    except IndexError: ok = False; break
                if not ok: break
                l, name = rm.find_launcher(task)
                fops.append({'op': 'find', 'order': [[LMS.index(lm), c] for lm, c in zip(order, cans)]})
                fimpl.append(LMS.index(name) if name else None)
                ctx.case(fops[-1], nontrivial=name is not None and name != order[0])
                if name is not None and (not cans[order.index(name)] or any(cans[:order.index(name)])):
                    ctx.fail('find_launcher:not-the-first-capable', '%s of configured order %s %s (task %d looked up on this resource manager)'
                             % (name, order, cans, k + 1), {'lm': 'find', 'order': order, 'cfgs': cfgs, 'tasks': list(seq)})
                if name is None and any(cans):
                    ctx.fail('find_launcher:capable-launcher-skipped', '%s %s' % (order, cans), {'lm': 'find', 'order': order, 'cfgs': cfgs, 'tasks': list(seq)})
    finally:
        shutil.rmtree(sbox, ignore_errors=True)
    ctx.extra['distribution'] = dist
    ctx.sample({'op': ops[1], 'real': impl[1]}, limit=1)
    common.compare(ctx, 'launch', ops, impl, what='real launch methods: can_launch and parsed get_launch_cmds (+ host/rank/node files) per task')
    ibrun_chain_part(ctx, rp, sbox)
    common.compare(ctx, 'launch', jops, jimpl, what='real JSRUN (resource set flags and explicit resource file) per task')
    common.compare(ctx, 'launch', fops, fimpl, what='ResourceManager.find_launcher over real launchers')
    ctx.rule = ('per launch method and flavour (MPT/dplace/ccmrun/Spectrum; rank file/host file/PALS; Slurm versions, traverse; '
                'tasks_per_node option): sequences of 3-6 tasks on one launcher instance, 0-6 (and 43/50) ranks, ranks grouped '
                'by node or shuffled, first-free or scattered cores (holes), empty core lists, slots/ranks mismatch, no '
                'executable, use_mpi None/True/False; non-trivial = a command was produced for a placed task')
    ctx.assume += ['what mpirun/mpiexec/srun/prun/ibrun/aprun/ssh do with a command is the interpretation written in '
                   'Model/Launch.lean `procsOn`/`procCount` (trusted); the monitor re-implements it independently',
                   'PALS placements that are not filled host by host, and IBRUN placements that are not consecutive task slots, are tied to the model but not judged',
                   'JSRUN: the node placement of the resource-set flags is left to jsrun (count only); FLUX and DRAGON are not covered']
    ctx.trusted += ['harness/props/c09.py: command parser, RMInfo stub, lm_info records']


def replay(ctx, data):
    rp = rpload.load()
    i  = data['input']
    if i.get('kind') == 'registry':
        sbox = tempfile.mkdtemp(prefix='c09_')
        try:
            alone = {n: run_registry(rp, [n], sbox)[n] for n in i['names']}
            got = run_registry(rp, i['names'], sbox)
        finally:
            shutil.rmtree(sbox, ignore_errors=True)
        print('alone:', alone); print('together:', got)
        return got == alone and not any(v.startswith('raised') for v in alone.values())
    if 'ibrun_chain' in i:
        c = i['ibrun_chain']
        sbox = tempfile.mkdtemp(prefix='c09_')
        try:
            r = ibrun_chain(rp, c['nalloc'], c['agent_nodes'], c['service'], c['tpn'], sbox)
        finally:
            shutil.rmtree(sbox, ignore_errors=True)
        print(r)
        return not isinstance(r, str) and all(off == idx * t for idx, off, t in r)
    if i.get('lm') == 'find':
        if 'tasks' not in i: return False
        from radical.pilot.agent.resource_manager.base import ResourceManager
        sbox = tempfile.mkdtemp(prefix='c09_')
        try:
            order = i['order']
            rm = object.__new__(ResourceManager)
            rm._log = rpload.NullLog()
            rm._launch_order = list(order)
            rm._launchers = {lm: make_lm(rp, lm, i['cfgs'][lm], sbox) for lm in order}
            ok = True
            for k, t in enumerate(i['tasks']):
                task = make_task(rp, t, 'task.%06d' % k, sbox)
                cans = [bool(rm._launchers[lm].can_launch(task)[0]) for lm in order]
                l, name = rm.find_launcher(task)
                first = next((lm for lm, c in zip(order, cans) if c), None)
                print('task', k + 1, 'configured order', order, 'can launch', cans, '->', name, '(order now %s)' % rm._launch_order)
                ok = ok and name == first
            return ok
        finally:
            shutil.rmtree(sbox, ignore_errors=True)
    sbox = tempfile.mkdtemp(prefix='c09_')
    try:
        if i['lm'] == 'JSRUN':
            o = make_jsrun(rp, i['cfg']['erf'], i['cfg']['tpc'], i['cfg']['gpn'])
            bad, parsed = [], []
            for k, t in enumerate(i['tasks']):
                c = parse_jsrun(o.get_launch_cmds(jsrun_task(rp, t, 'task.%06d' % (0 if k == len(i['tasks']) - 1 else k), sbox), 'EXEC'))
                print(c); parsed.append(c)
                bad += jsrun_monitor(t, c)
            if len(parsed) > 1 and i['tasks'][0] == i['tasks'][-1] and parsed[0] != parsed[-1]:
                bad.append(('command-depends-on-earlier-tasks', ''))
            print(bad)
            return not bad
        res, raw = run_real(rp, i['lm'], i['cfg'], i['tasks'], sbox)
        bad = []
        for t, r in zip(i['tasks'], res):
            print(r)
            if r['can']: bad += monitor(i['lm'], i['cfg'], t, r['cmd'])
        if len(i['tasks']) > 1 and raw[0] is not None and raw[-1] is not None and i['tasks'][0] == i['tasks'][-1]:
            a = raw[0].replace('task.%06d' % 0, 'T'); b = raw[-1].replace('task.%06d' % (len(i['tasks']) - 1), 'T')
            if a != b: bad.append(('command-depends-on-earlier-tasks', '%r vs %r' % (a, b)))
        print(bad)
        return not bad
    finally:
        shutil.rmtree(sbox, ignore_errors=True)
