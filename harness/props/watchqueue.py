"""The intake of the executor's process watcher (C07): the REAL Popen._watch loop in its own thread, released for
exactly one pass at a time (`_term.is_set()` is the rendezvous), with `_check_running` replaced by a recorder that is
told which processes have exited.  Bursts of launched tasks (more than the bulk limit of one pass among them) are put
on `_watch_queue` between passes.

Monitor: no launched task is left behind - every task put on the queue shows up in the watch list of some pass
(within the number of passes the bulk limit allows) and is collected once after its process exited."""

import queue
import threading as mt

import rpload
import common


class PassGate(object):
    def __init__(self):
        self.go, self.idle = mt.Semaphore(0), mt.Semaphore(0)
        self.stop = False
    def is_set(self):
        self.idle.release()
        self.go.acquire()
        return self.stop


def run_real(rp, ops):
    """ops: ['enq', [uids]] | ['pass', [uids whose process has exited by then]]"""
    import radical.pilot.agent.executing.popen as popen_mod
    from radical.pilot.agent.executing.popen import Popen
    p = object.__new__(Popen)
    p._log, p._prof = rpload.NullLog(), rpload.NullLog()
    p._watch_queue = queue.Queue()
    gate = PassGate()
    p._term = gate
    state = {'exited': set(), 'seen': None}
    def check_running(to_watch):
        state['seen'] = [t['uid'] for t in to_watch]
        for t in list(to_watch):
            if t['uid'] in state['exited']:
                to_watch.remove(t)
    p._check_running = check_running
    class NoSleep(object):
        def __getattr__(self, n): return getattr(real_time, n)
        def sleep(self, s): pass
    real_time = popen_mod.time
    popen_mod.time = NoSleep()
    try:
        th = mt.Thread(target=p._watch, daemon=True)
        th.start()
        gate.idle.acquire()
        out = []
        for op in ops:
            if op[0] == 'enq':
                for u in op[1]: p._watch_queue.put({'uid': u})
                out.append({'seen': [], 'queued': p._watch_queue.qsize()})
            else:
                state['exited'] = set(op[1]); state['seen'] = None
                gate.go.release()
                if not gate.idle.acquire(timeout=20):
                    out.append({'seen': 'watcher-thread-died', 'queued': p._watch_queue.qsize()}); break
                if not th.is_alive():
                    out.append({'seen': 'watcher-thread-died', 'queued': p._watch_queue.qsize()}); break
                out.append({'seen': state['seen'], 'queued': p._watch_queue.qsize()})
        gate.stop = True
        gate.go.release()
        th.join(5)
        return out
    finally:
        popen_mod.time = real_time


def limit_of(rp):
    """MAX_QUEUE_BULKSIZE as written in Popen._watch"""
    import ast, os
    src = open(os.path.join(common.SRC, 'agent', 'executing', 'popen.py')).read()
    for n in ast.walk(ast.parse(src)):
        if isinstance(n, ast.Assign) and len(n.targets) == 1 and isinstance(n.targets[0], ast.Name) \
           and n.targets[0].id == 'MAX_QUEUE_BULKSIZE' and isinstance(n.value, ast.Constant):
            return int(n.value.value)
    return 100


def gen(rng, limit):
    ops, uid, live = [], 0, []
    for _ in range(rng.randint(2, 7)):
        n = rng.choice([1, 3, limit - 1, limit, limit + 1, limit + 1, 2 * limit + 30, 40])
        us = list(range(uid, uid + n)); uid += n; live += us
        ops.append(['enq', us])
        for _ in range(rng.randint(1, 3)):
            ex = [u for u in live if rng.random() < 0.3]
            ops.append(['pass', ex])
    # enough quiet passes to drain whatever is still queued, then everything exits
    for _ in range(uid // limit + 2):
        ops.append(['pass', []])
    ops.append(['pass', list(range(uid))])
    return ops


def monitor(ops, out, limit):
    if any(o['seen'] == 'watcher-thread-died' for o in out):
        return ('watch-queue:watcher-thread-died', 'the watcher thread ended')
    enq, seen_ever, collected = [], set(), {}
    watching = set()
    for op, o in zip(ops, out):
        if op[0] == 'enq':
            enq += op[1]
        else:
            now = set(o['seen'] or [])
            seen_ever |= now
            for u in now & set(op[1]):
                collected[u] = collected.get(u, 0) + 1
    if len(out) < len(ops):
        return ('watch-queue:run-ended-early', '')
    lost = [u for u in enq if u not in seen_ever]
    if lost:
        return ('watch-queue:launched-task-never-watched', 'tasks %s were put on the watch queue and never reached the watch list '
                '(%d enqueued, queue empty at the end: %s)' % (lost[:5], len(enq), out[-1]['queued'] == 0))
    twice = [u for u, c in collected.items() if c > 1]
    if twice:
        return ('watch-queue:task-collected-twice', str(twice[:5]))
    miss = [u for u in enq if collected.get(u, 0) != 1]
    if miss:
        return ('watch-queue:exited-task-never-collected', str(miss[:5]))
    return None


def model_op(ops, limit):
    return {'op': 'watchqueue', 'limit': limit, 'ops': ops}


def run(ctx, prop):
    rp = rpload.load()
    limit = limit_of(rp)
    cases = [[['enq', list(range(limit + 1))], ['pass', []], ['pass', []], ['pass', list(range(limit + 1))]]]
    cases += [gen(ctx.rng, limit) for _ in range(ctx.n(25, 600))]
    mops, impl = [], []
    big = 0
    for ops in cases:
        out = run_real(rp, ops)
        mops.append(model_op(ops, limit)); impl.append(out)
        over = any(op[0] == 'enq' and len(op[1]) > limit for op in ops)
        big += over
        ctx.case({'watch_queue': [[op[0], len(op[1])] for op in ops]}, nontrivial=over)
        bad = monitor(ops, out, limit)
        if bad:
            ctx.fail(bad[0], bad[1], {'watch_queue': ops, 'limit': limit})
    ctx.extra['watch_queue_cases_over_the_bulk_limit'] = big
    common.compare(ctx, 'watchqueue', mops, impl,
                   what='real Popen._watch, one pass at a time: watch list handed to _check_running and queue length per pass (bulk limit %d)' % limit)
    ctx.trusted += ['harness/props/watchqueue.py (real _watch loop, recorder in place of _check_running)']


def replay(ctx, data, prop):
    rp = rpload.load()
    ops = data['input']['watch_queue']
    out = run_real(rp, ops)
    bad = monitor(ops, out, data['input'].get('limit', 100))
    print([(o['queued'], len(o['seen']) if isinstance(o['seen'], list) else o['seen']) for o in out], bad)
    return not bad
