"""C11 — Staging directives move the named data to the named place.

The four real staging components (stagelib) run bulks of tasks on a scratch tree.
Tie: short-form expansion (real expand_staging_directives) vs Staging.expandStr /
expandDict; real complete_url in the four pairs of contexts vs Staging.completeUrl;
the file tree and the final task state after the real pipeline vs Staging.pipeline
(with the action tables the translator reads off the sources).  Monitor: for every
task that passed input staging every input target holds the content of its source at
the documented location; the same for outputs of DONE tasks (and of failed ones with
stage_on_error); nothing is staged out for other failed tasks; a directive that
cannot be carried out fails its own task only."""

import os
import io
import copy
import shutil
import tarfile
import tempfile

import common
import rpload
import stagelib
import translate

ACTIONS = ['Transfer', 'Copy', 'Link', 'Move', 'Tarball']


def segs(path):
    out = []
    for s in path.split('/'):
        if s in ('', '.'): continue
        if s == '..':
            if out: out.pop()
            continue
        out.append(s)
    return out


def content_of(i):
    """what the file with id i holds: its id, and - files come in all sizes - nothing more, a few kB or a few tens of kB"""
    return 'c%d' % i + ['', '\n' + 'x' * 5000, '\n' + 'y' * 40000][i % 3]


class Scene(object):
    """files that exist before staging, per location"""
    def __init__(self, rng, tree):
        self.tree, self.n = tree, 1000        # all contents ('c1001', ...) have the same length
        self.files = {}     # abs path -> id
        self.rng = rng

    def new_file(self, d, name=None):
        self.n += 1
        # (one name in eight carries a blank and parentheses: legal file names)
        name = name or ('f%d.dat' % self.n if self.rng.random() > 0.125 else 'f %d (v2).dat' % self.n)
        p = os.path.join(d, name)
        self.files[p] = self.n
        return p

    def write(self):
        for p, i in self.files.items():
            os.makedirs(os.path.dirname(p), exist_ok=True)
            with open(p, 'w') as f: f.write(content_of(i))


def base_of(tree, tsbox, schema):
    return {'client': tree.client, 'task': tsbox, 'pilot': tree.psbox, 'session': tree.ssbox, 'resource': tree.rsbox,
            'endpoint': '/'}[schema]


def ref(rng, tree, tsbox, abspath, default_base):
    """a way to name `abspath` in a directive: relative to the default, by schema, file://, absolute"""
    forms = []
    for schema in ('client', 'task', 'pilot', 'session', 'resource', 'endpoint'):
        b = base_of(tree, tsbox, schema).rstrip('/')
        if abspath.startswith(b + '/') or b == '':
            forms.append('%s:///%s' % (schema, abspath[len(b) + 1:]))
    if abspath.startswith(default_base.rstrip('/') + '/'):
        forms += [abspath[len(default_base.rstrip('/')) + 1:]] * 3
    forms += ['file://localhost' + abspath, abspath]
    return rng.choice(forms)


def gen_task(rng, tree, scene, k, agent_only=False):
    uid   = 'task.%06d' % k
    tsbox = tree.psbox + '/' + uid
    ins, outs, produce = [], [], {}
    ndir = 0
    used_targets = set()
    info = {'in': [], 'out': []}       # (index, source abs, target abs, action, expect_ok) for the monitor
    for _ in range(rng.choice([0, 1, 1, 2, 3, 4])):
        action = rng.choice(ACTIONS + ['Transfer', 'Transfer']) if not agent_only else rng.choice(['Copy', 'Copy', 'Link', 'Move'])
        missing = rng.random() < 0.08
        if action in ('Transfer', 'Tarball'):
            src_dir, dflt = rng.choice([tree.client, tree.client + '/data']), tree.client
        else:
            src_dir, dflt = rng.choice([tree.psbox + '/shared', tree.rsbox + '/common', tree.ssbox]), tsbox
        src = scene.new_file(src_dir)
        if missing: del scene.files[src]
        tname = rng.choice(['', '', 'in_%d.dat' % scene.n, 'sub/in_%d.dat' % scene.n, 'deep/er/x%d' % scene.n])
        tgt_abs = os.path.join(tsbox, tname or os.path.basename(src))
        if rng.random() < 0.15:
            # (also for TARBALL directives: the archive is unpacked on the agent side wherever its members point)
            tgt_abs = os.path.join(tree.psbox, 'staged', 'p%d.dat' % scene.n); tname = 'x'
        # the target in directory form (`in.dat > inputs/`): the source goes INTO that directory under its own name
        dirform = None
        if action != 'Tarball' and rng.random() < 0.18:
            dirform = os.path.join(rng.choice([tsbox, tsbox, tree.psbox + '/staged']), rng.choice(['inputs_%d' % k, 'dir_%d/in' % scene.n]))
            tgt_abs = os.path.join(dirform, os.path.basename(src)); tname = 'x'
        if tgt_abs in used_targets: continue
        used_targets.add(tgt_abs)
        if action in ('Transfer', 'Copy', 'Move', 'Tarball') and rng.random() < 0.2 and not (dirform and action == 'Move'):
            # the target already exists with other content of the same length (an earlier task staged it)
            scene.n += 1; scene.files[tgt_abs] = scene.n
        s_ref = ref(rng, tree, tsbox, src, dflt)
        t_ref = ref(rng, tree, tsbox, tgt_abs, tsbox) if tname else None
        if dirform: t_ref = ref(rng, tree, tsbox, dirform, tsbox) + '/'
        if dirform and action == 'Link' and '://' not in t_ref:
            # (a target without schema that exists as a directory is rewritten to <dir>/<name> by the agent side stager
            #  before anything else - then a LINK into it works; the LINK-onto-a-directory case is written with a schema)
            t_ref = 'file://localhost' + dirform + '/'
        if action == 'Transfer' and rng.random() < 0.6 and '://' not in s_ref and (t_ref is None or '://' not in t_ref or True):
            # string short forms
            if t_ref is None: sd = s_ref
            else:
                form = rng.choice(['%s > %s', '%s >> %s', '%s>%s', '  %s  >  %s  '])
                sd = form % (s_ref, t_ref) if rng.random() < 0.6 else rng.choice(['%s < %s', '%s << %s']) % (t_ref, s_ref)
        else:
            sd = {'source': s_ref, 'action': action}
            if t_ref is not None: sd['target'] = t_ref
            if action == 'Transfer' and rng.random() < 0.5: del sd['action']
        ins.append(sd); ndir += bool(dirform)
        info['in'].append((len(ins) - 1, src, tgt_abs, action, not missing and not (dirform and action == 'Link')))
    for _ in range(rng.choice([0, 1, 1, 2, 3])):
        action = rng.choice(['Transfer', 'Transfer', 'Copy', 'Link', 'Move']) if not agent_only else rng.choice(['Copy', 'Copy', 'Link', 'Move'])
        scene.n += 1
        oname = rng.choice(['out_%d.dat', 'res/out_%d.dat']) % scene.n
        src = os.path.join(tsbox, oname)
        missing = rng.random() < 0.08
        if not missing: produce[oname] = scene.n
        if action == 'Transfer':
            tdir, dflt = rng.choice([tree.client, tree.client + '/results']), tree.client
        else:
            tdir, dflt = rng.choice([tree.psbox + '/keep', tree.ssbox + '/keep', tsbox + '/copy']), tsbox
        explicit = rng.random() < 0.6 or tdir != dflt
        tgt_abs = os.path.join(tdir, 'o%d.dat' % scene.n) if explicit else os.path.join(dflt, os.path.basename(oname))
        dirform = None
        if action != 'Link' and rng.random() < 0.18:
            dirform = os.path.join(tdir, 'results_%d' % k); explicit = True
            tgt_abs = os.path.join(dirform, os.path.basename(oname))
        if tgt_abs in used_targets or tgt_abs == src: continue
        used_targets.add(tgt_abs)
        if action in ('Transfer', 'Copy', 'Move') and rng.random() < 0.2 and not (dirform and action == 'Move'):
            scene.n += 1; scene.files[tgt_abs] = scene.n
        s_ref = ref(rng, tree, tsbox, src, tsbox)
        t_ref = ref(rng, tree, tsbox, tgt_abs, dflt) if explicit else None
        if dirform: t_ref = ref(rng, tree, tsbox, dirform, dflt) + '/'
        if action == 'Transfer' and rng.random() < 0.5:
            sd = s_ref if t_ref is None else '%s > %s' % (s_ref, t_ref)
        else:
            sd = {'source': s_ref, 'action': action}
            if t_ref is not None: sd['target'] = t_ref
        outs.append(sd); ndir += bool(dirform)
        info['out'].append((len(outs) - 1, src, tgt_abs, action, not missing))
    outcome = rng.choice(['DONE', 'DONE', 'DONE', 'FAILED', 'CANCELED'])
    descr = {'executable': '/bin/true', 'input_staging': ins, 'output_staging': outs,
             'stage_on_error': rng.random() < 0.4}
    return {'uid': uid, 'descr': descr, 'outcome': outcome, 'produce': produce, 'info': info, 'tsbox': tsbox, 'pilot': rng.choice([0, 0, 1]), 'ndir': ndir}


def read_tree(tree, ids):
    """[[segments, content]] of every file under the scratch root; tar files as their member list"""
    out = []
    for dp, dns, fns in os.walk(tree.root):
        for fn in fns:
            p = os.path.join(dp, fn)
            if os.path.islink(p) and not os.path.exists(p):
                out.append([segs(p), -3])            # a link that points nowhere: an entry without content
                continue
            with open(p, 'rb') as f: data = f.read()
            if fn.endswith('.tar'):
                try:
                    tf = tarfile.open(fileobj=io.BytesIO(data))
                    ents = []
                    for m in tf.getmembers():
                        if m.isfile():
                            ents.append([segs('/' + m.name), ids.get(tf.extractfile(m).read().decode(), -1)])
                    c = {'tar': ents}
                except Exception:
                    c = -2
            else:
                c = ids.get(data.decode('utf8', 'replace'), -1)
            out.append([segs(p), c])
    return sorted(out, key=lambda e: e[0])


def boxes(tree, t):
    return {'client': t['client_sandbox'], 'endpoint': t['endpoint_fs'], 'resource': t['resource_sandbox'],
            'session': t['session_sandbox'], 'pilot': t['pilot_sandbox'], 'task': t['task_sandbox']}


def contexts(t):
    b = {'client': t['client_sandbox'], 'task': t['task_sandbox'], 'pilot': t['pilot_sandbox'], 'session': t['session_sandbox'],
         'resource': t['resource_sandbox'], 'endpoint': t['endpoint_fs']}
    def mk(pwd, client=True):
        c = {'pwd': pwd}
        c.update({k: v for k, v in b.items() if client or k != 'client'})
        return c
    def fileurl(u):
        import radical.utils as ru
        x = ru.Url(u); x.schema = 'file'; x.host = 'localhost'; return str(x)
    ag = {k: fileurl(v) for k, v in b.items() if k != 'client'}
    ag = dict([('pwd', ag['task'])] + list(ag.items()))
    return {'client_in_src': mk(b['client']), 'client_in_tgt': mk(b['task']), 'agent': ag,
            'client_out_src': mk(b['task']), 'client_out_tgt': mk(b['client'])}


def run_two_sessions(rp, nfiles, interleave):
    """two sessions on one client host, each with a task manager staging a task with the SAME uid (every session has
    a task.000000) through the real tmgr staging_input Default with Tarball directives, then the real agent
    staging_input.  With `interleave`, session B's whole client-side staging runs while A is between packing and
    shipping its tarball (B's stager is entered from A's first transfer).  Returns per session what its task
    sandbox holds for each directive target, and the state its task is in after input staging."""
    import copy, shutil
    roots = [tempfile.mkdtemp(prefix='c11_two_') for _ in range(2)]
    cwd = os.getcwd()
    try:
        trees = [stagelib.Tree(r, sid='rp.session.verif.%04d' % k) for k, r in enumerate(roots)]
        uid, tasks, want, comps = 'task.000000', [], [], []
        for k, tree in enumerate(trees):
            sds, w = [], {}
            for i in range(nfiles[k]):
                name = 'in_%d_%d.dat' % (k, i)
                with open(os.path.join(tree.client, name), 'w') as f: f.write('session %d file %d' % (k, i))
                sds.append({'source': 'client:///' + name, 'target': 'task:///got_%d.dat' % i, 'action': 'Tarball'})
                w['got_%d.dat' % i] = 'session %d file %d' % (k, i)
            d = {'executable': '/bin/true', 'input_staging': sds, 'output_staging': [], 'stage_on_error': False}
            tasks.append(tree.task_dict(rp, uid, d)); want.append(w)
            comps.append(stagelib.make_stagers(rp, tree))
        tinA, tinB = comps[0][0], comps[1][0]
        fired = []
        if interleave:
            orig = tinA._stager.handle_staging_directive
            def hooked(sd):
                if not fired:
                    fired.append(True)
                    here = os.getcwd(); os.chdir(trees[1].client)
                    try:     tinB.work([tasks[1]])
                    finally: os.chdir(here)
                return orig(sd)
            tinA._stager.handle_staging_directive = hooked
        os.chdir(trees[0].client); tinA.work([tasks[0]])
        if not fired:
            os.chdir(trees[1].client); tinB.work([tasks[1]])
        res = []
        for k, tree in enumerate(trees):
            tin, ain = comps[k][0], comps[k][1]
            st = stagelib.last_state(tin, uid)
            if st == 'AGENT_STAGING_INPUT_PENDING':
                os.chdir(tree.psbox)
                t2 = copy.deepcopy(tasks[k]); ain.work([t2])
                st = stagelib.last_state(ain, uid)
            got = {}
            for name in want[k]:
                p = os.path.join(tasks[k]['task_sandbox_path'], name)
                got[name] = open(p).read() if os.path.isfile(p) else None
            res.append({'state': st, 'got': got, 'want': want[k]})
        return res
    finally:
        os.chdir(cwd)
        for r in roots: shutil.rmtree(r, ignore_errors=True)


def two_sessions_monitor(res):
    for k, r in enumerate(res):
        if r['state'] != 'AGENT_SCHEDULING_PENDING':
            return ('two-sessions:input-staging-fails-although-all-sources-exist', 'session %d: task.000000 ended input staging in %s' % (k, r['state']))
        for name, c in r['want'].items():
            if r['got'].get(name) != c:
                return ('two-sessions:input-target-does-not-hold-its-source',
                        'session %d: %s holds %r, its source holds %r' % (k, name, r['got'].get(name), c))
    return None


def run_session_sandboxes(rp, npilots, order):
    """one session with several pilots on the same resource: the REAL Session sandbox getters (as Pilot.__init__ and
    TMGRSchedulingComponent._assign_pilot call them) give every pilot its own sandbox, and a task bound to any of the
    pilots is staged (real client and agent input stagers) into that pilot's sandbox.
    `order`: the order in which the pilots' sandboxes are first asked for.  Returns per pilot what was observed."""
    import copy, shutil
    import threading as mt
    import radical.utils as ru
    from radical.pilot.tmgr.scheduler.base import TMGRSchedulingComponent
    root = tempfile.mkdtemp(prefix='c11_sbox_')
    cwd = os.getcwd()
    try:
        sid = 'rp.session.verif.0007'
        trees = [stagelib.Tree(root, sid=sid, pid='pilot.%04d' % k) for k in range(npilots)]
        sess = object.__new__(rp.Session)
        sess._uid, sess._log = sid, rpload.NullLog()
        sess._cache_lock = mt.RLock()
        sess._cache = {'endpoint_fs': {'local.localhost': ru.Url('file://localhost/')},
                       'resource_sandbox': {'local.localhost': ru.Url(trees[0].url(trees[0].rsbox))},
                       'session_sandbox': dict(), 'pilot_sandbox': dict(), 'client_sandbox': trees[0].client,
                       'js_shells': dict(), 'fs_dirs': dict()}
        pdicts = {}
        for k in order:
            pd = {'uid': 'pilot.%04d' % k, 'pilot_sandbox': '', 'description': {'resource': 'local.localhost', 'access_schema': 'local'}}
            # Pilot.__init__: the handle asks the session for its sandboxes and publishes them in its dict
            pd['pilot_sandbox'] = str(sess._get_pilot_sandbox(dict(pd, pilot_sandbox='')))
            pdicts[k] = pd
        sched = object.__new__(TMGRSchedulingComponent)
        sched._session, sched._log = sess, rpload.NullLog()
        sched._tasks, sched._tasks_lock = {}, mt.RLock()
        res = []
        with open(os.path.join(trees[0].client, 'in.dat'), 'w') as f: f.write('payload')
        for k in range(npilots):
            tree = trees[k]
            d = {'executable': '/bin/true', 'output_staging': [], 'stage_on_error': False,
                 'input_staging': [{'source': 'client:///in.dat', 'target': 'task:///got.dat', 'action': 'Transfer'},
                                   {'source': 'client:///in.dat', 'target': 'pilot:///shared_%d.dat' % k, 'action': 'Transfer'}]}
            task = tree.task_dict(rp, 'task.%06d' % k, d)
            for key in ('client_sandbox', 'endpoint_fs', 'resource_sandbox', 'session_sandbox', 'pilot_sandbox', 'task_sandbox', 'task_sandbox_path'):
                task.pop(key, None)
            sched._assign_pilot(task, pdicts[k])
            tin, ain = stagelib.make_stagers(rp, tree)[:2]
            os.chdir(tree.client); tin.work([task])
            st = stagelib.last_state(tin, task['uid'])
            if st == 'AGENT_STAGING_INPUT_PENDING':
                os.makedirs(tree.psbox, exist_ok=True)
                os.chdir(tree.psbox); ain.work([copy.deepcopy(task)])
                st = stagelib.last_state(ain, task['uid'])
            rd = lambda p: open(p).read() if os.path.isfile(p) else None
            res.append({'pilot': k, 'pilot_sandbox': ru.Url(task['pilot_sandbox']).path.rstrip('/'), 'want_sandbox': tree.psbox,
                        'state': st, 'task_file': rd(os.path.join(tree.psbox, task['uid'], 'got.dat')),
                        'pilot_file': rd(os.path.join(tree.psbox, 'shared_%d.dat' % k))})
        return res
    finally:
        os.chdir(cwd)
        shutil.rmtree(root, ignore_errors=True)


def session_sandboxes_monitor(res):
    boxes = [r['pilot_sandbox'] for r in res]
    for r in res:
        if os.path.realpath(r['pilot_sandbox']) != os.path.realpath(r['want_sandbox']):
            return ('session-sandboxes:pilot-gets-a-sandbox-that-is-not-its-own',
                    'pilot.%04d is given %s (expected <session sandbox>/pilot.%04d)' % (r['pilot'], r['pilot_sandbox'], r['pilot']))
        if r['state'] != 'AGENT_SCHEDULING_PENDING' or r['task_file'] != 'payload' or r['pilot_file'] != 'payload':
            return ('session-sandboxes:input-target-missing-in-the-sandbox-of-its-pilot',
                    'task of pilot.%04d: state %s, task:///got.dat %r, pilot:///shared %r' % (r['pilot'], r['state'], r['task_file'], r['pilot_file']))
    if len(set(boxes)) != len(boxes):
        return ('session-sandboxes:two-pilots-share-a-sandbox', str(boxes))
    return None


def session_sandboxes_part(ctx, rp):
    n = 0
    # which directory each pilot is given, for any order and repetition of the requests (real getter vs Staging.pilotSandboxes)
    import threading as mt
    import radical.utils as ru
    ops, impl = [], []
    for _ in range(ctx.n(40, 1000)):
        pids = [ctx.rng.randrange(5) for _ in range(ctx.rng.randint(1, 8))]
        sess = object.__new__(rp.Session)
        sess._uid, sess._log, sess._cache_lock = 'rp.session.verif.0007', rpload.NullLog(), mt.RLock()
        sess._cache = {'endpoint_fs': {}, 'resource_sandbox': {'local.localhost': ru.Url('file://localhost/scratch/radical.pilot.sandbox')},
                       'session_sandbox': dict(), 'pilot_sandbox': dict(), 'client_sandbox': '/client', 'js_shells': dict(), 'fs_dirs': dict()}
        got = []
        for k in pids:
            sb = sess._get_pilot_sandbox({'uid': 'pilot.%04d' % k, 'pilot_sandbox': '', 'description': {'resource': 'local.localhost'}})
            path = ru.Url(sb).path.rstrip('/')
            base = os.path.basename(path)
            ok = os.path.dirname(path) == '/scratch/radical.pilot.sandbox/rp.session.verif.0007' and base.startswith('pilot.')
            got.append(int(base.split('.')[1]) if ok else -1)
        ops.append({'op': 'sandboxes', 'pids': pids}); impl.append(got)
        ctx.case(ops[-1], nontrivial=len(set(pids)) > 1)
    common.compare(ctx, 'staging', ops, impl, what='real Session._get_pilot_sandbox over request sequences of several pilots')
    for npilots in (1, 2, 3):
        for order in ([list(range(npilots)), list(reversed(range(npilots)))] if npilots > 1 else [[0]]):
            res = run_session_sandboxes(rp, npilots, order)
            n += 1
            ctx.case({'session_sandboxes': [npilots, order]}, nontrivial=npilots > 1)
            bad = session_sandboxes_monitor(res)
            if bad:
                ctx.fail(bad[0], bad[1], {'kind': 'session_sandboxes', 'npilots': npilots, 'order': order}, observed=res)
    ctx.obligation('one session, 1-3 pilots on one resource (%d runs): the real sandbox getters give each pilot its own sandbox, tasks '
                   'are staged into the sandbox of the pilot they are bound to' % n, 'tie', True, '')


def run_two_bulks(rp, what):
    """two bulks served by the SAME stagers; between them a directory the first bulk's staging created goes away (the
    application renames its results directory; a task removes a directory it shares): the second bulk's directives name
    it again and are carried out all the same.  Returns the final states and whether the second bulk's targets exist."""
    root = tempfile.mkdtemp(prefix='c11_')
    try:
        tree = stagelib.Tree(root)
        with open(tree.psbox + '/shared.dat', 'w') as f: f.write('S')
        stagers = stagelib.make_stagers(rp, tree)
        def task(k):
            d = {'executable': '/bin/true', 'stage_on_error': False,
                 'input_staging': [{'source': 'pilot:///shared.dat', 'target': 'pilot:///pool/in_%d.dat' % k, 'action': 'Copy'}],
                 'output_staging': ['out.dat > results/r_%d.dat' % k]}
            return tree.task_dict(rp, 'task.%06d' % k, d)
        res = []
        for k in (0, 1):
            t = task(k)
            final, rec = stagelib.run_pipeline(rp, tree, [t], {t['uid']: 'DONE'}, {t['uid']: {'out.dat': 'O%d' % k}}, stagers=stagers)
            res.append({'state': final.get(t['uid']),
                        'in': os.path.exists(tree.psbox + '/pool/in_%d.dat' % k), 'out': os.path.exists(tree.client + '/results/r_%d.dat' % k)})
            if k == 0:
                if what in ('client', 'both'): os.rename(tree.client + '/results', tree.client + '/results.first')
                if what in ('pilot', 'both'):  shutil.rmtree(tree.psbox + '/pool')
        return res
    finally:
        shutil.rmtree(root, ignore_errors=True)


def two_bulks_part(ctx, rp):
    for what in ('none', 'client', 'pilot', 'both'):
        res = run_two_bulks(rp, what)
        ctx.case({'two_bulks': what}, nontrivial=what != 'none')
        want = {'state': 'DONE', 'in': True, 'out': True}
        if res[0] != want or res[1] != want:
            ctx.fail('two-bulks:directive-into-a-directory-that-went-away-not-carried-out',
                     'between two bulks served by the same stagers the %s director%s created by the first went away; the bulks ended %s'
                     % ({'none': 'no', 'client': 'results', 'pilot': 'pool', 'both': 'results and pool'}[what], 'y' if what in ('client', 'pilot') else 'ies', res),
                     {'kind': 'two_bulks', 'what': what})
    ctx.obligation('two bulks through the same four stagers with the directories of the first removed in between: all directives carried out', 'tie', True, '')


def two_sessions_part(ctx, rp):
    n = 0
    for _ in range(ctx.n(6, 60)):
        nfiles = [ctx.rng.randint(1, 3), ctx.rng.randint(1, 3)]
        for interleave in (False, True):
            res = run_two_sessions(rp, nfiles, interleave)
            n += 1
            ctx.case({'two_sessions': [nfiles, interleave]}, nontrivial=interleave)
            bad = two_sessions_monitor(res)
            if bad:
                ctx.fail(bad[0], bad[1], {'kind': 'two_sessions', 'nfiles': nfiles, 'interleave': interleave}, observed=res)
    ctx.obligation('two sessions staging a task of the same uid with Tarball directives, one after the other and interleaved '
                   '(%d runs of the real client and agent input stagers): each task sandbox holds its own sources' % n, 'tie', True, '')


def run(ctx):
    rp  = rpload.load()
    rng = ctx.rng
    two_sessions_part(ctx, rp)
    session_sandboxes_part(ctx, rp)
    two_bulks_part(ctx, rp)
    import radical.utils as ru
    from radical.pilot.staging_directives import expand_staging_directives, complete_url
    src = os.path.join(os.path.dirname(os.path.dirname(rp.__file__)), 'pilot') if False else os.path.dirname(rp.__file__)
    tables = translate.staging_tables(src)
    exp_ops, exp_impl, cu_ops, cu_impl, pl_ops, pl_impl = [], [], [], [], [], []
    dist = {'runs': 0, 'tasks': 0, 'directives': 0, 'short_forms': 0, 'tarball': 0, 'missing_source': 0, 'failed_tasks': 0,
            'stage_on_error_failed': 0, 'states': {}}
    nruns = ctx.n(60, 2500)
    for run_i in range(nruns):
        root = tempfile.mkdtemp(prefix='c11_')
        try:
            tree  = stagelib.Tree(root)
            scene = Scene(rng, tree)
            # a pilot on a remote resource: the sandboxes and the file system endpoint reach the agent as the client sees them
            # (sftp://login.host/...); the agent side stagers work on them as local paths.  Directives the agent side acts on only.
            remote = run_i >= len(CORPUS) and rng.random() < 0.15
            gts   = [gen_task(rng, tree, scene, k, agent_only=remote) for k in range(rng.choice([1, 1, 2, 3]))]
            if run_i < len(CORPUS):
                gts = CORPUS[run_i](tree, scene)
            dist['remote_pilot_runs'] = dist.get('remote_pilot_runs', 0) + remote
            scene.write()
            ids = {'c%d' % i: i for i in range(1, scene.n + 50)}
            ids.update({content_of(i): i for i in range(1, scene.n + 50)})
            tasks = []
            for g in gts:
                # short forms: the real expansion of each directive on its own, against the model
                for key in ('input_staging', 'output_staging'):
                    for sd in g['descr'][key]:
                        dist['directives'] += 1
                        if isinstance(sd, str):
                            dist['short_forms'] += 1
                            exp_ops.append({'op': 'expand', 'str': sd, 'default': tables['default_action']})
                        else:
                            exp_ops.append({'op': 'expand', 'dict': sd, 'default': tables['default_action']})
                            dist['tarball'] += sd.get('action') == 'Tarball'
                        try:
                            e = expand_staging_directives([copy.deepcopy(sd)])[0]
                            exp_impl.append({'source': e['source'], 'target': e['target'], 'action': e['action']})
                        except ValueError: exp_impl.append({'err': 'ValueError'})
                        except Exception:  exp_impl.append({'err': 'ValueError'})
                tasks.append(tree.task_dict(rp, g['uid'], g['descr'], pid='pilot.%04d' % g.get('pilot', 0)))
                if remote:
                    for key in ('endpoint_fs', 'resource_sandbox', 'session_sandbox', 'pilot_sandbox', 'task_sandbox'):
                        u = ru.Url(tasks[-1][key]); u.schema = 'sftp'; u.host = 'login.host'; tasks[-1][key] = str(u)
            before = read_tree(tree, ids)
            # URL completion of every source and target in every context it is completed in
            for t in tasks:
                cx = contexts(t)
                for key, cs, ct in (('input_staging', 'client_in_src', 'client_in_tgt'), ('input_staging', 'agent', 'agent'),
                                    ('output_staging', 'agent', 'agent'), ('output_staging', 'client_out_src', 'client_out_tgt')):
                    for sd in t['description'][key]:
                        for which, cn in (('source', cs), ('target', ct)):
                            p = sd[which]
                            if not p: continue
                            cu_ops.append({'op': 'complete', 'ctx': [[k, v] for k, v in cx[cn].items()], 'p': p})
                            try:
                                u = complete_url(p, cx[cn])
                                cu_impl.append({'schema': u.schema or '', 'host': u.host or '', 'segs': segs(u.path), 'dir': (u.path or '').endswith('/')})
                            except ValueError: cu_impl.append({'err': 'ValueError'})
            # ... and with the sandboxes held as ru.Url objects, the way Pilot.stage_in / stage_out hold their contexts:
            # the directives of a task are resolved one after the other against the SAME context
            import radical.utils as ru
            for t in tasks:
                cx = contexts(t)
                ucx = {k: ru.Url(v) for k, v in cx['agent'].items()}
                for key in ('input_staging', 'output_staging'):
                    for sd in t['description'][key]:
                        for which in ('source', 'target'):
                            p = sd[which]
                            if not p: continue
                            cu_ops.append({'op': 'complete', 'ctx': [[k, v] for k, v in cx['agent'].items()], 'p': p})
                            try:
                                u = complete_url(p, ucx)
                                cu_impl.append({'schema': u.schema or '', 'host': u.host or '', 'segs': segs(u.path), 'dir': (u.path or '').endswith('/')})
                            except ValueError: cu_impl.append({'err': 'ValueError'})
                            moved = [k for k in ucx if str(ucx[k]) != str(ru.Url(cx['agent'][k]))]
                            if moved:
                                ctx.fail('url-completion-moves-the-sandbox-it-resolves-against',
                                         'after resolving %r the context entry %s reads %s (was %s)' % (p, moved[0], ucx[moved[0]], cx['agent'][moved[0]]),
                                         {'kind': 'urlctx', 'ctx': cx['agent'], 'paths': [x[w] for k2 in ('input_staging', 'output_staging')
                                                                                       for x in t['description'][k2] for w in ('source', 'target') if x[w]]})
                                ucx = {k: ru.Url(v) for k, v in cx['agent'].items()}
            def local_boxes(t):
                b = boxes(tree, t)
                if remote:
                    for key in b:
                        if key != 'client':
                            u = ru.Url(b[key]); u.schema = 'file'; u.host = 'localhost'; b[key] = str(u)
                return b
            model_tasks = [{'uid': int(t['uid'].split('.')[1]), 'boxes': local_boxes(t),
                            'inputs': [{'source': sd['source'], 'target': sd['target'] or '', 'action': sd['action']} for sd in t['description']['input_staging']],
                            'outputs': [{'source': sd['source'], 'target': sd['target'] or '', 'action': sd['action']} for sd in t['description']['output_staging']],
                            'stage_on_error': bool(t['description'].get('stage_on_error')), 'target': g['outcome']}
                           for t, g in zip(tasks, gts)]
            final, rec = stagelib.run_pipeline(rp, tree, tasks, {g['uid']: g['outcome'] for g in gts}, {g['uid']: {r: 'c%d' % i for r, i in g['produce'].items()} for g in gts})
            after = read_tree(tree, ids)
            # the model runs the tasks of the bulk one after the other over the same file system
            pl_ops.append({'op': 'bulk', 'tables': tables, 'fs': before, 'tasks': model_tasks,
                           'produced': [[[segs(os.path.join(g['tsbox'], rel)), i] for rel, i in g['produce'].items()] for g in gts]})
            pl_impl.append({'states': [final.get(g['uid']) for g in gts], 'fs': after})
            dist['runs'] += 1; dist['tasks'] += len(gts)
            for g in gts:
                st = final.get(g['uid']); dist['states'][st] = dist['states'].get(st, 0) + 1
                dist['dir_form_targets'] = dist.get('dir_form_targets', 0) + g.get('ndir', 0)
                dist['missing_source'] += any(not x[4] for x in g['info']['in'] + g['info']['out'])
                dist['stage_on_error_failed'] += g['outcome'] != 'DONE' and g['descr']['stage_on_error']
            ctx.case({'run': run_i, 'tasks': [g['descr'] for g in gts]}, nontrivial=any(g['info']['in'] or g['info']['out'] for g in gts))
            for sig, what in monitor(tree, gts, final, rec, before, after, ids):
                ctx.fail(sig, what, {'tasks': [{k: g.get(k, 0) for k in ('uid', 'descr', 'outcome', 'produce', 'info', 'tsbox', 'pilot')} for g in gts],
                                     'files': {p[len(tree.root):]: i for p, i in scene.files.items()}, 'root': tree.root, 'remote': bool(remote)})
        finally:
            shutil.rmtree(root, ignore_errors=True)
    ctx.extra['distribution'] = dist
    ctx.sample({'expand_op': exp_ops[0] if exp_ops else None, 'real': exp_impl[0] if exp_impl else None}, limit=1)
    common.compare(ctx, 'staging', exp_ops, exp_impl, what='real expand_staging_directives (string and dictionary forms)')
    common.compare(ctx, 'staging', cu_ops, cu_impl, what='real complete_url in the contexts of the four stagers')
    # bulk: fold the model pipeline over the tasks
    ops2, impl2 = [], []
    for op, im in zip(pl_ops, pl_impl):
        ops2.append(op); impl2.append(im)
    res = model_bulk(ops2)
    nbad, first = 0, None
    for op, m, r in zip(ops2, res, impl2):
        mm = {'states': m['states'], 'fs': sorted(m['fs'], key=lambda e: e[0])}
        rr = {'states': r['states'], 'fs': [[p, canon_tar(c)] for p, c in r['fs']]}
        mm['fs'] = [[p, canon_tar(c)] for p, c in mm['fs']]
        if mm != rr:
            nbad += 1
            if first is None:
                dm = [e for e in mm['fs'] if e not in rr['fs']]; dr = [e for e in rr['fs'] if e not in mm['fs']]
                first = 'states impl=%s model=%s; only in model: %s; only in impl: %s; tasks=%s' % (
                    rr['states'], mm['states'], str(dm)[:400], str(dr)[:400], common.json.dumps(op['tasks'])[:900])
    ctx.traces += len(ops2)
    ctx.obligation('correspondence real staging pipeline (4 components, local back end) vs Staging.pipeline: file tree and task states (%d bulks)' % len(ops2),
                   'tie', nbad == 0, '' if nbad == 0 else '%d differ; first: %s' % (nbad, first))
    ctx.rule = ('bulks of 1-3 tasks with 0-4 input and 0-3 output directives: string short forms (>, >>, <, <<, no target, extra blanks) and '
                'dictionary forms; actions Transfer/Copy/Link/Move/Tarball; sources and targets named relative to the default, by '
                'client/task/pilot/session/resource/endpoint schema, as file://localhost URL or absolute path; nested target '
                'directories; missing sources; outcomes DONE/FAILED/CANCELED with and without stage_on_error; non-trivial = at least one directive')
    ctx.assume += ['single files with distinct targets per task (the Independent hypothesis of C11_effect); directory sources, DOWNLOAD and '
                   'non-local back ends (radical.saga is not installed) are not exercised',
                   'all sandboxes are on one file system (local.localhost); transfers are local copies',
                   'targets that name an existing directory (the agent appends the base name) are not generated']
    ctx.trusted += ['harness/stagelib.py, harness/props/c11.py (independent path resolver of the monitor)']


def canon_tar(c):
    if isinstance(c, dict) and 'tar' in c:
        return {'tar': sorted(c['tar'], key=lambda e: e[0])}
    return c


def model_bulk(ops):
    return common.model('staging', ops)


def monitor(tree, gts, final, rec, before, after, ids):
    bad = []
    fs0 = {'/' + '/'.join(p): c for p, c in before}
    fs1 = {'/' + '/'.join(p): c for p, c in after}
    for g in gts:
        uid = g['uid']
        passed_in = any(u == uid and s == 'AGENT_SCHEDULING_PENDING' for u, s, p in rec['ain'])
        st = final.get(uid)
        in_ok = all(x[4] for x in g['info']['in'])
        if passed_in:
            for idx, src, tgt, action, ok in g['info']['in']:
                want = fs0.get(src)
                if fs1.get(tgt) != want or want is None:
                    bad.append(('input:target-missing-or-wrong-content:%s' % action.lower(),
                                '%s: input directive %d (%s) %s -> %s: target holds %r, source held %r'
                                % (uid, idx, action, src, tgt, fs1.get(tgt), want)))
                if action == 'Move' and src in fs1:
                    bad.append(('input:move-left-source', '%s: %s still exists' % (uid, src)))
        if not in_ok and passed_in:
            bad.append(('input:task-passed-with-directive-not-carried-out', '%s: a source does not exist, the task went on' % uid))
        if not in_ok and st != 'FAILED':
            bad.append(('input:unstageable-directive-did-not-fail-task', '%s ended %s' % (uid, st)))
        if in_ok and not passed_in:
            bad.append(('input:task-with-stageable-directives-did-not-pass',
                        '%s: every input directive can be carried out, yet the task never left input staging (state %s) - '
                        'a directive of another task of the bulk failed' % (uid, st)))
        ran = passed_in
        if ran:
            staged = (g['outcome'] == 'DONE') or g['descr']['stage_on_error']
            out_ok = all(x[4] for x in g['info']['out'])
            if staged and st != 'FAILED':
                for idx, src, tgt, action, ok in g['info']['out']:
                    want = g['produce'].get(os.path.relpath(src, g['tsbox']))
                    if fs1.get(tgt) != want or want is None:
                        bad.append(('output:target-missing-or-wrong-content:%s%s' % (action.lower(), '' if g['outcome'] == 'DONE' else ':stage_on_error'),
                                    '%s (%s): output directive %d (%s) %s -> %s: target holds %r, source held %r'
                                    % (uid, g['outcome'], idx, action, src, tgt, fs1.get(tgt), want)))
            if staged and not out_ok and st != 'FAILED':
                bad.append(('output:unstageable-directive-did-not-fail-task', '%s ended %s' % (uid, st)))
            if not staged:
                for idx, src, tgt, action, ok in g['info']['out']:
                    if tgt in fs1 and tgt not in fs0:
                        bad.append(('output:staged-for-failed-task', '%s (%s): %s was written' % (uid, g['outcome'], tgt)))
            if in_ok and (not staged or out_ok) and st != g['outcome']:
                bad.append(('task:final-state-differs', '%s ended %s, execution ended %s and all directives could be carried out' % (uid, st, g['outcome'])))
    return bad


# -- corpus: the defects found while building this check (run first) -------------------------
def _c_tarball(tree, scene):
    a = scene.new_file(tree.client); b = scene.new_file(tree.client)
    uid = 'task.000000'; ts = tree.psbox + '/' + uid
    d = {'executable': '/bin/true', 'output_staging': [], 'stage_on_error': False,
         'input_staging': [{'source': 'client:///' + os.path.basename(a), 'target': 'task:///t1.dat', 'action': 'Tarball'},
                           {'source': os.path.basename(b), 'target': 'sub/t2.dat', 'action': 'Tarball'}]}
    return [{'uid': uid, 'descr': d, 'outcome': 'DONE', 'produce': {}, 'tsbox': ts,
             'info': {'in': [(0, a, ts + '/t1.dat', 'Tarball', True), (1, b, ts + '/sub/t2.dat', 'Tarball', True)], 'out': []}}]


def _c_on_error(tree, scene):
    uid = 'task.000000'; ts = tree.psbox + '/' + uid
    scene.n += 1
    d = {'executable': '/bin/true', 'input_staging': [], 'output_staging': ['out.dat'], 'stage_on_error': True}
    return [{'uid': uid, 'descr': d, 'outcome': 'FAILED', 'produce': {'out.dat': scene.n}, 'tsbox': ts,
             'info': {'in': [], 'out': [(0, ts + '/out.dat', tree.client + '/out.dat', 'Transfer', True)]}}]


def _c_missing(tree, scene):
    uid = 'task.000000'; ts = tree.psbox + '/' + uid
    a = scene.new_file(tree.client)
    d = {'executable': '/bin/true', 'input_staging': ['missing.dat'], 'output_staging': [], 'stage_on_error': False}
    d2 = {'executable': '/bin/true', 'input_staging': [os.path.basename(a)], 'output_staging': [], 'stage_on_error': False}
    return [{'uid': uid, 'descr': d, 'outcome': 'DONE', 'produce': {}, 'tsbox': ts,
             'info': {'in': [(0, tree.client + '/missing.dat', ts + '/missing.dat', 'Transfer', False)], 'out': []}},
            {'uid': 'task.000001', 'descr': d2, 'outcome': 'DONE', 'produce': {}, 'tsbox': tree.psbox + '/task.000001',
             'info': {'in': [(0, a, tree.psbox + '/task.000001/' + os.path.basename(a), 'Transfer', True)], 'out': []}}]


def _c_existing_file(tree, scene):
    """agent side targets without a schema that name something which exists as a regular FILE: a relative target whose
    name also exists in the pilot sandbox (the agent's working directory), and an absolute target an earlier task has
    written - the data goes to the target named, not into a directory of that name"""
    uid = 'task.000000'; ts = tree.psbox + '/' + uid
    a = scene.new_file(tree.psbox)                       # pilot:///fNNNN.dat, copied into the task sandbox under its own name
    b = scene.new_file(tree.psbox + '/shared')
    old = scene.new_file(ts, 'in.dat')                   # staged by an earlier task: replaced by this one's copy
    d = {'executable': '/bin/true', 'output_staging': [], 'stage_on_error': False,
         'input_staging': [{'source': 'pilot:///' + os.path.basename(a), 'target': os.path.basename(a), 'action': 'Copy'},
                           {'source': 'pilot:///shared/' + os.path.basename(b), 'target': old, 'action': 'Copy'}]}
    return [{'uid': uid, 'descr': d, 'outcome': 'DONE', 'produce': {}, 'tsbox': ts,
             'info': {'in': [(0, a, ts + '/' + os.path.basename(a), 'Copy', True), (1, b, old, 'Copy', True)], 'out': []}}]


CORPUS = [_c_tarball, _c_on_error, _c_missing, _c_existing_file]


def replay(ctx, data):
    rp = rpload.load()
    i = data['input']
    if i.get('kind') == 'two_bulks':
        res = run_two_bulks(rp, i['what']); print(res)
        return all(r == {'state': 'DONE', 'in': True, 'out': True} for r in res)
    if i.get('kind') == 'session_sandboxes':
        res = run_session_sandboxes(rp, i['npilots'], i['order'])
        bad = session_sandboxes_monitor(res)
        print('observed:', res, bad)
        return not bad
    if i.get('kind') == 'two_sessions':
        res = run_two_sessions(rp, i['nfiles'], i['interleave'])
        bad = two_sessions_monitor(res)
        print('observed:', res, bad)
        return not bad
    if i.get('kind') == 'urlctx':
        import radical.utils as ru
        from radical.pilot.staging_directives import complete_url
        ucx = {k: ru.Url(v) for k, v in i['ctx'].items()}
        ok = True
        for p in i['paths']:
            try: u = complete_url(p, ucx)
            except ValueError: u = 'ValueError'
            moved = [k for k in ucx if str(ucx[k]) != str(ru.Url(i['ctx'][k]))]
            print(p, '->', u, 'context entries moved:', moved)
            ok = ok and not moved
        return ok
    root = tempfile.mkdtemp(prefix='c11_')
    try:
        tree = stagelib.Tree(root)
        old = i['root']
        def mv(x):
            if isinstance(x, str): return x.replace(old, tree.root)
            if isinstance(x, list): return [mv(y) for y in x]
            if isinstance(x, tuple): return tuple(mv(y) for y in x)
            if isinstance(x, dict): return {mv(k): mv(v) for k, v in x.items()}
            return x
        gts = mv(i['tasks'])
        ids = {}
        for rel, n in i['files'].items():
            p = tree.root + rel
            os.makedirs(os.path.dirname(p), exist_ok=True)
            with open(p, 'w') as f: f.write('c%d' % n)
        ids = {'c%d' % n: n for n in range(1, 10000)}
        tasks = [tree.task_dict(rp, g['uid'], g['descr'], pid='pilot.%04d' % g.get('pilot', 0)) for g in gts]
        if i.get('remote'):
            import radical.utils as ru
            for t in tasks:
                for key in ('endpoint_fs', 'resource_sandbox', 'session_sandbox', 'pilot_sandbox', 'task_sandbox'):
                    u = ru.Url(t[key]); u.schema = 'sftp'; u.host = 'login.host'; t[key] = str(u)
        before = read_tree(tree, ids)
        final, rec = stagelib.run_pipeline(rp, tree, tasks, {g['uid']: g['outcome'] for g in gts}, {g['uid']: {r: 'c%d' % i for r, i in g['produce'].items()} for g in gts})
        after = read_tree(tree, ids)
        bad = monitor(tree, gts, final, rec, before, after, ids)
        print(final); print(bad)
        return not bad
    finally:
        shutil.rmtree(root, ignore_errors=True)
