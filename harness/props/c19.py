"""C19 — Descriptions and payloads survive normalisation and transport.

Tie:  translator: alias table + mode chain of TaskDescription._verify ->
      Gen/Descr.lean (theorem tables_wf re-checks well-formedness every run);
      sampled: real TaskDescription.verify() vs `verify` over the generated
      tables; real convert_slots_to_new/old vs toNew/toOld; real PythonTask /
      pythontask / get_func_attr on generated callables (decoded callable is
      applied and its result compared).
Monitor: alias values preserved, deprecated names cleared, verify idempotent,
      as_dict -> constructor -> equal, slot indices preserved, function round trip."""

import os
import copy
import functools

import common
import rpload
import translate


# alias blocks as last seen by the translator; used to drive the search for a failing input when
# TaskDescription._verify can no longer be parsed (the broken tie is reported separately)
FALLBACK_ALIASES = [
    ('cpu_processes', 'ranks', 'cpu_processes', 0, False), ('cpu_threads', 'cores_per_rank', 'cpu_threads', 0, False),
    ('cpu_thread_type', 'threading_type', 'cpu_thread_type', None, False),
    ('gpu_processes', 'gpus_per_rank', 'gpu_processes', 0, True), ('gpu_process_type', 'gpu_type', 'gpu_process_type', None, False),
    ('lfs_per_process', 'lfs_per_rank', 'lfs_per_process', 0, False), ('mem_per_process', 'mem_per_rank', 'mem_per_process', 0, False),
    ('scheduler', 'raptor_id', 'scheduler', '', False), ('worker_file', 'raptor_file', 'worker_file', '', False),
    ('worker_class', 'raptor_class', 'worker_class', '', False)]


def tables(ctx=None):
    try:
        return translate.descr_tables(common.SRC)[0]
    except Exception as e:
        if ctx is not None:
            ctx.notes.append('translator failed (%r): searching with the last known alias table' % e)
        return FALLBACK_ALIASES


def enc(v):
    if isinstance(v, float):
        return {'f': int(round(v * 16))}
    return v


def real_verify(rp, d):
    td = rp.TaskDescription(from_dict=copy.deepcopy(d))
    try:
        td.verify()
    except ValueError:
        return None, 'ValueError'
    except Exception as e:
        return None, type(e).__name__
    return td, None


def gen_descr(rng, aliases, checks, modes):
    d = {}
    r = rng.random()
    if r < 0.15:
        pass                                # mode unset
    elif r < 0.2:
        d['mode'] = ''
    else:
        d['mode'] = rng.choice(modes)
    for attr in ('executable', 'function', 'code', 'command', 'named_env'):
        if rng.random() < 0.55:
            d[attr] = rng.choice(['x', '/bin/date', 'f(1)'])
        elif rng.random() < 0.2:
            d[attr] = ''
    for old, new, _, _, to_float in aliases:
        sample = {'int': [0, 1, 2, 5], 'str': ['', 'OpenMP', 'Foo', 'm.0001']}
        is_int = old in ('cpu_processes', 'cpu_threads', 'gpu_processes', 'lfs_per_process', 'mem_per_process')
        if rng.random() < 0.45:
            d[old] = rng.choice(sample['int'] if is_int else sample['str'])
        if rng.random() < 0.35:
            if to_float:
                d[new] = rng.choice([0.0, 0.5, 1.0, 2.0])
            else:
                d[new] = rng.choice(sample['int'] if is_int else sample['str'])
    if rng.random() < 0.3:
        d['use_mpi'] = rng.choice([True, False])
    if rng.random() < 0.4 and 'ranks' not in d:
        d['ranks'] = rng.choice([1, 2, 4])
    # untouched attributes that must survive
    if rng.random() < 0.5:
        d['arguments'] = ['a', 'b c']
    if rng.random() < 0.5:
        d['environment'] = {'X': '1'}
    if rng.random() < 0.3:
        d['priority'] = rng.choice([0, 3])
    # commands around the executable: plain strings for all ranks and per-rank dictionaries {rank: [commands]}
    for k in ('pre_exec', 'post_exec', 'pre_launch', 'post_launch'):
        if rng.random() < 0.3:
            v = ['module load x', 'echo "a b"'][:rng.randint(1, 2)]
            if k in ('pre_exec', 'post_exec') and rng.random() < 0.6:
                v = v + [{'0': 'echo rank 0', '1': ['echo r1', 'true']}]
            d[k] = v
    if rng.random() < 0.2:
        d['input_staging'] = [rng.choice(['in.dat', {'source': 'client:///in.dat', 'target': 'task:///in.dat', 'action': 'Transfer'}])]
    if rng.random() < 0.2:
        d['tags'] = {'colocate': rng.choice([0, 'a']), 'exclusive': True}
    return d


# what a task of each mode cannot do without (TaskDescription's documentation of the modes)
MODE_NEEDS = {'task.executable': 'executable', 'task.service': 'executable', 'agent.service': 'executable', 'task.proc': 'executable',
              'task.function': 'function', 'task.method': 'function', 'task.eval': 'code', 'task.exec': 'code',
              'task.shell': 'command'}


def monitor_descr(rp, d, td, err, aliases):
    if err:
        return None
    need = MODE_NEEDS.get(td['mode'])
    if need and not td[need]:
        return ('description-accepted-without-what-its-mode-needs:%s' % td['mode'],
                'mode %s needs %r; verify() accepted %s' % (td['mode'], need, {k: v for k, v in d.items() if k in ('mode', 'executable', 'function', 'code', 'command')}))
    inp = rp.TaskDescription(from_dict=copy.deepcopy(d))
    for old, new, _, _, to_float in aliases:
        ov = inp[old]
        if ov:
            want = float(ov) if to_float else ov
            if td[new] != want:
                return ('alias-value-lost:%s' % old,
                        '%s=%r was not mapped: %s=%r' % (old, ov, new, td[new]))
            if td[old]:
                return ('deprecated-name-not-cleared:%s' % old, '%s=%r after verify' % (old, td[old]))
        else:
            if td[new] != inp[new]:
                return ('replacement-changed-without-alias:%s' % new, '%r -> %r' % (inp[new], td[new]))
    if inp['use_mpi'] is None and td['use_mpi'] is not None and td['use_mpi'] != bool(td['ranks'] - 1):
        # (whichever spelling gave the rank count: the default is derived from the normalised description)
        return ('derived-use_mpi-contradicts-ranks', 'use_mpi was not given; verify() made it %r for ranks=%r (description %s)'
                % (td['use_mpi'], td['ranks'], {k: v for k, v in d.items() if k in ('ranks', 'cpu_processes', 'use_mpi')}))
    if inp['use_mpi'] is not None and td['use_mpi'] != inp['use_mpi']:
        return ('explicit-use_mpi-overwritten', 'use_mpi=%r became %r (ranks %r)' % (inp['use_mpi'], td['use_mpi'], td['ranks']))
    for k in ('arguments', 'environment', 'priority', 'executable', 'function', 'code', 'command',
              'pre_exec', 'post_exec', 'pre_launch', 'post_launch', 'input_staging', 'tags'):
        if td[k] != inp[k]:
            return ('attribute-lost:%s' % k, '%r -> %r' % (inp[k], td[k]))
    before = copy.deepcopy(td.as_dict())
    try:
        td.verify()
    except Exception as e:
        return ('verify-not-idempotent', 'second verify raised %r' % e)
    if td.as_dict() != before:
        diff = {k: (before.get(k), v) for k, v in td.as_dict().items() if before.get(k) != v}
        return ('verify-not-idempotent', 'second verify changed %s' % diff)
    back = rp.TaskDescription(from_dict=copy.deepcopy(before))
    if back.as_dict() != before:
        return ('dict-roundtrip-differs', 'as_dict -> constructor differs')
    return None


# ------------------------------------------------------------------------------
def gen_res(rng, form):
    idx = rng.sample(range(16), rng.randint(0, 4))
    if form == 'ints':  return idx, idx
    if form == 'pairs': return [(i, rng.choice([16, 8, 4]) / 16.0) for i in idx], None
    if form == 'dicts': return [{'index': i, 'occupation': rng.choice([16, 8]) / 16.0} for i in idx], None
    if form == 'lists': return [[i] for i in idx], None


def res_to_model(res):
    out = []
    for x in res:
        if isinstance(x, int): out.append(x)
        elif isinstance(x, tuple): out.append({'index': x[0], 'occ': int(x[1] * 16)})
        elif isinstance(x, dict): out.append({'index': x['index'], 'occ': int(x['occupation'] * 16)})
        else: out.append(list(x))
    return out


def slot_canon(s):
    ro = lambda l: [[r['index'], int(r['occupation'] * 16)] for r in l]
    return {'cores': ro(s['cores']), 'gpus': ro(s['gpus']), 'lfs': s['lfs'], 'mem': s['mem'],
            'node_index': s['node_index'], 'node_name': s['node_name']}


# ------------------------------------------------------------------------------
def _f_add(a, b=3): return a + b
def _f_kw(*a, **k): return [list(a), sorted(k.items())]


def gen_callable(rng):
    """(function, args, kwargs, settle): `settle` (or None) is run after the function was decorated and
    before it is called - it gives a closure variable the value it has when the task is created"""
    k = rng.randrange(10)
    n = rng.randint(0, 9)
    if k == 0: return (lambda x: x * 2), (n,), {}, None
    if k == 8:
        # works on its arguments in place (legal: every task owns the arguments it was created with)
        def push(l, v, d=None):
            l.append(v)
            if d is not None: d['seen'] = d.get('seen', 0) + 1
            return [list(l), d]
        return push, ([1, 2], n), {'d': {'seen': 0}}, None
    if k == 9:
        # keeps state of its own between calls: every task starts from the state it was created with
        calls = [0]
        def counting(x):
            calls[0] += 1
            return x + 10 * calls[0]
        return counting, (n,), {}, None
    if k == 1:
        m = rng.randint(1, 5)
        def clos(x, y=1): return x * m + y
        return clos, (n,), {'y': rng.randint(0, 3)}, None
    if k == 2: return functools.partial(_f_add, n), (), {}, None
    if k == 3: return _f_add, (n,), {'b': rng.randint(0, 3)}, None
    if k == 4: return _f_kw, (n, 'x', [1, {'a': (2, 3)}]), {'z': None, 'q': 1.5}, None
    if k == 5: return (lambda *a, **kw: (len(a), len(kw))), tuple(range(n % 4)), {'k%d' % i: i for i in range(n % 3)}, None
    if k == 6:
        # a helper defined below the function in the same scope (bound after decoration)
        m = rng.randint(2, 5)
        helper = None
        def uses_helper(x): return helper(x) + 1
        def settle():
            nonlocal helper
            helper = lambda v: v * m
        return uses_helper, (n,), {}, settle
    # a parameter of the enclosing scope that is settled after decoration
    scale = 1
    m = rng.randint(2, 7)
    def scaled(x, y=0): return x * scale + y
    def settle():
        nonlocal scale
        scale = m
    return scaled, (n,), {'y': rng.randint(0, 3)}, settle


def app_script(seed, count, only=None):
    """harness/appscript_c19.py as the __main__ of a child process: functions, classes and helpers of an
    application script through both encoders"""
    import subprocess, sys, json
    script = os.path.join(os.path.dirname(os.path.dirname(os.path.abspath(__file__))), 'appscript_c19.py')
    cmd = [sys.executable, script, str(seed), str(count)] + ([str(only)] if only is not None else [])
    p = subprocess.run(cmd, stdout=subprocess.PIPE, stderr=subprocess.PIPE, timeout=600)
    lines = [l for l in p.stdout.decode().splitlines() if l.startswith('{')]
    if p.returncode or not lines:
        raise RuntimeError('application script failed: %s' % p.stderr.decode()[-400:])
    return json.loads(lines[-1])


def fn_case(rp, seed, i):
    """one callable through both encoders; returns the list of (how, got, want) that differ"""
    import random
    bad = []
    for how in ('PythonTask', 'pythontask'):
        f, a, k, settle = gen_callable(random.Random('%s-fn-%d' % (seed, i)))
        got2 = want2 = None
        try:
            if how == 'PythonTask':
                if settle: settle()
                s = rp.PythonTask(f, a, k)
            else:
                dec = rp.PythonTask.pythontask(f)
                if settle: settle()
                s = dec(*a, **k)
            want = copy.deepcopy(f)(*copy.deepcopy(a), **copy.deepcopy(k)) if getattr(f, '__name__', '') != 'counting' else a[0] + 10
            g, a2, k2 = rp.PythonTask.get_func_attr(s)
            got = copy.deepcopy(g(*a2, **(k2 or {})))
            # the same payload decoded once more (a worker serving a bag of identical tasks), after the consumer of
            # the first decode has used what it was given: arguments changed in place, a keyword slot filled
            for x in list(a2) + list((k2 or {}).values()):
                if isinstance(x, list): x.append('used')
                if isinstance(x, dict): x['used'] = True
            a2.append('used')
            if k2 is not None: k2['comm'] = 'used'
            g, a3, k3 = rp.PythonTask.get_func_attr(s)
            got2, want2 = g(*a3, **(k3 or {})), want
        except Exception as e:
            got = 'raised %r' % e
        if got != want:
            bad.append((how, got, want))
        elif got2 != want2:
            bad.append((how + ' (same payload decoded a second time)', got2, want2))
    return bad, (a, k, settle is not None)


def run(ctx):
    rp  = rpload.load()
    rng = ctx.rng
    aliases = tables(ctx)
    # the monitor and the generator also know the deprecated names the translator saw last: a mapping that
    # has disappeared from the parsed table (or can no longer be parsed as one) is still exercised and judged
    seen = set(a[0] for a in aliases)
    aliases = list(aliases) + [a for a in FALLBACK_ALIASES if a[0] not in seen]
    import radical.pilot.task_description as rtd
    modes = [getattr(rtd, n) for n in dir(rtd) if n.startswith(('TASK_', 'AGENT_', 'RAPTOR_')) and
             isinstance(getattr(rtd, n), str)]
    keys = sorted(set([a[0] for a in aliases] + [a[1] for a in aliases] + ['mode', 'use_mpi', 'ranks']))

    # -- descriptions --------------------------------------------------------------
    ops, impl = [], []
    corpus = [{'executable': '/bin/true', 'worker_class': 'Foo'},            # F16 (fixed)
              {'executable': '/bin/true', 'cpu_thread_type': 'OpenMP', 'gpu_process_type': 'CUDA'},
              {'mode': rtd.TASK_FUNC, 'function': 'f', 'named_env': 'e'},
              {'mode': rtd.TASK_SHELL}]
    hit = {'ValueError': 0, 'alias_applied': 0}
    descrs = corpus + [gen_descr(rng, aliases, None, modes) for _ in range(ctx.n(2500, 60000))]
    for d in descrs:
        td, err = real_verify(rp, d)
        op = {'op': 'verify', 'd': {k: enc(v) for k, v in d.items() if k in keys or k in
                                     ('executable', 'function', 'code', 'command', 'named_env')},
              'keys': keys}
        ops.append(op)
        if err:
            impl.append(err); hit['ValueError'] += 1
        else:
            impl.append({k: enc(td[k]) for k in keys})
        applied = any(d.get(a[0]) for a in aliases)
        if applied and not err: hit['alias_applied'] += 1
        ctx.case(op, nontrivial=applied and not err)
        bad = monitor_descr(rp, d, td, err, aliases)
        if bad:
            ctx.fail(bad[0], bad[1], {'kind': 'descr', 'd': d})
    ctx.sample({'description': descrs[5], 'after_verify': impl[5]}, limit=1)
    common.compare(ctx, 'descr', ops, impl, what='TaskDescription.verify (all modes, deprecated/current names in any combination)')

    # -- slots ------------------------------------------------------------------------
    from radical.pilot.utils.misc import convert_slots_to_new, convert_slots_to_old
    from radical.pilot.resource_config import Slot
    ops, impl = [], []
    singles = []           # (old slot, model form, canonical result of the real single-slot conversion)
    for _ in range(ctx.n(600, 20000)):
        form_c = rng.choice(['ints', 'pairs', 'dicts', 'lists'])
        form_g = rng.choice(['ints', 'pairs', 'dicts', 'lists'])
        c, _ = gen_res(rng, form_c)
        g, _ = gen_res(rng, form_g)
        old = {'cores': c, 'gpus': g, 'lfs': rng.choice([0, 5]), 'mem': rng.choice([0, 7]),
               'node_index': rng.randrange(4), 'node_name': 'n%d' % rng.randrange(4)}
        op = {'op': 'to_new', 'old': dict(old, cores=res_to_model(c), gpus=res_to_model(g))}
        try:
            new = convert_slots_to_new([copy.deepcopy(old)])[0]
            res = slot_canon(new.as_dict())
        except ValueError:
            new, res = None, 'ValueError'
        except Exception as e:
            new, res = None, type(e).__name__
        ops.append(op); impl.append(res)
        singles.append((old, op['old'], res))
        ctx.case(op, nontrivial=bool(c or g))
        if new is not None:
            want_c = [x if isinstance(x, int) else (x[0] if isinstance(x, tuple) else x['index']) for x in c]
            if [r[0] for r in res['cores']] != want_c or res['node_index'] != old['node_index']:
                ctx.fail('slots:to_new-loses-indices', 'cores %s -> %s' % (c, res['cores']), {'kind': 'to_new', 'old': old})
            # new -> old
            o2 = convert_slots_to_old([new])[0]
            op2 = {'op': 'to_old', 'new': {'cores': [{'index': a, 'occ': b} for a, b in res['cores']],
                                           'gpus': [{'index': a, 'occ': b} for a, b in res['gpus']],
                                           'lfs': res['lfs'], 'mem': res['mem'],
                                           'node_index': res['node_index'], 'node_name': res['node_name']}}
            ops.append(op2)
            impl.append({'cores': o2['cores'] or [], 'gpus': o2['gpus'] or [], 'lfs': o2['lfs'], 'mem': o2['mem'],
                         'node_index': o2['node_index'], 'node_name': o2['node_name']})
            ctx.case(op2)
            flat = [i for l in (o2['cores'] or []) for i in l]
            if flat != [r[0] for r in res['cores']] or o2['node_name'] != res['node_name']:
                ctx.fail('slots:to_old-loses-indices', '%s -> %s' % (res['cores'], o2['cores']), {'kind': 'to_old', 'new': res})
            # round trip new -> old -> new
            if res['cores'] or res['gpus']:
                try:
                    n2 = convert_slots_to_new([copy.deepcopy(o2)])[0]
                    if [r['index'] for r in n2.as_dict()['cores']] != [r[0] for r in res['cores']]:
                        ctx.fail('slots:roundtrip-loses-indices', str(res), {'kind': 'roundtrip', 'new': res})
                except ValueError:
                    ctx.fail('slots:roundtrip-new-old-new-raises',
                             'convert_slots_to_new(convert_slots_to_old(slot)) raises ValueError',
                             {'kind': 'roundtrip', 'new': res})
        elif form_c != 'lists' and form_g != 'lists':
            ctx.fail('slots:to_new-raises', res, {'kind': 'to_new', 'old': old})
    # Slot.__init__ from its three input forms, and the plain-dict round trip of every slot seen above
    from radical.pilot.resource_config import RO
    for _ in range(ctx.n(200, 6000)):
        def res(n):
            idx = rng.sample(range(16), n)
            form = rng.choice(['ints', 'dicts', 'ros'])
            occ = [16 if form == 'ints' else rng.choice([16, 8, 4]) for _ in idx]
            items = [i if form == 'ints' else {'index': i, 'occ': o} for i, o in zip(idx, occ)]
            real = [i if form == 'ints' else ({'index': i, 'occupation': o / 16.0} if form == 'dicts' else RO(index=i, occupation=o / 16.0))
                    for i, o in zip(idx, occ)]
            return {'form': form, 'items': items}, real
        cm, cr = res(rng.choice([0, 1, 2, 3]))
        gm, gr = res(rng.choice([0, 0, 1, 2, 3]))
        d = {'lfs': rng.choice([0, 5]), 'mem': rng.choice([0, 7]), 'node_index': rng.randrange(4), 'node_name': 'n%d' % rng.randrange(4)}
        op = {'op': 'slot_init', 'slot': dict(d, cores=cm, gpus=gm)}
        try:
            sl = Slot(from_dict=dict(copy.deepcopy(d), cores=cr, gpus=gr))
            got = slot_canon(sl.as_dict())
            back = slot_canon(Slot(from_dict=copy.deepcopy(sl.as_dict())).as_dict())
        except Exception as e:
            got, back = type(e).__name__, None
        ops.append(op); impl.append(got)
        # the keyword form of the same slot (`rp.Slot(node_index=0, node_name='localhost', cores=[3])`, as the scheduling
        # tutorial writes it) is the slot of the dictionary form
        try:
            kw = Slot(**dict(copy.deepcopy(d), cores=copy.deepcopy(cr), gpus=copy.deepcopy(gr)))
            kwc = slot_canon(kw.as_dict())
            if not all(isinstance(x, RO) for x in list(kw.cores) + list(kw.gpus)): kwc = 'cores/gpus are not RO objects: %s / %s' % (kw.cores, kw.gpus)
        except Exception as e:
            kwc = type(e).__name__
        if kwc != got:
            ctx.fail('slots:keyword-form-differs-from-dictionary-form', 'Slot(**d) gives %s, Slot(from_dict=d) gives %s' % (kwc, got),
                     {'kind': 'slot_kw', 'd': d, 'cores': cm, 'gpus': gm})
        ctx.case(op, nontrivial=bool(gr) and [x['index'] if isinstance(x, dict) else x for x in gm['items']] != [x['index'] if isinstance(x, dict) else x for x in cm['items']])
        if isinstance(got, dict) and back != got:
            ctx.fail('slots:dict-roundtrip-changes-slot', 'Slot %s -> as_dict -> Slot gives %s' % (got, back),
                     {'kind': 'slot_dict', 'slot': dict(d, cores=[[i['index'], i['occ']] if isinstance(i, dict) else [i, 16] for i in cm['items']],
                                                        gpus=[[i['index'], i['occ']] if isinstance(i, dict) else [i, 16] for i in gm['items']])})
    # lists of slots (one per rank): every slot converts as it converts alone
    for _ in range(ctx.n(300, 8000)):
        pick = [rng.choice(singles) for _ in range(rng.choice([2, 2, 3, 4]))]
        if rng.random() < 0.8:
            pick = [p for p in pick if isinstance(p[2], dict)] or pick
        try:
            got = [slot_canon(x.as_dict()) for x in convert_slots_to_new([copy.deepcopy(p[0]) for p in pick])]
        except ValueError:
            got = 'ValueError'
        except Exception as e:
            got = type(e).__name__
        op = {'op': 'to_new_list', 'olds': [p[1] for p in pick]}
        ops.append(op); impl.append(got)
        ctx.case(op, nontrivial=isinstance(got, list) and any(p[0]['gpus'] for p in pick) and not all(p[0]['gpus'] for p in pick))
        if isinstance(got, list):
            for i, (p, r) in enumerate(zip(pick, got)):
                if r != p[2]:
                    ctx.fail('slots:slot-converts-differently-inside-a-list',
                             'slot %d of %d converts to %s alone and to %s in the list' % (i, len(pick), p[2], r),
                             {'kind': 'to_new_list', 'olds': [p[0] for p in pick]})
                    break
    common.compare(ctx, 'descr', ops, impl, what='convert_slots_to_new / convert_slots_to_old (single slots and lists)')
    # ... and the other direction: a list may mix slots that are old already with new ones (Slot objects or their
    # plain-dict transport form), in any order; every element converts as it converts alone, old ones stay as they are
    def plain(x):
        if isinstance(x, dict):
            return {k: (plain(v) if k in ('cores', 'gpus') else v) for k, v in x.items()}
        if isinstance(x, list):
            return [plain(v) for v in x]
        if hasattr(x, 'as_dict'):
            return plain(x.as_dict())
        return x
    nmix = 0
    olds_ok = [p for p in singles if isinstance(p[2], dict) and all(isinstance(c, int) for c in p[0]['cores']) and all(isinstance(g, int) for g in p[0]['gpus'])]
    for _ in range(ctx.n(300, 8000)):
        if not olds_ok: break
        forms, items = [], []
        for _ in range(rng.choice([1, 2, 2, 3, 4])):
            o = copy.deepcopy(rng.choice(olds_ok)[0])
            f = rng.choice(['old', 'slot', 'dict'])
            forms.append(f)
            if f == 'old':
                # what convert_slots_to_old itself writes: per-rank index lists, no version field
                items.append(dict(o, cores=[[c] for c in o['cores']], gpus=[[g] for g in o['gpus']]))
            else:
                n = convert_slots_to_new([o])[0]
                items.append(n if f == 'slot' else n.as_dict())
        try:
            alone = [plain(convert_slots_to_old([copy.deepcopy(x)])[0]) for x in items]
            got   = [plain(x) for x in convert_slots_to_old([copy.deepcopy(x) for x in items])]
        except Exception as e:
            alone, got = None, type(e).__name__
        nmix += len(set(forms)) > 1
        ctx.case({'to_old_list': forms}, nontrivial=len(set(forms)) > 1)
        if got != alone:
            ctx.fail('slots:slot-converts-differently-inside-a-list',
                     'list of slots in the forms %s: converted one by one %s, as a list %s' % (forms, alone, got),
                     {'kind': 'to_old_list', 'forms': forms, 'olds': [plain(x) for x in items]})
        elif isinstance(got, list) and any(('version' in x and x['version']) or any(not isinstance(c, list) for c in x['cores']) for x in got):
            ctx.fail('slots:to_old-leaves-a-new-slot', 'forms %s -> %s' % (forms, got), {'kind': 'to_old_list', 'forms': forms, 'olds': [plain(x) for x in items]})
    hit['mixed_slot_lists'] = nmix

    # -- function transport --------------------------------------------------------------
    bad_fn = 0
    nfn = ctx.n(200, 4000)
    late = 0
    for i in range(nfn):
        bad, (a, k, has_settle) = fn_case(rp, ctx.seed, i)
        late += has_settle
        ctx.case({'fn': i, 'args': repr(a), 'kwargs': repr(k), 'late_bound': has_settle}, nontrivial=has_settle)
        for how, got, want in bad:
            bad_fn += 1
            ctx.fail('function-transport-changes-result:' + how, '%r != %r' % (got, want),
                     {'kind': 'fn', 'index': i, 'seed': ctx.seed})
    hit['late_bound_closures'] = late
    # ... and function tasks defined in an application's main script (run as __main__ in a child process)
    napp = ctx.n(150, 3000)
    app = app_script(ctx.seed, napp)
    hit['main_script_functions'] = app.get('kinds')
    for b in app['bad']:
        bad_fn += 1
        ctx.fail('function-transport-changes-result:main-script:' + b['how'],
                 '%s%s: %r != %r' % (b['case'], b['args'], b['got'], b['want']),
                 {'kind': 'app_fn', 'index': b['index'], 'seed': ctx.seed, 'count': napp})
    for i in range(napp):
        ctx.case({'app_fn': i}, nontrivial=True)
    nfn += napp
    ctx.obligation('function transport: %d callables x {PythonTask, pythontask} decode to the same result' % nfn,
                   'tie', bad_fn == 0, '')
    ctx.traces += 2 * nfn
    ctx.extra['distribution'] = hit
    ctx.rule = ('descriptions: random mode (all constants + unset/empty), required attributes present/empty/absent, every '
                'deprecated and current name set or not, use_mpi/ranks, bystander attributes; slots: cores/gpus as ints, '
                '(index, occupation) tuples, dicts or per-rank lists; callables: lambdas, closures, partials, defaults, closures whose '
                'variables are bound between decoration and call, '
                'nested builtin arguments; non-trivial = at least one deprecated attribute was set and verify succeeded')
    ctx.assume += ['dill/pickle/msgpack (serialize_obj/serialize_bson) are third-party: hypotheses of C19_transport, sampled here',
                   'ru.TypedDict type casting (verify) and as_dict/constructor are environment',
                   'float attribute values are dyadic (k/16)']
    ctx.trusted += ['harness/translate.py gen_descr (AST of TaskDescription._verify); an alias block it cannot parse breaks the tie']


def replay(ctx, data):
    rp = rpload.load()
    i  = data['input']
    aliases = tables()
    if i['kind'] == 'descr':
        td, err = real_verify(rp, i['d'])
        bad = monitor_descr(rp, i['d'], td, err, aliases)
        print('observed:', err or {k: td[k] for k in i['d']}, bad)
        return not bad
    if i['kind'] == 'roundtrip':
        from radical.pilot.utils.misc import convert_slots_to_new, convert_slots_to_old
        from radical.pilot.resource_config import Slot
        s = Slot(cores=[{'index': a, 'occupation': b / 16.0} for a, b in i['new']['cores']],
                 gpus=[{'index': a, 'occupation': b / 16.0} for a, b in i['new']['gpus']],
                 node_index=i['new']['node_index'], node_name=i['new']['node_name'])
        try:
            convert_slots_to_new(convert_slots_to_old([s]))
            return True
        except Exception as e:
            print('observed:', repr(e))
            return False
    if i['kind'] == 'slot_dict':
        from radical.pilot.resource_config import Slot, RO
        sd = i['slot']
        sl = Slot(cores=[RO(index=a, occupation=b / 16.0) for a, b in sd['cores']], gpus=[RO(index=a, occupation=b / 16.0) for a, b in sd['gpus']],
                  lfs=sd['lfs'], mem=sd['mem'], node_index=sd['node_index'], node_name=sd['node_name'])
        a = slot_canon(sl.as_dict()); b = slot_canon(Slot(from_dict=copy.deepcopy(sl.as_dict())).as_dict())
        print('observed:', a, '->', b)
        return a == b
    if i['kind'] == 'to_old_list':
        from radical.pilot.utils.misc import convert_slots_to_old
        def plain(x):
            if isinstance(x, dict): return {k: (plain(v) if k in ('cores', 'gpus') else v) for k, v in x.items()}
            if isinstance(x, list): return [plain(v) for v in x]
            return plain(x.as_dict()) if hasattr(x, 'as_dict') else x
        items = i['olds']
        alone = [plain(convert_slots_to_old([copy.deepcopy(x)])[0]) for x in items]
        got   = [plain(x) for x in convert_slots_to_old([copy.deepcopy(x) for x in items])]
        print('one by one:', alone); print('as a list :', got)
        return got == alone and not any(x.get('version') for x in got)
    if i['kind'] == 'slot_kw':
        from radical.pilot.resource_config import RO, Slot
        def real(m):
            return [x if m['form'] == 'ints' else ({'index': x['index'], 'occupation': x['occ'] / 16.0} if m['form'] == 'dicts'
                    else RO(index=x['index'], occupation=x['occ'] / 16.0)) for x in m['items']]
        outs = []
        for how in ('dict', 'kw'):
            try:
                a = dict(copy.deepcopy(i['d']), cores=real(i['cores']), gpus=real(i['gpus']))
                sl = Slot(from_dict=a) if how == 'dict' else Slot(**a)
                outs.append((slot_canon(sl.as_dict()), all(isinstance(x, RO) for x in list(sl.cores) + list(sl.gpus))))
            except Exception as e:
                outs.append((type(e).__name__, None))
        print(outs)
        return outs[0] == outs[1]
    if i['kind'] == 'to_new_list':
        from radical.pilot.utils.misc import convert_slots_to_new
        def fix(o):       # JSON turned the (index, occupation) tuples into lists
            o = dict(o)
            for k in ('cores', 'gpus'):
                o[k] = [tuple(x) if isinstance(x, list) and len(x) == 2 and not isinstance(x[0], list) and isinstance(x[1], float) else x for x in o[k]]
            return o
        olds = [fix(o) for o in i['olds']]
        alone = [slot_canon(convert_slots_to_new([copy.deepcopy(o)])[0].as_dict()) for o in olds]
        inlist = [slot_canon(x.as_dict()) for x in convert_slots_to_new(copy.deepcopy(olds))]
        print('observed: alone', alone, 'in the list', inlist)
        return alone == inlist
    if i['kind'] == 'app_fn':
        app = app_script(i['seed'], i['count'], i['index'])
        print('observed:', app['bad'])
        return not app['bad']
    if i['kind'] == 'fn':
        bad, _ = fn_case(rp, i['seed'], i['index'])
        print('observed:', bad)
        return not bad
    raise NotImplementedError('replay: unknown kind of input')
