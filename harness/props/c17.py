"""C17 — Every shipped platform resolves and pilots are sized to fit.

(a) The table Gen/Configs.lean + Gen/Factories.lean is regenerated on every
    run and theorem C17_resolves (decide +kernel over the whole table) is
    re-checked.  The translator's reading is itself cross-checked here,
    exhaustively, against the real Session.get_resource_config (for every
    resource x schema incl. the default) and the real factories.
(b) Sizing: the real PMGRLaunchingComponent._prepare_pilot runs for every
    shipped row x pilot sizes (nodes or cores/GPUs, backup nodes, RADICAL_SMT)
    and is compared with `sizePilot`; the monitor evaluates the property
    (least number of whole nodes; agent figures = job figures)."""

import os
import json
import math
import importlib

import common
import rpload
import translate


def exc_name(e):
    n = type(e).__name__
    return n if n in ('ValueError', 'RuntimeError', 'AssertionError', 'TypeError', 'KeyError') else 'other'


def make_session(rp):
    import radical.utils as ru
    from radical.pilot.resource_config import ResourceConfig
    rcfgs = ru.Config('radical.pilot.resource', name='*', expand=False)
    s = object.__new__(rp.Session)
    s._rcfgs = ru.Config()
    s._log   = rpload.NullLog()
    errs = []
    for site in rcfgs:
        s._rcfgs[site] = ru.Config()
        for res, rcfg in rcfgs[site].items():
            try:
                s._rcfgs[site][res] = ResourceConfig(rcfg)
            except Exception as e:
                errs.append(('%s.%s' % (site, res), repr(e)))
    return s, errs


def make_launcher(rp, scratch):
    import radical.utils as ru
    from radical.pilot.pmgr.launching.base import PMGRLaunchingComponent
    lc = object.__new__(PMGRLaunchingComponent)
    lc._log  = rpload.NullLog()
    lc._log.level = 'OFF'
    lc._log.debug_level = 0
    lc._prof = rpload.NullLog()
    lc._pmgr = 'pmgr.0000'
    lc._rp_version = '0.0'
    lc._root_dir = os.path.dirname(rp.__file__)
    lc._sandboxes = {}
    class _Sess(object):
        uid = 'session.verif'
        cfg = ru.Config(from_dict={'proxy_url': 'tcp://localhost:10000/'})
        def _get_endpoint_fs(self, pilot):      return ru.Url('file://localhost/')
        def _get_resource_sandbox(self, pilot): return ru.Url('file://localhost%s/rsbox' % scratch)
        def _get_session_sandbox(self, pilot):  return ru.Url('file://localhost%s/rsbox/session.verif' % scratch)
        def _get_pilot_sandbox(self, pilot):    return ru.Url('file://localhost%s/rsbox/session.verif/pilot.0000' % scratch)
        def _get_client_sandbox(self):          return scratch
    lc._session = _Sess()
    return lc


def size_real(rp, lc, sess, label, schema, pd_args, smt_env, rcfg=None, pid='pilot.0000', keep=None):
    import tempfile
    try:
        # a launch bulk hands ONE resource config object to _prepare_pilot for all its pilots
        # (_start_pilot_bulk); callers pass `rcfg` to reproduce that
        if rcfg is None:
            rcfg = sess.get_resource_config(label, schema or None)
    except Exception as e:
        return ['err', 'unresolvable']
    pd   = rp.PilotDescription(dict({'resource': label, 'runtime': 10}, **pd_args))
    for ma in rcfg.mandatory_args:
        if pd.get(ma) is None:
            pd[ma] = 'verif'
    pilot = {'uid': pid, 'description': pd.as_dict()}
    old = os.environ.pop('RADICAL_SMT', None)
    if smt_env or smt_env == '':
        # ('': exported but empty, e.g. `export RADICAL_SMT=$LEVEL` with LEVEL undefined - no override)
        os.environ['RADICAL_SMT'] = str(smt_env)
    before = set(os.listdir(tempfile.gettempdir()))
    try:
        lc._prepare_pilot(label, rcfg, pilot, {}, 'tar')
        jd, ac = pilot['jd_dict'], pilot['cfg']
        if keep is not None:
            # the file with the agent's configuration that is staged for this pilot later on (after the whole bulk
            # was prepared): remembered together with what this pilot's agent has to be told
            src = [sd['source'] for sd in pilot.get('sds', []) if str(sd.get('target', '')).endswith('/agent_0.cfg')]
            keep.append({'pid': pid, 'file': src[0] if src else None,
                         'told': {'pid': pid, 'nodes': ac['nodes'], 'cores': ac['cores'], 'gpus': ac['gpus']}})
        return {'node_count': jd.node_count, 'total_cpu_count': jd.total_cpu_count,
                'total_gpu_count': jd.total_gpu_count, 'processes_per_host': jd.processes_per_host,
                'nodes': ac['nodes'], 'backup_nodes': ac['backup_nodes'], 'cores': ac['cores'],
                'gpus': ac['gpus'], 'cores_per_node': ac['cores_per_node'],
                'gpus_per_node': ac['gpus_per_node']}
    except Exception as e:
        return ['err', exc_name(e)]
    finally:
        os.environ.pop('RADICAL_SMT', None)
        if old is not None:
            os.environ['RADICAL_SMT'] = old
        for f in set(os.listdir(tempfile.gettempdir())) - before:
            if f.startswith('rp.agent_cfg.') and keep is None:
                try: os.unlink(os.path.join(tempfile.gettempdir(), f))
                except OSError: pass


def monitor_size(row, pd, smt, res):
    """the property on the real code's output (independent of the model)"""
    if not isinstance(res, dict):
        if res[1] not in ('ValueError', 'RuntimeError', 'unresolvable'):
            return ('pilot-not-turned-into-a-job', '%s for %s' % (res[1], pd))
        return None
    cpn = row['cpn'] * smt
    if not cpn:
        return None          # node size unknown: property's proviso
    ac = cpn - len(row['blockedCores'])
    ag = row['gpn'] - len(row['blockedGpus']) if row['gpn'] else 0
    if res['nodes'] + res['backup_nodes'] != res['node_count'] or \
       res['cores'] != res['total_cpu_count'] or res['gpus'] != res['total_gpu_count']:
        return ('agent-and-job-figures-differ', 'agent %s vs job %s' % (res, res))
    if res['backup_nodes'] != pd.get('backup_nodes', 0):
        return ('backup-nodes-wrong', str(res))
    if pd.get('nodes'):
        if res['nodes'] != pd['nodes']:
            return ('explicit-node-count-changed', str(res))
    else:
        n = res['nodes']
        fits = lambda m: m * ac >= pd.get('cores', 0) and (ag == 0 or m * ag >= pd.get('gpus', 0))
        if not fits(n):
            return ('too-few-nodes', '%d nodes do not cover %s (avail %d cores, %d gpus per node)' % (n, pd, ac, ag))
        if n > 0 and fits(n - 1):
            return ('more-nodes-than-needed', '%d nodes requested, %d suffice for %s' % (n, n - 1, pd))
    if res['node_count'] * ac != res['total_cpu_count'] and res['node_count'] * ac != 0:
        return ('not-whole-nodes', str(res))
    if res['processes_per_host'] != ac:
        # the batch system is told how many processes fit on a host: the usable cores of a node - with this figure and
        # the total it derives the number of nodes it gives the job
        return ('job-per-host-figure-differs-from-usable-cores',
                'processes_per_host %d, a node has %d usable cores (%d blocked); %d nodes x that != total %d'
                % (res['processes_per_host'], ac, len(row['blockedCores']), res['node_count'], res['total_cpu_count']))
    if res['cores_per_node'] != cpn:
        return ('agent-cores-per-node-wrong', str(res))
    return None


def rc_canon(rc):
    d = rc.as_dict() if hasattr(rc, 'as_dict') else dict(rc)
    d.pop('schemas', None)
    return json.loads(json.dumps(d, sort_keys=True, default=str))


BATCH_MARKERS = ['SLURM_JOB_ID', 'PBS_JOBID', 'LSB_JOBID', 'COBALT_JOBID']


def batch_diff(rp, sess, label, schema, marker):
    """resolve the pair outside of any batch job and with `marker` set (the application runs inside an allocation).
    Inside an allocation of the platform's own resource manager the pilot job is started right there: the job
    manager and file system endpoints are the local ones - under every access schema; everything else, and every
    platform with another resource manager, resolves as outside.  Returns a description of what differs."""
    from radical.pilot.agent.resource_manager import ResourceManager
    from radical.pilot.resource_config import ENDPOINTS_DEFAULT
    saved = {m: os.environ.pop(m, None) for m in BATCH_MARKERS}
    try:
        outside = rc_canon(sess.get_resource_config(label, schema))
        os.environ[marker] = '4711'
        rm = ResourceManager.get_manager(outside.get('resource_manager'))
        inside_alloc = bool(rm and rm.batch_started())
        inside = rc_canon(sess.get_resource_config(label, schema))
    finally:
        os.environ.pop(marker, None)
        for m, v in saved.items():
            if v is not None: os.environ[m] = v
    want = dict(outside)
    if inside_alloc:
        want.update(ENDPOINTS_DEFAULT)
    keys = sorted(k for k in set(want) | set(inside) if want.get(k) != inside.get(k))
    if keys:
        return inside_alloc, {k: {'resolved': inside.get(k), 'expected': want.get(k)} for k in keys}
    return inside_alloc, None


def agent_side(rp, lc, sess, row, nodes, scratch, smt_env=0, backup=0):
    """a pilot of `nodes` whole nodes on the platform of `row`: the figures of the job (real _prepare_pilot) against what
    the agent's resource manager makes of the configuration it is handed (real ResourceManager._init_from_scratch of the
    platform's resource manager, in an allocation of exactly the nodes the job asked for).  Returns (job, agent) or None
    if the platform's resource manager cannot be run here."""
    from props import c18
    kind = (row['rm'] or '').lower()
    if kind not in ('slurm', 'torque', 'lsf', 'pbspro', 'cobalt', 'ccm', 'fork'):
        return None
    # (smt_env: the application overrides the platform's hardware-thread level with $RADICAL_SMT; the job is sized with it
    #  and its environment carries it to the agent)
    res = size_real(rp, lc, sess, row['label'], row['schema'], {'nodes': nodes, 'backup_nodes': backup} if backup else {'nodes': nodes}, smt_env)
    if not isinstance(res, dict):
        return None
    # (with backup nodes the job - and the allocation - has them on top; the agent uses the nodes it was told and keeps
    #  the others in reserve)
    hosts = [0, 1, 6, 7][:nodes + backup]                       # node001, node002, node010, gpu-a of c18.HOSTS
    # (an LSF host file names a host once per physical core; the other node files once per node)
    per   = max(1, res['cores_per_node'] // max(1, smt_env or row['smt'])) if kind == 'lsf' else 1
    case = {'op': 'init', 'kind': kind, 'exec_vnode': None, 'stale': None,
            'cfg': {'cpn': res['cores_per_node'], 'gpn': res['gpus_per_node'], 'smt': row['smt'], 'nodes': res['nodes'],
                    'cores': res['cores'], 'gpus': res['gpus'], 'backup': res['backup_nodes'], 'blocked_cores': list(row['blockedCores']),
                    'blocked_gpus': list(row['blockedGpus']), 'agent_nodes': 0, 'service_nodes': 0, 'env_gpus': None, 'env_gpu_ids': 0},
            'lines': [{'id': h, 'login': False, 'batch': False} for h in hosts for _ in range(per)],
            'hosts': [{'id': h, 'login': False, 'batch': False} for h in hosts],
            'env_cpus': None, 'detected': 64, 'reach': list(range(len(c18.HOSTS))), 'hang': [], 'radical_smt': smt_env}
    rm, shared, err = c18.run_real(rp, case, scratch)
    if rm == 'error':
        return res, {'error': err}
    usable = [sum(1 for c in n[2] if c == 0) for n in rm['node_list']]
    gpus   = [sum(1 for g in n[3] if g == 0) for n in rm['node_list']]
    if backup:
        return res, {'nodes': len(rm['node_list']), 'usable_cores_per_node': sorted(set(usable)), 'told_nodes': res['nodes'], 'backup': res['backup_nodes']}
    return res, {'nodes': len(rm['node_list']), 'usable_cores_per_node': sorted(set(usable)), 'usable_cores': sum(usable),
                 'usable_gpus': sum(gpus)}


def agent_side_monitor(job, agent):
    if 'error' in agent:
        return ('agent-resource-manager-refuses-the-configuration-of-the-job', agent['error'])
    if 'told_nodes' in agent:
        if agent['nodes'] != agent['told_nodes'] or agent['told_nodes'] + agent['backup'] != job['node_count'] \
           or agent['usable_cores_per_node'] != [job['processes_per_host']]:
            return ('agent-node-figures-differ-from-what-it-was-told',
                    'the job asks for %d nodes (%d of them backup), the agent was told %d nodes and works with %d nodes of %s usable cores (the job says %d per host)'
                    % (job['node_count'], agent['backup'], agent['told_nodes'], agent['nodes'], agent['usable_cores_per_node'], job['processes_per_host']))
        return None
    want = {'nodes': job['node_count'], 'usable_cores_per_node': [job['processes_per_host']], 'usable_cores': job['total_cpu_count'],
            'usable_gpus': job['total_gpu_count']}
    if agent != want:
        return ('agent-figures-differ-from-the-job', 'the job asks for %s; the agent\'s resource manager offers %s' % (want, agent))
    return None


def history_diff(rp, label, schemas):
    """resolve `label` under its schemas in the given order in one session and in the opposite order in
    another; returns (schema, differing keys) if a configuration depends on the order"""
    s1, _ = make_session_one(rp, label)
    s2, _ = make_session_one(rp, label)
    a = {sc: rc_canon(s1.get_resource_config(label, sc)) for sc in schemas}
    b = {sc: rc_canon(s2.get_resource_config(label, sc)) for sc in reversed(schemas)}
    for sc in schemas:
        if a[sc] != b[sc]:
            keys = [k for k in set(a[sc]) | set(b[sc]) if a[sc].get(k) != b[sc].get(k)]
            return sc, {k: (a[sc].get(k), b[sc].get(k)) for k in keys}
    return None


def make_session_one(rp, label):
    """a session that knows only the platform `label` (cheap)"""
    import radical.utils as ru
    from radical.pilot.resource_config import ResourceConfig
    site, res = label.split('.', 1)
    rcfgs = ru.Config('radical.pilot.resource', name=site, expand=False)
    s = object.__new__(rp.Session)
    s._rcfgs = ru.Config()
    s._log   = rpload.NullLog()
    s._rcfgs[site] = ru.Config()
    src = rcfgs[site] if site in rcfgs else rcfgs
    s._rcfgs[site][res] = ResourceConfig(src[res])
    return s, []


def real_factories(rp, rc):
    """the names a resolved platform carries, through the real factories (constructors stubbed):
    returns [(kind, name)] for every name a factory does not know"""
    from radical.pilot.agent.launch_method.base import LaunchMethod
    from radical.pilot.agent.scheduler.base import AgentSchedulingComponent
    from radical.pilot.agent.executing.base import AgentExecutingComponent
    bad = []
    saved = (LaunchMethod.__init__, AgentSchedulingComponent.__init__, AgentExecutingComponent.__init__)
    noop = lambda self, *a, **k: None
    LaunchMethod.__init__ = AgentSchedulingComponent.__init__ = AgentExecutingComponent.__init__ = noop
    class _S(object): pass
    sess = _S(); sess.rcfg = rc
    try:
        for lm in [k for k in rc.launch_methods if k != 'order']:
            try:
                LaunchMethod.create(lm, rc.launch_methods[lm], None, rpload.NullLog(), rpload.NullLog())
            except ValueError as e:
                if 'unknown' in str(e): bad.append(('launch-method', lm))
            except Exception:
                pass                              # the class was found; its constructor is not the point here
        for what, fac, name in (('scheduler', AgentSchedulingComponent, rc.agent_scheduler),
                                ('executor', AgentExecutingComponent, rc.agent_spawner)):
            try:
                fac.create(None, sess)
            except ValueError as e:
                if 'unknown' in str(e): bad.append((what, name))
            except Exception:
                pass
    finally:
        LaunchMethod.__init__, AgentSchedulingComponent.__init__, AgentExecutingComponent.__init__ = saved
    return bad


def run(ctx):
    rp = rpload.load()
    import radical.utils as ru
    rows = translate.resource_rows(common.SRC)
    sess, load_errs = make_session(rp)
    for label, err in load_errs:
        ctx.fail('platform-does-not-load:' + label, err, {'kind': 'resolve', 'label': label, 'schema': None})

    # -- (a) translator vs real get_resource_config, exhaustive ------------------
    bad_tie = []
    seen = set()
    for r in rows:
        for schema in ([r['schema'], None] if r['schema'] == r['defaultSchema'] else [r['schema']]):
            key = (r['label'], schema)
            if key in seen: continue
            seen.add(key)
            ctx.case({'label': r['label'], 'schema': schema})
            try:
                rc = sess.get_resource_config(r['label'], schema)
            except Exception as e:
                ctx.fail('platform-does-not-resolve:%s' % r['label'],
                         '%s schema %s: %r' % (r['label'], schema, e),
                         {'kind': 'resolve', 'label': r['label'], 'schema': schema})
                continue
            sa  = rc.system_architecture or {}
            got = {'rm': rc.resource_manager, 'scheduler': rc.agent_scheduler, 'spawner': rc.agent_spawner,
                   'agentConfig': rc.agent_config,
                   'lms': [k for k in rc.launch_methods if k != 'order'],
                   'order': list(rc.launch_methods.get('order') or []),
                   'cpn': rc.cores_per_node, 'gpn': rc.gpus_per_node, 'smt': int(sa.get('smt', 1)),
                   'blockedCores': list(sa.get('blocked_cores', [])), 'blockedGpus': list(sa.get('blocked_gpus', [])),
                   'jobEndpoint': rc.job_manager_endpoint or '', 'fsEndpoint': rc.filesystem_endpoint or ''}
            want = {k: r[k] for k in got}
            if got != want:
                bad_tie.append((key, {k: (got[k], want[k]) for k in got if got[k] != want[k]}))
            # the real factories
            from radical.pilot.agent.resource_manager import ResourceManager
            if ResourceManager.get_manager(rc.resource_manager) is None:
                ctx.fail('unknown-resource-manager:%s' % r['label'], rc.resource_manager,
                         {'kind': 'resolve', 'label': r['label'], 'schema': schema})
            for what, name in real_factories(rp, rc):
                ctx.fail('unknown-%s:%s' % (what, r['label']), '%s %r named by %s (schema %s) is not known to the factory'
                         % (what, name, r['label'], schema), {'kind': 'resolve', 'label': r['label'], 'schema': schema})
    ctx.obligation('translator rows == real Session.get_resource_config (%d resource x schema pairs, exhaustive)'
                   % len(seen), 'tie', not bad_tie, str(bad_tie[:2]))
    # the same pairs resolved from inside a batch job (all four batch systems' markers, one at a time)
    n_in = 0
    for (label, schema) in sorted(seen, key=lambda k: (k[0], str(k[1]))):
        for marker in BATCH_MARKERS:
            try:
                ins, diff = batch_diff(rp, sess, label, schema, marker)
            except Exception:
                continue                    # (does not resolve: reported above)
            n_in += ins
            ctx.case({'label': label, 'schema': schema, 'marker': marker}, nontrivial=ins)
            if diff:
                ctx.fail('resolution-inside-a-batch-job-differs:%s' % ('endpoints-not-local' if ins else 'other-batch-system'),
                         '%s schema %s with %s set: %s' % (label, schema, marker, json.dumps(diff, sort_keys=True)[:300]),
                         {'kind': 'batch', 'label': label, 'schema': schema, 'marker': marker})
    ctx.obligation('inside an allocation of the platform\'s resource manager every schema resolves to the local job manager / file system '
                   'endpoints and to nothing else that differs (%d pairs x %d markers, %d inside)' % (len(seen), len(BATCH_MARKERS), n_in),
                   'tie', n_in > 0, 'no platform recognised any batch marker')
    # what a platform resolves to does not depend on what the session resolved before: the same pairs in
    # the opposite order in a second session give the same configurations
    for label in sorted(set(k[0] for k in seen)):
        schemas = [k[1] for k in sorted(seen, key=lambda k: (k[0], str(k[1]))) if k[0] == label]
        diff = history_diff(rp, label, schemas)
        ctx.case({'history': label, 'schemas': schemas}, nontrivial=len(schemas) > 1)
        if diff:
            ctx.fail('platform-resolution-depends-on-earlier-resolutions:%s' % label,
                     '%s under schema %s: %s' % (label, diff[0], diff[1]), {'kind': 'history', 'label': label, 'schemas': schemas})
    # factories: the class named by the AST really imports
    fac_bad = []
    for name, rel, func in translate.FACTORIES:
        for key, cls, ok in translate.extract_factory(os.path.join(common.SRC, rel), func):
            ctx.case({'factory': name, 'key': key})
    for key, cls, ok in translate.extract_factory(os.path.join(common.SRC, 'agent/resource_manager/base.py'), 'get_manager'):
        from radical.pilot.agent.resource_manager import ResourceManager
        c = ResourceManager.get_manager(key)
        if c is None or c.__name__ != cls:
            fac_bad.append((key, cls))
    ctx.obligation('translator factory table == real ResourceManager.get_manager', 'tie', not fac_bad, str(fac_bad))
    for a in [os.path.basename(f)[6:-5] for f in
              __import__('glob').glob(os.path.join(common.SRC, 'configs', 'agent_*.json'))]:
        try:
            ru.Config('radical.pilot', category='agent', name=a)
        except Exception as e:
            ctx.fail('agent-config-unreadable:' + a, repr(e), {'kind': 'agent_cfg', 'name': a})

    # -- (b) sizing -----------------------------------------------------------------
    lc  = make_launcher(rp, ctx.scratch)
    rng = ctx.rng
    ops, impl = [], []
    nsz = ctx.n(10, 120)
    dist = {'by_nodes': 0, 'by_cores': 0, 'gpu_bound': 0, 'smt_env': 0, 'err': 0}
    done = set()
    for r in rows:
        if (r['label'], r['schema']) in done: continue
        done.add((r['label'], r['schema']))
        if not r['schemaOk']: continue
        cpn = r['cpn'] or 1
        try:
            bulk_rcfg = sess.get_resource_config(r['label'], r['schema'] or None)   # shared by the whole bulk
        except Exception:
            bulk_rcfg = None
        bulk = []
        staged = []
        for _ in range(nsz):
            smt_env = rng.choice([0, 0, 0, 2, 4, '']) if r['cpn'] else rng.choice([0, 0, ''])
            smt = smt_env or r['smt']
            ac  = max(1, cpn * smt - len(r['blockedCores']))
            pdd = {'backup_nodes': rng.choice([0, 0, 1, 3])}
            if rng.random() < 0.3:
                pdd['nodes'] = rng.choice([1, 2, 7, 100])
                dist['by_nodes'] += 1
            else:
                k = rng.choice([1, 2, 3, 17, 1000])
                pdd['cores'] = max(0, k * ac + rng.choice([-1, 0, 1, 0, ac // 2]))
                if r['gpn'] and rng.random() < 0.6:
                    pdd['gpus'] = rng.choice([1, r['gpn'], r['gpn'] + 1, 5 * k * r['gpn'] + 1])
                    dist['gpu_bound'] += 1
                elif not r['gpn'] and rng.random() < 0.4:
                    # GPUs asked for on a platform that declares none per node: sized by cores, the GPU count is passed on
                    pdd['gpus'] = rng.choice([1, 4, 9])
                    dist['gpus_on_platform_without'] = dist.get('gpus_on_platform_without', 0) + 1
                dist['by_cores'] += 1
            if smt_env: dist['smt_env'] += 1
            res = size_real(rp, lc, sess, r['label'], r['schema'], pdd, smt_env, rcfg=bulk_rcfg, pid='pilot.%04d' % len(bulk), keep=staged)
            op = {'op': 'size', 'cpn': r['cpn'], 'gpn': r['gpn'], 'smt': smt,
                  'bc': len(r['blockedCores']), 'bg': len(r['blockedGpus']),
                  'nodes': pdd.get('nodes', 0), 'cores': pdd.get('cores', 0) if 'nodes' not in pdd else 1,
                  'gpus': pdd.get('gpus', 0), 'backup': pdd['backup_nodes']}
            if 'nodes' in pdd:
                op['cores'] = 1      # PilotDescription default for cores
            ops.append(op)
            impl.append(res)
            if not isinstance(res, dict): dist['err'] += 1
            ctx.case(op, nontrivial=isinstance(res, dict))
            bad = monitor_size(r, pdd, smt, res)
            if bad:
                ctx.fail(bad[0], bad[1], {'kind': 'size', 'label': r['label'], 'schema': r['schema'],
                                          'pd': pdd, 'smt_env': smt_env, 'earlier_pilots_of_the_bulk': list(bulk)},
                         observed=res)
            if smt_env == '':
                # exported but empty is no override: the pilot alone, prepared with the variable empty and with it unset
                ra = size_real(rp, lc, sess, r['label'], r['schema'], pdd, '')
                rb = size_real(rp, lc, sess, r['label'], r['schema'], pdd, 0)
                if ra != rb:
                    ctx.fail('empty-RADICAL_SMT-changes-the-job', r['label'] + ': with $RADICAL_SMT exported but empty: %s, unset: %s' % (ra, rb),
                             {'kind': 'size', 'label': r['label'], 'schema': r['schema'], 'pd': pdd, 'smt_env': '', 'empty_vs_unset': True,
                              'earlier_pilots_of_the_bulk': []}, observed=ra)
            bulk.append([pdd, smt_env])
        # the files are staged once the whole bulk is prepared (_start_pilot_bulk): what each pilot's file says then
        bad_file = None
        for e in staged:
            try:
                got = ru.read_json(e['file']) if e['file'] else None
            except Exception as ex:
                got = {'unreadable': repr(ex)}
            seen = None if got is None else {k: got.get(k) for k in ('pid', 'nodes', 'cores', 'gpus')}
            if seen != e['told'] and bad_file is None:
                bad_file = (e, seen)
        for e in staged:
            try:
                if e['file']: os.unlink(e['file'])
            except OSError: pass
        if bad_file:
            ctx.fail('agent-config-file-tells-another-pilots-figures',
                     'bulk of %d pilots on %s: the file staged as agent_0.cfg for %s says %s, that pilot was sized %s'
                     % (len(staged), r['label'], bad_file[0]['pid'], bad_file[1], bad_file[0]['told']),
                     {'kind': 'size', 'label': r['label'], 'schema': r['schema'], 'pd': bulk[-1][0], 'smt_env': bulk[-1][1],
                      'earlier_pilots_of_the_bulk': list(bulk[:-1])})
    # -- (c) the agent side: what the platform's resource manager makes of the figures it is handed ---------------------
    na, seen_a = 0, set()
    for r in rows:
        if (r['label'], r['schema']) in seen_a or not r['schemaOk'] or not r['cpn']: continue
        seen_a.add((r['label'], r['schema']))
        # every platform that blocks something or has hardware threads, a fifth of the others
        if not (r['blockedCores'] or r['blockedGpus'] or r['smt'] > 1) and (len(seen_a) % 5): continue
        for nodes, smt_env, backup in ((1, 0, 0), (2, 0, 0), (2, 0, 1)) + (((1, 2 if r['smt'] != 2 else 4, 0),) if r['smt'] > 1 else ()):
            ja = agent_side(rp, lc, sess, r, nodes, ctx.scratch, smt_env, backup)
            if ja is None: continue
            na += 1
            ctx.case({'agent_side': [r['label'], r['schema'], nodes, smt_env, backup]}, nontrivial=bool(r['blockedCores'] or r['blockedGpus'] or smt_env or backup))
            bad = agent_side_monitor(*ja)
            if bad:
                ctx.fail(bad[0] + (':' + r['label'] if not backup else ''), (r['label'] + ': ' if backup else '') + bad[1] + (' ($RADICAL_SMT=%d)' % smt_env if smt_env else ''),
                         {'kind': 'agent_side', 'label': r['label'], 'schema': r['schema'], 'nodes': nodes, 'smt_env': smt_env, 'backup': backup})
    # every shipped platform x access schema can be turned into a batch job: the launcher resolves its job manager
    # endpoint to an executor
    from radical.pilot.pmgr.launching.psi_j import PilotLauncherPSIJ
    pl = object.__new__(PilotLauncherPSIJ)
    pl._log = rpload.NullLog()
    nl = 0
    for r in rows:
        try:
            rc = sess.get_resource_config(r['label'], r['schema'] or None)
            url = str(rc['job_manager_endpoint'])
        except Exception:
            continue
        parts = url.split(':')[0].split('+')
        managers = [x for x in parts if x not in ('ssh', 'gsissh')]
        if len(managers) != 1:
            continue              # (no or several job managers named: not an endpoint this launcher is meant for)
        nl += 1
        try: got = pl._get_schema(rc)
        except Exception as e: got = 'raised %s' % type(e).__name__
        ctx.case({'launcher_schema': [r['label'], r['schema']]}, nontrivial=len(parts) > 1)
        if not got or str(got).startswith('raised'):
            ctx.fail('platform-cannot-be-turned-into-a-batch-job', '%s [%s]: job manager endpoint %s names the job manager %s, the launcher resolves it to %r'
                     % (r['label'], r['schema'], url, managers[0], got), {'kind': 'launcher_schema', 'label': r['label'], 'schema': r['schema']})
    ctx.obligation('the pilot launcher resolves the job manager endpoint of every shipped platform x access schema to an executor (%d rows)' % nl, 'tie', nl > 0, '')
    ctx.obligation('the agent\'s resource manager, run on the configuration _prepare_pilot hands it in an allocation of the nodes the job asks '
                   'for, offers the node count, usable cores per node, cores and GPUs of the job (%d pilots)' % na, 'tie', na > 0, '')
    ctx.sample({'op': ops[0], 'real_prepare_pilot': impl[0]}, limit=1)
    ctx.sample({'op': ops[-1], 'real_prepare_pilot': impl[-1]}, limit=2)
    ctx.extra['distribution'] = dist
    common.compare(ctx, 'sizing', ops, impl, what='PMGRLaunchingComponent._prepare_pilot sizing (every shipped row x %d sizes)' % nsz)
    ctx.exhaustive = True
    ctx.rule = ('exhaustive over all shipped resource x access schema rows for resolution (real get_resource_config, real '
                'factories); per row %d pilot sizes (by nodes / by cores around multiples of the node size / GPU-bound, '
                'backup nodes, RADICAL_SMT); non-trivial = _prepare_pilot produced a job description' % nsz)
    ctx.assume += ['math.ceil(a / b) equals integer ceiling division on the tied range (< 2^40)',
                   'radical.utils (Config, read_json, TypedDict.verify) is environment',
                   'bootstrapper arguments and the SAGA/PSI-J translation of jd_dict are not modelled',
                   'all pilots of one row are prepared with the same resource config object, as in one launch bulk (sizing must not depend on earlier pilots)']
    ctx.trusted += ['harness/translate.py gen_configs/gen_factories (cross-checked exhaustively against the real Session.get_resource_config)',
                    'decide +kernel (no axioms) for the table theorem']


def replay(ctx, data):
    rp = rpload.load()
    i  = data['input']
    sess, errs = make_session(rp)
    if i['kind'] == 'history':
        diff = history_diff(rp, i['label'], i['schemas'])
        print('observed:', diff)
        return not diff
    if i['kind'] == 'agent_side':
        lc = make_launcher(rp, ctx.scratch)
        rows = [r for r in translate.resource_rows(common.SRC) if r['label'] == i['label'] and r['schema'] == i['schema']]
        ja = agent_side(rp, lc, sess, rows[0], i['nodes'], ctx.scratch, i.get('smt_env', 0), i.get('backup', 0))
        bad = agent_side_monitor(*ja) if ja else None
        print(ja); print(bad)
        return not bad
    if i['kind'] == 'batch':
        ins, diff = batch_diff(rp, sess, i['label'], i['schema'], i['marker'])
        print('observed: inside an allocation of its resource manager: %s; differs: %s' % (ins, diff))
        return not diff
    if i['kind'] == 'resolve':
        try:
            rc = sess.get_resource_config(i['label'], i['schema'])
            bad = real_factories(rp, rc)
            print('observed: unknown to the factories:', bad)
            return not bad
        except Exception as e:
            print('observed:', repr(e))
            return False
    if i['kind'] == 'launcher_schema':
        from radical.pilot.pmgr.launching.psi_j import PilotLauncherPSIJ
        pl = object.__new__(PilotLauncherPSIJ); pl._log = rpload.NullLog()
        rc = sess.get_resource_config(i['label'], i['schema'] or None)
        got = pl._get_schema(rc)
        print(rc['job_manager_endpoint'], '->', got)
        return bool(got)
    if i['kind'] == 'size' and i.get('empty_vs_unset'):
        lc = make_launcher(rp, ctx.scratch)
        ra = size_real(rp, lc, sess, i['label'], i['schema'], i['pd'], '')
        rb = size_real(rp, lc, sess, i['label'], i['schema'], i['pd'], 0)
        print('empty:', ra, 'unset:', rb)
        return ra == rb
    if i['kind'] == 'size':
        rows = [r for r in translate.resource_rows(common.SRC) if r['label'] == i['label'] and r['schema'] == i['schema']]
        lc = make_launcher(rp, ctx.scratch)
        rcfg = sess.get_resource_config(i['label'], i['schema'] or None)
        import radical.utils as ru
        staged = []
        for k, (pd0, smt0) in enumerate(i.get('earlier_pilots_of_the_bulk', [])):
            size_real(rp, lc, sess, i['label'], i['schema'], pd0, smt0, rcfg=rcfg, pid='pilot.%04d' % k, keep=staged)
        res = size_real(rp, lc, sess, i['label'], i['schema'], i['pd'], i['smt_env'], rcfg=rcfg, pid='pilot.%04d' % len(staged), keep=staged)
        bad = monitor_size(rows[0], i['pd'], i['smt_env'] or rows[0]['smt'], res)
        print('observed:', res, bad)
        ok = not bad
        for e in staged:
            got = ru.read_json(e['file']) if e['file'] and os.path.isfile(e['file']) else None
            seen = None if got is None else {k: got.get(k) for k in ('pid', 'nodes', 'cores', 'gpus')}
            if seen != e['told']:
                print('file staged for', e['pid'], 'says', seen, '- the pilot was sized', e['told']); ok = False
        for e in staged:
            try: os.unlink(e['file'])
            except Exception: pass
        return ok
    raise NotImplementedError('replay: unknown kind of input')
