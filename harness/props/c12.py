"""C12 — Each task is bound to exactly one eligible pilot.

Real RoundRobin / Backfilling objects (object.__new__ + _configure, stub
session for _assign_pilot) are driven by random op sequences: submissions with
and without named pilots, add/remove (incl. re-add), pilot state notifications
in any order, task state notifications incl. duplicates.  Every callback runs
under the component's locks in the real code, so ops are atomic.
Tie: per-op outputs (advance calls) and state summary vs rrStep / bfStep.
Monitor: exactly-once forwarding, named -> named pilot, unnamed -> ADDED pilot,
nothing lost, RR balance per scheduling call, BF window / high-water mark / zero."""

import copy
import threading as mt

import common
import rpload


class Url(object):
    def __init__(self, s): self.s = s
    def __str__(self): return self.s


class SessStub(object):
    def _get_client_sandbox(self):            return '/client'
    def _get_endpoint_fs(self, pilot):        return 'file://localhost/'
    def _get_resource_sandbox(self, pilot):   return 'file://localhost/rsbox'
    def _get_session_sandbox(self, pilot):    return 'file://localhost/rsbox/s'
    def _get_pilot_sandbox(self, pilot):      return 'file://localhost/rsbox/s/%s' % pilot['uid']
    def _get_task_sandbox(self, task, pilot): return 'file://localhost/rsbox/s/%s/%s' % (pilot['uid'], task['uid'])


def pname(i): return 'pilot.%04d' % i
def pnum(s):  return int(s.split('.')[1])
def tname(i): return 'task.%06d' % i
def tnum(s):  return int(s.split('.')[1])


def make_sched(rp, kind):
    if kind == 'rr':
        from radical.pilot.tmgr.scheduler.round_robin import RoundRobin as C
    else:
        from radical.pilot.tmgr.scheduler.backfilling import Backfilling as C
    s = object.__new__(C)
    s._uid, s._log, s._prof = 'tmgr.0000.scheduling.0000', rpload.NullLog(), rpload.NullLog()
    s._tmgr         = 'tmgr.0000'
    s._session      = SessStub()
    s._early        = dict()
    s._pilots       = dict()
    s._pilots_lock  = mt.RLock()
    s._tasks        = dict()
    s._tasks_lock   = mt.RLock()
    s._waiting      = dict()
    s._configure()
    s.rec = []
    def advance(things, state=None, publish=True, push=False, **kw):
        if not isinstance(things, list): things = [things]
        for t in things:
            role = None
            if t.get('pilot') and t['pilot'] in s._pilots:
                role = s._pilots[t['pilot']]['role']
            s.rec.append((t['uid'], state, t.get('pilot'), role))
    s.advance = advance
    return s


def snapshot(s, kind):
    pil = []
    for pid, p in s._pilots.items():
        info = p.get('info') or {}
        v = None if p['state'] is None else __import__('radical.pilot').pilot.states._pilot_state_values[p['state']]
        pil.append([pnum(pid), p['role'], v, p['pilot'] is not None, info.get('used', 0), info.get('hwm', 0)])
    if kind == 'rr':
        wait = [tnum(t['uid']) for t in s._wait_pool]
    else:
        wait = [tnum(u) for u in s._wait_pool.keys()]
    early = [[pnum(pid), tnum(t['uid'])] for pid, ts in s._early.items() for t in ts]
    return {'pids': [pnum(p) for p in s._pids], 'wait': wait, 'early': sorted(early), 'pilots': sorted(pil)}


def apply_op(rp, s, kind, op):
    rps = rp.states
    del s.rec[:]
    err = dispatch(rp, s, op)
    return outs_of(rps, s.rec), err, list(s.rec)


def outs_of(rps, rec):
    outs = []
    for uid, state, pilot, role in rec:
        if state == rps.TMGR_SCHEDULING:              outs.append(['sched', tnum(uid)])
        elif state == rps.TMGR_STAGING_INPUT_PENDING: outs.append(['fwd', tnum(uid), pnum(pilot)])
        else:                                         outs.append(['other', tnum(uid), state])
    return outs


def dispatch(rp, s, op):
    rps = rp.states
    err = None
    try:
        if op['op'] == 'add':
            pilots = []
            for pid, cores in zip(op['pids'], op['cores']):
                known = s._pilots.get(pname(pid), {}).get('state')
                snap  = known or rps.NEW
                # the pilot dict of the add_pilots message is a snapshot: it may be older than what the
                # scheduler already learned from state notifications (never newer here)
                stale = op.get('stale', 0)
                if known and stale:
                    v = rps._pilot_state_values[known]
                    snap = rps._pilot_state_inv[max(0, min(v, 4) - stale)]
                pilots.append({'uid': pname(pid), 'type': 'pilot', 'state': snap,
                               'description': {'cores': cores}})
            s.control_cb('control', {'cmd': 'add_pilots', 'arg': {'tmgr': s._tmgr, 'pilots': pilots}})
        elif op['op'] == 'remove':
            s.control_cb('control', {'cmd': 'remove_pilots',
                                     'arg': {'tmgr': s._tmgr, 'pids': [pname(p) for p in op['pids']]}})
        elif op['op'] == 'pilot_states':
            # ONE notification naming several pilots
            s._base_state_cb('state', {'cmd': 'update', 'arg': [
                {'type': 'pilot', 'uid': pname(u['pid']), 'state': u['state']} for u in op['ups']]})
        elif op['op'] == 'pilot_state':
            s._base_state_cb('state', {'cmd': 'update', 'arg': [
                {'type': 'pilot', 'uid': pname(op['pid']), 'state': op['state']}]})
        elif op['op'] == 'work':
            tasks = []
            for t in op['tasks']:
                d = {'uid': tname(t['uid']), 'type': 'task', 'state': rps.TMGR_SCHEDULING_PENDING,
                     'description': {'ranks': t['cores'], 'cores_per_rank': 1}}
                if t.get('pilot') is not None:
                    d['pilot'] = pname(t['pilot'])
                tasks.append(d)
            s.work(tasks)
        elif op['op'] == 'mixed_states':
            # ONE notification that names pilots and tasks (the state channel carries both kinds of things)
            inv = {v: k for k, v in rps._task_state_values.items() if k not in ('FAILED', 'CANCELED')}
            arg = []
            for x in op['things']:
                if 'pid' in x:
                    arg.append({'type': 'pilot', 'uid': pname(x['pid']), 'state': x['state']})
                else:
                    arg.append({'uid': tname(x['uid']), 'type': 'task', 'state': inv[x['sv']], 'pilot': pname(x['pilot']),
                                'description': {'ranks': x['cores'], 'cores_per_rank': 1}})
            s._base_state_cb('state', {'cmd': 'update', 'arg': arg})
        elif op['op'] == 'task_states':
            inv = {v: k for k, v in rps._task_state_values.items() if k not in ('FAILED', 'CANCELED')}
            arg = []
            for t in op['tasks']:
                d = {'uid': tname(t['uid']), 'type': 'task', 'state': inv[t['sv']],
                     'description': {'ranks': t['cores'], 'cores_per_rank': 1}}
                if t.get('pilot') is not None:
                    d['pilot'] = pname(t['pilot'])
                arg.append(d)
            s._base_state_cb('state', {'cmd': 'update', 'arg': arg})
    except ValueError:
        err = 'ValueError'
    except RuntimeError:
        err = 'RuntimeError'
    except KeyError:
        err = 'KeyError'
    except Exception as e:           # anything else the call lets escape (the batch it carried is then lost)
        err = type(e).__name__
    return err


# -- a second event handled by another thread while a backfilling pass hands its tasks on ------------------------------
class CountLock(object):
    """a lock that knows whether it is held (one thread drives the component here)"""
    def __init__(self): self.depth = 0
    def acquire(self, *a, **k): self.depth += 1; return True
    def release(self): self.depth -= 1
    def __enter__(self): self.depth += 1; return self
    def __exit__(self, *a): self.depth -= 1


def run_overlap(rp, ops, at):
    """Backfilling: the callbacks `ops` one after the other, except that ops[at+1] is handled (as by another thread: work()
    runs on the input thread, control_cb and the state callback on subscriber threads) at the moment the scheduling pass of
    ops[at] hands its tasks on - inside `advance`, when the pass holds none of the scheduler's locks.  Returns per op what
    was forwarded and the error, the final snapshot, and whether the overlap took place."""
    rps = rp.states
    s = make_sched(rp, 'bf')
    locks = {}
    for k, v in list(vars(s).items()):
        if k.endswith('_lock'):
            locks[k] = CountLock(); setattr(s, k, locks[k])
    state = {'hook': None, 'in_pass': 0, 'took_place': False, 'nested': None}
    orig_pass, rec_advance = s._schedule_tasks, s.advance
    def sched_pass(*a, **k):
        state['in_pass'] += 1
        try: return orig_pass(*a, **k)
        finally: state['in_pass'] -= 1
    def advance(things, st=None, publish=True, push=False, **kw):
        rec_advance(things, st, publish, push)
        if state['hook'] is not None and state['in_pass'] == 1 and st == rps.TMGR_STAGING_INPUT_PENDING \
           and not any(l.depth for l in locks.values()):
            op_b, state['hook'] = state['hook'], None
            mark = len(s.rec)
            err = dispatch(rp, s, op_b)
            state['nested'] = (list(s.rec[mark:]), err)
            del s.rec[mark:]
            state['took_place'] = True
    # second window: control_cb marks the pilots of a remove command REMOVED under the pilots lock, releases it, and only
    # then has the scheduler take them out of its list (remove_pilots)
    orig_remove = s.remove_pilots
    def remove_pilots(pids):
        if state['hook'] is not None and not any(l.depth for l in locks.values()):
            op_b, state['hook'] = state['hook'], None
            mark = len(s.rec)
            err = dispatch(rp, s, op_b)
            state['nested'] = (list(s.rec[mark:]), err)
            del s.rec[mark:]
            state['took_place'] = True
        return orig_remove(pids)
    s.remove_pilots = remove_pilots
    s._schedule_tasks, s.advance = sched_pass, advance
    res, j = [], 0
    while j < len(ops):
        if j == at and j + 1 < len(ops):
            state['hook'] = ops[j + 1]
            outs, err, _ = apply_op(rp, s, 'bf', ops[j])
            res.append((outs, err))
            if state['hook'] is None:
                rec_b, err_b = state['nested']
                res.append((outs_of(rps, rec_b), err_b))
            else:
                state['hook'] = None
                outs, err, _ = apply_op(rp, s, 'bf', ops[j + 1]); res.append((outs, err))
            j += 2
        else:
            outs, err, _ = apply_op(rp, s, 'bf', ops[j]); res.append((outs, err))
            j += 1
    return res, snapshot(s, 'bf'), state['took_place']


def overlap_monitor(ops, seq, seq_snap, res, snap):
    bad = []
    fwd = {}
    for k, (outs, err) in enumerate(res):
        for o in outs:
            if o[0] == 'fwd':
                if o[1] in fwd:
                    bad.append(('overlap:task-forwarded-twice', 'task %d forwarded to pilot %d and again to pilot %d' % (o[1], fwd[o[1]], o[2])))
                fwd[o[1]] = o[2]
    tasks = set(t['uid'] for op in ops if op['op'] == 'work' for t in op['tasks'])
    held = set(snap['wait']) | set(e[1] for e in snap['early']) | set(fwd)
    if not any(e for _, e in res):
        for u in sorted(tasks - held):
            bad.append(('overlap:task-lost', 'task %d is neither forwarded nor waiting' % u))
    if [(sorted(map(tuple, o)), e) for o, e in res] != [(sorted(map(tuple, o)), e) for o, e in seq] or snap != seq_snap:
        bad.append(('overlap:differs-from-the-callbacks-one-after-the-other', 'with the second callback handled while the pass hands its tasks on: %s, '
                    'state %s; one after the other: %s, state %s' % (res, snap, seq, seq_snap)))
    return bad


def run_bulk_states(rp, npil, ntasks, bulk):
    """Backfilling: pilots are added while still launching, tasks arrive and wait; then ONE state notification names several
    pilots (the pilot manager publishes what it collected).  Returns the snapshot afterwards and what was forwarded."""
    s = make_sched(rp, 'bf')
    ops = bulk_ops(npil, ntasks, bulk)
    res = []
    for op in ops:
        outs, err, _ = apply_op(rp, s, 'bf', op)
        res.append({'outs': outs, 'err': err, 'state': snapshot(s, 'bf')})
    return res[-1]['state'], res[-1]['outs'], res[-1]['err'], res


def bulk_ops(npil, ntasks, bulk):
    return [{'op': 'add', 'pids': list(range(npil)), 'cores': [4] * npil, 'stale': 0}] + \
           [{'op': 'pilot_state', 'pid': p, 'state': 'PMGR_LAUNCHING'} for p in range(npil)] + \
           [{'op': 'work', 'tasks': [{'uid': u, 'cores': 1, 'pilot': None} for u in range(ntasks)]},
            {'op': 'pilot_states', 'ups': [{'pid': p, 'state': st} for p, st in bulk]}]


def bulk_states_part(ctx, rp):
    import itertools
    sts = ['PMGR_ACTIVE_PENDING', 'PMGR_ACTIVE', 'DONE', 'FAILED']
    cfg = bf_cfg(rp)
    n = 0
    mops, impl = [], []
    for npil in (2, 3):
        for bulk_states in itertools.product(sts, repeat=npil):
            for order in itertools.permutations(range(npil)):
                bulk = [(p, bulk_states[p]) for p in order]
                snap, outs, err, res = run_bulk_states(rp, npil, 3, bulk)
                mops.append({'op': 'bf', 'ops': bulk_ops(npil, 3, bulk), 'start': cfg['start'], 'stop': cfg['stop'], 'hwm': cfg['hwm']})
                impl.append(res)
                n += 1
                ctx.case({'bulk_states': bulk}, nontrivial='PMGR_ACTIVE' in bulk_states)
                room = [pe for pe in snap['pilots'] if pe[1] == 'added' and pe[2] is not None and cfg['start'] <= pe[2] <= cfg['stop'] and pe[4] < pe[5]]
                if err:
                    ctx.fail('bulk-notification:raises', '%s: %s' % (bulk, err), {'kind': 'bf', 'bulk_states': {'npil': npil, 'bulk': bulk}})
                elif snap['wait'] and room:
                    ctx.fail('bulk-notification:tasks-wait-although-an-eligible-pilot-has-room',
                             'one notification %s: afterwards tasks %s wait, pilots %s are added, active and below their high-water mark'
                             % (bulk, snap['wait'], [pe[0] for pe in room]), {'kind': 'bf', 'bulk_states': {'npil': npil, 'bulk': bulk}})
    def canon(r):
        if not isinstance(r, list): return r
        return [{'outs': [list(o) for o in x['outs']], 'err': x['err'], 'pids': x['state']['pids'], 'wait': x['state']['wait'],
                 'early': sorted([list(e) for e in x['state']['early']]), 'pilots': sorted([list(p) for p in x['state']['pilots']])} for x in r]
    common.compare(ctx, 'tmgrsched', mops, impl, canon=canon,
                   what='Backfilling, one state notification naming several pilots (model bfPilotStates): forwards, wait pool, pilot table')
    ctx.obligation('Backfilling: one state notification naming several pilots (every combination and order of 2-3 pilots entering / missing / leaving '
                   'the window): no task keeps waiting while an eligible pilot has room (%d notifications)' % n, 'tie', True, '')


def mixed_ops(pstate, first, second_pilot):
    ops = [{'op': 'add', 'pids': [0], 'cores': [2], 'stale': 0}, {'op': 'pilot_state', 'pid': 0, 'state': 'PMGR_ACTIVE'},
           {'op': 'work', 'tasks': [{'uid': u, 'cores': 1, 'pilot': None} for u in range(6)]}]
    things = [{'pid': 0, 'state': pstate}, {'uid': 0, 'pilot': 0, 'sv': 13, 'cores': 1}]
    if first == 'task': things.reverse()
    ops.append({'op': 'mixed_states', 'things': things})
    if second_pilot:
        ops += [{'op': 'add', 'pids': [1], 'cores': [4], 'stale': 0}, {'op': 'pilot_state', 'pid': 1, 'state': 'PMGR_ACTIVE'}]
    return ops


def run_mixed(rp, ops):
    s = make_sched(rp, 'bf')
    res = []
    for op in ops:
        outs, err, _ = apply_op(rp, s, 'bf', op)
        res.append({'outs': outs, 'err': err, 'state': snapshot(s, 'bf')})
    return res


def mixed_part(ctx, rp):
    """Backfilling: a pilot at its high-water mark with tasks waiting; ONE notification reports the pilot final (or still
    active) AND one of its tasks past execution.  The pass the finished task triggers must see the pilot as the
    notification reports it: no waiting task is bound to a pilot the scheduler has just been told is final."""
    n = 0
    cfg = bf_cfg(rp)
    mops, impl = [], []
    for pstate in ('DONE', 'FAILED', 'CANCELED', 'PMGR_ACTIVE'):
        for first in ('pilot', 'task'):
            for second_pilot in (False, True):
                ops = mixed_ops(pstate, first, second_pilot)
                res = run_mixed(rp, ops)
                n += 1
                ctx.case({'mixed': [pstate, first, second_pilot]}, nontrivial=pstate != 'PMGR_ACTIVE')
                mops.append({'op': 'bf', 'ops': ops, 'start': cfg['start'], 'stop': cfg['stop'], 'hwm': cfg['hwm']})
                impl.append(res)
                inp = {'kind': 'bf', 'mixed': {'pstate': pstate, 'first': first, 'second_pilot': second_pilot}}
                bad = mixed_monitor(pstate, second_pilot, res)
                if bad: ctx.fail(bad[0], bad[1], inp)
    def canon(r):
        if not isinstance(r, list): return r
        return [{'outs': [list(o) for o in x['outs']], 'err': x['err'], 'pids': x['state']['pids'], 'wait': x['state']['wait'],
                 'early': sorted([list(e) for e in x['state']['early']]), 'pilots': sorted([list(p) for p in x['state']['pilots']])} for x in r]
    common.compare(ctx, 'tmgrsched', mops, impl, canon=canon,
                   what='Backfilling, one notification naming a pilot and one of its tasks (model bfMixed): forwards, wait pool, pilot table')
    ctx.obligation('Backfilling: one notification reporting a pilot final and one of its tasks finished: no waiting task is bound to the '
                   'final pilot, the waiting tasks go to a pilot added later (%d notifications)' % n, 'tie', True, '')


def mixed_monitor(pstate, second_pilot, res):
    if any(r['err'] for r in res):
        return ('mixed-notification:raises', str([r['err'] for r in res]))
    at = 3
    fw = [o for o in res[at]['outs'] if o[0] == 'fwd']
    if pstate != 'PMGR_ACTIVE' and fw:
        return ('mixed-notification:task-bound-to-a-pilot-reported-final',
                'the notification reports pilot 0 %s and task 0 finished; forwarded on it: %s' % (pstate, fw))
    if pstate == 'PMGR_ACTIVE' and len(fw) != 1:
        return ('mixed-notification:freed-capacity-not-used', 'pilot 0 stays active, task 0 finished, forwarded: %s' % fw)
    if second_pilot and pstate != 'PMGR_ACTIVE':
        late = [o for r in res[at + 1:] for o in r['outs'] if o[0] == 'fwd']
        if sorted(o[1] for o in late) != [4, 5] or any(o[2] != 1 for o in late):
            return ('mixed-notification:waiting-tasks-not-bound-to-the-pilot-added-later', 'forwarded after pilot 1 became active: %s' % late)
    return None


def overlap_part(ctx, rp):
    rng = ctx.rng
    n = took = 0
    scripts = [list(c) for c in OVERLAP_CORPUS] + [gen_script(rng, 'bf') for _ in range(ctx.n(250, 8000))]
    for sc in scripts:
        ops, res0, viol, _ = run_script(rp, 'bf', sc)
        if viol: continue                         # (reported by the sequential part)
        seq = [(r['outs'], r['err']) for r in res0]
        seq_snap = res0[-1]['state'] if res0 else None
        for at in range(len(ops) - 1):
            # (a callback that hands tasks on, or a remove command that is accepted)
            if not any(o[0] == 'fwd' for o in seq[at][0]) and not (ops[at]['op'] == 'remove' and not seq[at][1]): continue
            # (two callbacks of the same thread never overlap: add / remove commands are handled one after the other by the
            #  control subscriber, state notifications by the state subscriber, new tasks by the input thread)
            if THREAD_OF[ops[at]['op']] == THREAD_OF[ops[at + 1]['op']]: continue
            res, snap, tp = run_overlap(rp, ops, at)
            n += 1; took += tp
            ctx.case({'overlap': at, 'ops': ops}, nontrivial=tp)
            if not tp: continue
            for sig, what in overlap_monitor(ops, seq, seq_snap, res, snap):
                ctx.fail(sig, what, {'kind': 'bf', 'overlap': {'ops': ops, 'at': at}})
    ctx.obligation('Backfilling: a second callback handled by another thread while a pass hands its tasks on leaves what the two callbacks '
                   'leave one after the other (%d overlaps tried, %d took place)' % (n, took), 'tie', took > 0, 'no overlap took place')


THREAD_OF = {'add': 'control', 'remove': 'control', 'pilot_state': 'state', 'task_states': 'state', 'work': 'input'}


OVERLAP_CORPUS = [
    [{'op': 'add', 'pids': [0], 'cores': [2], 'stale': 0}, {'op': 'pilot_state', 'pid': 0, 'state': 'PMGR_ACTIVE'},
     {'op': 'work', 'tasks': [{'uid': i, 'cores': 2, 'pilot': None} for i in range(4)]},
     {'op': 'add', 'pids': [1], 'cores': [4], 'stale': 0}, {'op': 'pilot_state', 'pid': 1, 'state': 'PMGR_ACTIVE'}],
]


def gen_script(rng, kind):
    npil = rng.randint(1, 5)
    ops, uid = [], 0
    added, removed = set(), set()
    fwd_guess = {}
    for _ in range(rng.randint(3, 14)):
        r = rng.random()
        if r < 0.22:
            cand = [p for p in range(npil) if p not in added] or list(range(npil))
            pids = rng.sample(cand, rng.randint(1, min(3, len(cand))))
            if rng.random() < 0.05: pids = [rng.randrange(npil)]           # maybe already added
            ops.append({'op': 'add', 'pids': pids, 'cores': [rng.choice([1, 2, 4, 8]) for _ in pids],
                        'stale': rng.choice([0, 0, 0, 1, 2, 4])})
            added |= set(pids); removed -= set(pids)
        elif r < 0.32 and added:
            # one command may name several pilots (often neighbours in the order they were added)
            k = rng.choice([1, 1, 2, 2, 3])
            sa = sorted(added)
            i0 = rng.randrange(len(sa))
            pids = sa[i0:i0 + k] if rng.random() < 0.6 else rng.sample(sa, min(k, len(sa)))
            if rng.random() < 0.1: pids = [rng.randrange(npil)]
            ops.append({'op': 'remove', 'pids': pids})
            added -= set(pids); removed |= set(pids)
        elif r < 0.5:
            st = rng.choice(['NEW', 'PMGR_LAUNCHING_PENDING', 'PMGR_LAUNCHING', 'PMGR_ACTIVE_PENDING',
                             'PMGR_ACTIVE', 'PMGR_ACTIVE', 'PMGR_ACTIVE', 'DONE', 'FAILED', 'CANCELED'])
            ops.append({'op': 'pilot_state', 'pid': rng.randrange(npil), 'state': st})
        elif r < 0.85:
            ts = []
            for _ in range(rng.randint(1, 6)):
                t = {'uid': uid, 'cores': rng.choice([1, 1, 2, 3]), 'pilot': None}
                if rng.random() < 0.25:
                    t['pilot'] = rng.randrange(npil)
                ts.append(t); uid += 1
            ops.append({'op': 'work', 'tasks': ts})
        else:
            if uid == 0: continue
            ts = []
            for _ in range(rng.randint(1, 4)):
                u = rng.randrange(uid)
                # the pilot is filled in from what really happened (a task only ever carries the
                # pilot the scheduler bound it to)
                ts.append({'uid': u, 'pilot': None,
                           'sv': rng.choice([9, 10, 11, 12, 15]), 'cores': 1, '_fill': True})
            ops.append({'op': 'task_states', 'tasks': ts})
    return ops


def run_script(rp, kind, ops):
    """runs the real scheduler; task_states ops marked _fill get pilot/cores from what really happened"""
    s = make_sched(rp, kind)
    res, fwd, cores, named = [], {}, {}, {}
    assigned, finished, any_err = {}, {}, False
    violations = []
    seen_val = {}          # pilot -> furthest state value any message carried so far
    used_state = {}        # pilot -> state value the scheduler tracked after the previous op
    ops = copy.deepcopy(ops)
    for op in ops:
        if op['op'] == 'work':
            for t in op['tasks']:
                cores[t['uid']] = t['cores']; named[t['uid']] = t['pilot']
        if op['op'] == 'task_states':
            for t in op['tasks']:
                if t.pop('_fill', False):
                    if t['pilot'] is None and t['uid'] in fwd:
                        t['pilot'] = fwd[t['uid']]
                    t['cores'] = cores.get(t['uid'], 1)
        # -- an account of the backfilling usage figure kept by the monitor itself: what was assigned to a pilot
        #    since it was (last) added, and which of those tasks were reported past execution
        if kind == 'bf' and op['op'] == 'task_states':
            for t in op['tasks']:
                pid = t.get('pilot')
                if pid is not None and t['uid'] in assigned.get(pid, {}) and t['sv'] > 10:
                    finished.setdefault(pid, set()).add(t['uid'])
        pids_before = [pnum(p) for p in s._pids]
        used_before = {pnum(p): (v.get('info') or {}).get('used', 0) for p, v in s._pilots.items()}
        outs, err, rec = apply_op(rp, s, kind, op)
        snap = snapshot(s, kind)
        if op['op'] == 'pilot_state' and err is None:
            v = rp.states._pilot_state_values[op['state']]
            seen_val[op['pid']] = max(seen_val.get(op['pid'], -1), v)
        for pe in snap['pilots']:
            was = used_state.get(pe[0])
            if was is not None and (pe[2] is None or pe[2] < was):
                violations.append(('pilot-state-moved-backwards', 'the scheduler\'s state of pilot %d went from value %s to %s on %s'
                                   % (pe[0], was, pe[2], op['op'])))
            if pe[2] is not None: used_state[pe[0]] = pe[2]
        res.append({'outs': outs, 'err': err, 'state': snap})
        if err: any_err = True
        if kind == 'bf' and op['op'] == 'add' and not err:
            for pid in op['pids']:
                assigned[pid], finished[pid] = {}, set()
        if kind == 'bf':
            for o in outs:
                if o[0] == 'fwd' and named.get(o[1]) is None:
                    assigned.setdefault(o[2], {})[o[1]] = cores.get(o[1], 1)
        # -- monitor -----------------------------------------------------------------
        for o, r in zip(outs, rec):
            if o[0] != 'fwd': continue
            u, p = o[1], o[2]
            if u in fwd:
                violations.append(('task-forwarded-twice', 'task %d forwarded to %d and again to %d' % (u, fwd[u], p)))
            fwd[u] = p
            if named.get(u) is not None:
                if p != named[u]:
                    violations.append(('named-task-to-other-pilot', 'task %d names %d, sent to %d' % (u, named[u], p)))
            else:
                if r[3] != 'added':
                    violations.append(('unnamed-task-to-pilot-not-added', 'task %d sent to pilot %d with role %s' % (u, p, r[3])))
                if kind == 'bf':
                    pe = [x for x in snap['pilots'] if x[0] == p][0]
                    start, stop = bf_cfg(rp)['start'], bf_cfg(rp)['stop']
                    if pe[2] is None or not (start <= pe[2] <= stop):
                        violations.append(('bf:pilot-outside-eligible-states', 'task %d -> pilot %d in state value %s' % (u, p, pe[2])))
                    if seen_val.get(p, -1) > stop:
                        violations.append(('bf:task-bound-to-final-pilot', 'task %d -> pilot %d which was already reported final' % (u, p)))
        if kind == 'bf':
            # usage just before each assignment of this scheduling call must be below the HWM
            for pe in snap['pilots']:
                cs = [cores.get(o[1], 1) for o in outs if o[0] == 'fwd' and o[2] == pe[0] and named.get(o[1]) is None]
                start = pe[4] - sum(cs)
                acc = start
                for c in cs:
                    if acc >= pe[5]:
                        violations.append(('bf:assigned-at-high-water-mark',
                                           'pilot %d got a task at usage %d with hwm %d' % (pe[0], acc, pe[5])))
                        break
                    acc += c
        if kind == 'rr' and op['op'] in ('work', 'add') and not err:
            un = [o[2] for o in outs if o[0] == 'fwd' and named.get(o[1]) is None]
            if un and snap['pids']:
                cnt = [un.count(p) for p in snap['pids']]
                if max(cnt) - min(cnt) > 1:
                    violations.append(('rr:unbalanced-batch', 'loads %s over pilots %s' % (cnt, snap['pids'])))
        if err == 'RuntimeError':
            violations.append(('bf:inconsistent-scheduler-state', 'update_tasks raised RuntimeError on %s' % op))
    if kind == 'bf' and not any_err:
        for pid, p in s._pilots.items():
            info = p.get('info') or {}
            n = pnum(pid)
            want = sum(c for u, c in assigned.get(n, {}).items() if u not in finished.get(n, set()))
            if info and info['used'] != want:
                violations.append(('bf:usage-differs-from-the-tasks-still-running',
                                   'pilot %s: used %s; assigned since it was added %s, reported finished %s'
                                   % (pid, info['used'], assigned.get(n, {}), sorted(finished.get(n, set())))))
    if kind == 'bf':
        for pid, p in s._pilots.items():
            info = p.get('info') or {}
            if info and set(info['tasks']) <= set(info['done']) and info['used'] != 0:
                violations.append(('bf:usage-not-zero-after-all-tasks-finished',
                                   'pilot %s: used %s, tasks %s done %s' % (pid, info['used'], info['tasks'], info['done'])))
    # nothing lost
    snap = snapshot(s, kind)
    held = set(snap['wait']) | set(e[1] for e in snap['early']) | set(fwd)
    for u in cores:
        if u not in held:
            violations.append(('task-lost', 'task %d is neither forwarded nor waiting' % u))
    return ops, res, violations, s


_bf = {}
def bf_cfg(rp):
    if not _bf:
        import radical.pilot.tmgr.scheduler.backfilling as bf
        _bf.update({'start': bf._BF_START_VAL, 'stop': bf._BF_STOP_VAL, 'hwm': bf._HWM})
    return _bf


CORPUS = {
    'rr': [
        # F15 (fixed): early-bound task forwarded again when its pilot is re-added
        [{'op': 'work', 'tasks': [{'uid': 0, 'cores': 1, 'pilot': 0}]},
         {'op': 'add', 'pids': [0], 'cores': [4]}, {'op': 'remove', 'pids': [0]},
         {'op': 'add', 'pids': [0], 'cores': [4]}],
        [{'op': 'work', 'tasks': [{'uid': i, 'cores': 1, 'pilot': None} for i in range(5)]},
         {'op': 'add', 'pids': [0, 1], 'cores': [4, 4]},
         {'op': 'work', 'tasks': [{'uid': 5 + i, 'cores': 1, 'pilot': None} for i in range(3)]}],
    ],
    'bf': [
        [{'op': 'add', 'pids': [0], 'cores': [2]}, {'op': 'pilot_state', 'pid': 0, 'state': 'PMGR_ACTIVE'},
         {'op': 'work', 'tasks': [{'uid': i, 'cores': 1, 'pilot': None} for i in range(6)]},
         {'op': 'task_states', 'tasks': [{'uid': 0, 'pilot': 0, 'sv': 11, 'cores': 1},
                                         {'uid': 1, 'pilot': 0, 'sv': 15, 'cores': 1}]}],
    ],
}


def run(ctx):
    rp  = rpload.load()
    rng = ctx.rng
    cfg = bf_cfg(rp)
    dist = {'rr': 0, 'bf': 0, 'errors': 0, 'fwd': 0}
    for kind in ('rr', 'bf'):
        scripts = list(CORPUS[kind]) + [gen_script(rng, kind) for _ in range(ctx.n(700, 25000))]
        mops, impl = [], []
        for sc in scripts:
            ops, res, viol, _ = run_script(rp, kind, sc)
            mops.append({'op': kind, 'ops': ops, 'start': cfg['start'], 'stop': cfg['stop'], 'hwm': cfg['hwm']})
            impl.append(res)
            nf = sum(1 for r in res for o in r['outs'] if o[0] == 'fwd')
            dist[kind] += 1; dist['fwd'] += nf; dist['errors'] += sum(1 for r in res if r['err'])
            ctx.case({'kind': kind, 'ops': ops}, nontrivial=nf > 0)
            for v in viol:
                ctx.fail(v[0], v[1], {'kind': kind, 'ops': sc})
        ctx.sample({'scheduler': kind, 'ops': mops[-1]['ops'], 'observed': impl[-1]}, limit=2 if kind == 'bf' else 1)
        def canon(r):
            if not isinstance(r, list): return r
            out = []
            for x in r:
                st = x['state']
                out.append({'outs': [list(o) for o in x['outs']], 'err': x['err'],
                            'pids': st['pids'], 'wait': st['wait'], 'early': sorted([list(e) for e in st['early']]),
                            'pilots': sorted([list(p) if kind == 'bf' else list(p)[:4] for p in st['pilots']])})
            return out
        common.compare(ctx, 'tmgrsched', mops, impl, canon=canon,
                       what='%s scheduler: per-op forwards, errors, wait pool, early list, pilot table' %
                            ('RoundRobin' if kind == 'rr' else 'Backfilling'))
    overlap_part(ctx, rp)
    bulk_states_part(ctx, rp)
    mixed_part(ctx, rp)
    ctx.extra['distribution'] = dist
    ctx.rule = ('random scripts of 3-14 atomic callbacks over 1-4 pilots: add (1-2 pilots, sometimes already added), remove, '
                'pilot state notifications (any state, any order), submissions of 1-6 tasks (25% naming a pilot, known or not), '
                'task state notifications (duplicates, before/after AGENT_EXECUTING); non-trivial = at least one task forwarded')
    ctx.assume += ['each callback is atomic (runs under _pilots_lock/_wait_lock in the code)',
                   'the pilot dict passed to add_pilots is a snapshot of the pilot taken at or before the latest notification (it may be stale)',
                   '_assign_pilot does not raise (sandbox derivation is a stub)',
                   'backfilling window/HWM are the module defaults (PMGR_ACTIVE..PMGR_ACTIVE, 200%)']
    ctx.trusted += ['harness/props/c12.py (real RoundRobin/Backfilling via object.__new__, stub session)']


def replay(ctx, data):
    rp = rpload.load()
    i  = data['input']
    if i.get('mixed'):
        m = i['mixed']
        res = run_mixed(rp, mixed_ops(m['pstate'], m['first'], m['second_pilot']))
        bad = mixed_monitor(m['pstate'], m['second_pilot'], res)
        print([(r['outs'], r['err']) for r in res], bad)
        return not bad
    if i.get('bulk_states'):
        b = i['bulk_states']
        cfg = bf_cfg(rp)
        snap, outs, err, _ = run_bulk_states(rp, b['npil'], 3, [tuple(x) for x in b['bulk']])
        room = [pe for pe in snap['pilots'] if pe[1] == 'added' and pe[2] is not None and cfg['start'] <= pe[2] <= cfg['stop'] and pe[4] < pe[5]]
        print(snap, outs, err)
        return not err and not (snap['wait'] and room)
    if i.get('overlap'):
        ops, res0, viol, _ = run_script(rp, 'bf', i['overlap']['ops'])
        seq = [(r['outs'], r['err']) for r in res0]
        res, snap, tp = run_overlap(rp, ops, i['overlap']['at'])
        bad = overlap_monitor(ops, seq, res0[-1]['state'], res, snap) if tp else []
        print('overlap took place:', tp); print(res); print(bad)
        return not bad
    ops, res, viol, _ = run_script(rp, i['kind'], i['ops'])
    for r in res: print(r['outs'], r['err'])
    print(viol)
    return not viol
