"""The NOOP executor (agent/executing/noop.py), used by C03 and C07.

The REAL NOOP.work and NOOP._collect run in real threads under the cooperative scheduler
(harness/coop.py): `_tasks_lock` is replaced by a lock whose acquisition and release are scheduling
points, `time.sleep` of the collector is a point, time is a virtual clock.  A schedule is a list of
choices (which thread moves, the clock advances).  The order in which the lock sections are entered,
with the tasks that were due at each collector pass, is fed to `RPVerif.Noop.run`.
Tie: tasks left in `_tasks` and the events per task vs the model.
Monitor: every accepted task is announced once, handed on at most once and - after the drain -
exactly once, with exactly one unschedule publication (never lost, never duplicated)."""

import threading as mt

import common
import rpload
import coop


class CsLock(object):
    """`_tasks_lock`: entering and leaving are scheduling points; entering is recorded"""
    def __init__(self, log, clock):
        self.l, self.log, self.clock = mt.RLock(), log, clock
    def __enter__(self):
        coop.point('lock')
        self.l.acquire()
        w = getattr(coop._local, 'worker', None)
        self.log.append([w.name if w else '?', self.clock['now']])
    def __exit__(self, *a):
        self.l.release()
        coop.point('unlocked')


class Clock(object):
    """`time` as noop.py sees it"""
    def __init__(self, clock): self.c = clock
    def time(self): return float(self.c['now'])
    def sleep(self, s): coop.point('sleep')


def run_schedule(rp, bulks, choices, drain=True):
    """bulks: [[(uid, duration), ...], ...] one per work() call; choices: 'w<i>' (thread of bulk i moves),
    'c' (collector moves), 't' (clock +1)"""
    import radical.pilot.agent.executing.noop as noop_mod
    from radical.pilot.agent.executing.noop import NOOP
    rec, cslog, clock = [], [], {'now': 0}
    p = object.__new__(NOOP)
    p._uid = 'agent.executing.0000'
    p._log, p._prof = rpload.NullLog(), rpload.NullLog()
    p._terminate  = mt.Event()
    p._tasks_lock = CsLock(cslog, clock)
    p._tasks      = list()
    p._delay      = 1.0
    def publish(ch, msg, **kw):
        for m in (msg if isinstance(msg, list) else [msg]):
            rec.append(['unsched', int(m['uid'].split('.')[1])])
    def advance(things, state=None, publish=True, push=False, **kw):
        for t in (things if isinstance(things, list) else [things]):
            rec.append([{'AGENT_EXECUTING': 'start', 'AGENT_STAGING_OUTPUT_PENDING': 'handed'}.get(state, state),
                        int(t['uid'].split('.')[1])])
    p.publish, p.advance = publish, advance
    p.advance_tasks = lambda tasks, state, publish, push, ts=None: advance(tasks, state, publish, push)
    saved = noop_mod.time
    noop_mod.time = Clock(clock)
    ctl = coop.Controller()
    tds = [[{'uid': 'task.%06d' % u, 'state': 'AGENT_EXECUTING_PENDING',
             'description': {'executable': '/bin/sleep', 'arguments': [] if d is None else [str(d)]}} for u, d in b] for b in bulks]
    # (a duration may be missing or no number - `sleep` without arguments, `sleep 1m`, `sleep $DELAY`: legal descriptions,
    #  such a task is due at once)
    deadline = {}
    try:
        for i, b in enumerate(tds):
            ctl.spawn('w%d' % i, (lambda b=b: p.work(b)), run_to_first_point=False)
        ctl.spawn('c', p._collect, run_to_first_point=False)
        def grant(name):
            if name in ctl.workers and ctl.where(name) != 'done':
                ctl.grant(name)
        done = []
        def apply(c):
            if c == 't': clock['now'] += 1
            else: grant(c)
            done.append(c)
        for c in choices: apply(c)
        if drain:
            for _ in range(400):
                progressed = False
                for i in range(len(tds)):
                    if ctl.where('w%d' % i) != 'done':
                        apply('w%d' % i); progressed = True
                if not progressed: break
            clock['now'] += 100                      # every deadline passes
            for _ in range(12):                      # collector: two full passes
                apply('c')
            p._terminate.set()
    finally:
        p._terminate.set()
        noop_mod.time = saved
        ctl.close()
    # deadlines as the real code set them
    for b in tds:
        for t in b:
            if 'deadline' in t: deadline[int(t['uid'].split('.')[1])] = t['deadline']
    # the lock sections in the order they were entered -> model operations
    ops = []
    for who, now in cslog:
        if who == 'c':
            ops.append({'c': sorted(u for u, d in deadline.items() if d <= now)})
        else:
            ops.append({'w': [u for u, d in bulks[int(who[1:])]]})
    left = [int(t['uid'].split('.')[1]) for t in p._tasks]
    return {'tasks': left, 'events': rec}, ops, done


def canon(x):
    if not isinstance(x, dict): return x
    order = {'start': 0, 'unsched': 1, 'handed': 2}
    return {'tasks': sorted(x['tasks']), 'events': sorted([list(e) for e in x['events']], key=lambda e: (e[1], order.get(e[0], 9)))}


def monitor(bulks, res, drained):
    acc = [u for b in bulks for u, d in b]
    for u in acc:
        st = sum(1 for e in res['events'] if e == ['start', u])
        un = sum(1 for e in res['events'] if e == ['unsched', u])
        ha = sum(1 for e in res['events'] if e == ['handed', u])
        if st > 1: return ('noop:execution-start-announced-twice', 'task %d' % u)
        if ha > 1: return ('noop:task-handed-on-twice', 'task %d' % u)
        if un > 1: return ('noop:resources-released-twice', 'task %d' % u)
        if drained and ha != 1:
            return ('noop:task-left-behind', 'task %d was accepted by work() and never handed on (still held: %s)' % (u, u in res['tasks']))
        if drained and un != 1:
            return ('noop:resources-never-released', 'task %d: %d unschedule publications' % (u, un))
    return None


def gen(rng):
    nb = rng.randint(1, 3)
    uid = 0
    bulks = []
    for _ in range(nb):
        b = []
        for _ in range(rng.randint(1, 3)):
            b.append((uid, rng.choice([0, 0, 1, 2, 0, 1, None, '1m', '$DELAY']))); uid += 1
        bulks.append(b)
    choices = []
    for _ in range(rng.randint(4, 40)):
        r = rng.random()
        if r < 0.45: choices.append('c')
        elif r < 0.9: choices.append('w%d' % rng.randrange(nb))
        else: choices.append('t')
    return bulks, choices


CORPUS = [
    # the collector leaves its lock section, a work() call appends, the collector goes on
    ([[(0, 0)], [(1, 0)]], ['w0', 'w0', 'w0', 'c', 'c', 'c', 'w1', 'w1', 'w1', 'w1', 'c', 'c', 'c']),
    ([[(0, 0), (1, 2)], [(2, 0)]], ['w0', 'w0', 'w0', 'w0', 'c', 'c', 'w1', 'w1', 'c', 'w1', 'w1', 'c', 't', 'c', 'c']),
]


def run(ctx, prop):
    rp = rpload.load()
    rng = ctx.rng
    ops_l, impl = [], []
    cases = [(list(b), list(c)) for b, c in CORPUS] + [gen(rng) for _ in range(ctx.n(150, 5000))]
    # every position of the second bulk's steps between the collector's steps (small exhaustive part)
    for k in range(0, 10):
        cases.append(([[(0, 0)], [(1, 0)]], ['w0'] * 4 + ['c'] * k + ['w1'] * 4 + ['c'] * 6))
        cases.append(([[(0, 0)], [(1, 0)]], ['w0'] * 4 + ['c'] * k + ['w1', 'w1'] + ['c'] + ['w1', 'w1'] + ['c'] * 6))
    for bulks, choices in cases:
        res, ops, done = run_schedule(rp, bulks, choices)
        ops_l.append({'op': 'noop', 'ops': ops}); impl.append(res)
        ctx.case({'noop': bulks, 'choices': done}, nontrivial=len(bulks) > 1)
        bad = monitor(bulks, res, True)
        if bad:
            ctx.fail(bad[0], bad[1], {'script': None, 'noop': {'bulks': [[list(x) for x in b] for b in bulks], 'choices': choices}},
                     observed=canon(res))
    common.compare(ctx, 'exec', ops_l, impl, canon=canon,
                   what='real NOOP executor (work / _collect under the cooperative scheduler): tasks held and events per task')


def replay(ctx, data):
    rp = rpload.load()
    d = data['input']['noop']
    bulks = [[tuple(x) for x in b] for b in d['bulks']]
    res, ops, done = run_schedule(rp, bulks, d['choices'])
    bad = monitor(bulks, res, True)
    print('observed:', canon(res), bad)
    return not bad
