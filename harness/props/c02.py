"""C01-C04 share one suite for the agent scheduler (harness/schedlib.py, props/schedsuite.py);
C01-C03 also cover the application-level slot finder (props/nodelistsuite.py).
C02 also judges the grant against the request AS SUBMITTED: a description written by the application (current or
deprecated attribute names) goes through the real TaskDescription.verify() and then to the real placement routine."""
import rpload
import schedlib
from props import schedsuite, nodelistsuite
PROP = 'C02'
LEAN_TARGETS = ['RPVerif.Props.C02']

U = schedlib.U
FORMS = ['current', 'deprecated', 'deprecated_counts', 'deprecated_sizes']


def submitted(rp, form, ranks, cpr, gpr, lfs, mem):
    """the description as an application writes it -> real verify() -> real schedule_task on an idle pilot of 4 nodes
    (8 cores, 4 GPUs, lfs 100, mem 64 each); returns the slots granted as [cores, gpus (sixteenths), lfs, mem] per rank"""
    d = {'executable': '/bin/true'}
    cur = {'ranks': ranks, 'cores_per_rank': cpr, 'gpus_per_rank': gpr / float(U), 'lfs_per_rank': lfs, 'mem_per_rank': mem}
    dep = {'ranks': 'cpu_processes', 'cores_per_rank': 'cpu_threads', 'gpus_per_rank': 'gpu_processes',
           'lfs_per_rank': 'lfs_per_process', 'mem_per_rank': 'mem_per_process'}
    for k, v in cur.items():
        old = form == 'deprecated' or (form == 'deprecated_counts' and k in ('ranks', 'cores_per_rank')) \
              or (form == 'deprecated_sizes' and k not in ('ranks', 'cores_per_rank'))
        d[dep[k] if old else k] = v
    td = rp.TaskDescription(from_dict=d)
    td.verify()
    td = td.as_dict()
    cfg = {'cpn': 8, 'gpn': 4, 'lfs': 100, 'mem': 64, 'scattered': True}
    nodes = [{'index': i, 'cores': [0] * 8, 'gpus': [0] * 4, 'lfs': 100, 'mem': 64} for i in range(4)]
    s = schedlib.make_sched(rp, cfg, nodes)
    task = schedlib.req_to_task({'uid': 0, 'ranks': 1, 'cpr': 1, 'gpr': 0, 'lfs': 0, 'mem': 0, 'rpn': 0, 'colo': None, 'excl': False,
                                 'prio': 0, 'env': None, 'app': None})
    for k in ('ranks', 'cores_per_rank', 'gpus_per_rank', 'lfs_per_rank', 'mem_per_rank'):
        task['description'][k] = td[k]
    slots, _ = s.schedule_task(task)
    if not slots: return None
    return [[len(sl['cores']), sum(int(round(g['occupation'] * U)) for g in sl['gpus']), sl['lfs'], sl['mem']] for sl in slots]


def submitted_part(ctx):
    rp, rng = rpload.load(), ctx.rng
    n = 0
    for _ in range(ctx.n(40, 1500)):
        ranks, cpr = rng.choice([1, 2, 3, 4, 5]), rng.choice([1, 2, 3, 6])
        gpr = rng.choice([0, 0, U, 8]); lfs = rng.choice([0, 0, 10]); mem = rng.choice([0, 0, 8])
        # (requests that fit the idle pilot: 4 nodes of 8 cores, 4 GPUs, lfs 100, mem 64)
        cap = min(8 // cpr, (4 * U) // gpr if gpr else 99, 100 // lfs if lfs else 99, 64 // mem if mem else 99)
        if 4 * cap < ranks: continue
        for form in FORMS:
            # (the deprecated `gpu_processes` counts whole GPUs)
            if form in ('deprecated', 'deprecated_sizes') and gpr % U: continue
            try:
                got = submitted(rp, form, ranks, cpr, gpr, lfs, mem)
            except Exception as e:
                got = 'raised %s' % type(e).__name__
            n += 1
            ctx.case({'submitted': [form, ranks, cpr, gpr, lfs, mem]}, nontrivial=form != 'current')
            want = [[cpr, gpr, lfs, mem]] * ranks
            if got != want:
                ctx.fail('submitted:grant-differs-from-the-request-as-written:%s' % form,
                         'the application asks for %d ranks of %d cores, %d/16 GPU, lfs %d, mem %d (%s attribute names); granted per rank '
                         '[cores, GPU/16, lfs, mem]: %s' % (ranks, cpr, gpr, lfs, mem, form, got),
                         {'script': None, 'submitted': {'form': form, 'req': [ranks, cpr, gpr, lfs, mem]}})
    ctx.obligation('requests as the application writes them (current and deprecated attribute names) through the real verify() and the '
                   'real placement routine on an idle pilot: grant == request (%d descriptions)' % n, 'tie', True, '')


def run(ctx):
    schedsuite.run(ctx, 'C02')
    nodelistsuite.run(ctx, 'C02')
    submitted_part(ctx)


def replay(ctx, data):
    if 'submitted' in data['input']:
        rp = rpload.load()
        i = data['input']['submitted']
        got = submitted(rp, i['form'], *i['req'])
        print(got)
        return got == [i['req'][1:]] * i['req'][0]
    if 'nodelist' in data['input']:
        return nodelistsuite.replay(ctx, data, 'C02')
    return schedsuite.replay(ctx, data, 'C02')
