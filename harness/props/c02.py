"""C01-C04 share one suite for the agent scheduler (harness/schedlib.py, props/schedsuite.py);
C01-C03 also cover the application-level slot finder (props/nodelistsuite.py)."""
from props import schedsuite, nodelistsuite
PROP = 'C02'
LEAN_TARGETS = ['RPVerif.Props.C02']
def run(ctx):
    schedsuite.run(ctx, 'C02')
    nodelistsuite.run(ctx, 'C02')
def replay(ctx, data):
    if 'nodelist' in data['input']:
        return nodelistsuite.replay(ctx, data, 'C02')
    return schedsuite.replay(ctx, data, 'C02')
