"""C02-C04 share one suite (see harness/schedlib.py and props/schedsuite.py)."""
from props import schedsuite
PROP = 'C02'
LEAN_TARGETS = ['RPVerif.Props.C02']
def run(ctx): schedsuite.run(ctx, 'C02')
def replay(ctx, data): return schedsuite.replay(ctx, data, 'C02')
