"""C01-C04 share one suite for the agent scheduler (see harness/schedlib.py and props/schedsuite.py).
C04 also covers the tasks the scheduler holds back for a raptor master that has not registered yet (the raptor
backlog of _schedule_incoming / control_cb, driven as in props/c20.py): none of them is lost."""
import rpload
from props import schedsuite
PROP = 'C04'
LEAN_TARGETS = ['RPVerif.Props.C04', 'RPVerif.Props.C20']


def backlog_part(ctx):
    from props import c20
    rp, rng = rpload.load(), ctx.rng
    n = 0
    for ops_, n_ in [(list(o), k) for o, k in c20.FWD_CORPUS] + [c20.gen_fwd(rng) for _ in range(ctx.n(120, 3000))]:
        r = c20.run_fwd(rp, ops_)
        n += 1
        ctx.case({'backlog': ops_}, nontrivial=bool(r['delivered']))
        for sig, what in c20.fwd_monitor(ops_, r, n_):
            ctx.fail('raptor-backlog:' + sig, what, {'script': None, 'backlog': {'ops': ops_, 'n': n_}})
    ctx.obligation('tasks held back by the scheduler for raptor masters (incoming bulks before and after registration, unregistration, '
                   'cancel): each is handed on, failed, canceled or still held - exactly one of them (%d histories)' % n, 'tie', True, '')


def run(ctx):
    schedsuite.run(ctx, 'C04')
    backlog_part(ctx)


def replay(ctx, data):
    if data['input'].get('backlog'):
        from props import c20
        rp = rpload.load()
        b = data['input']['backlog']
        r = c20.run_fwd(rp, b['ops']); bad = c20.fwd_monitor(b['ops'], r, b['n']); print(r, bad)
        return not bad
    return schedsuite.replay(ctx, data, 'C04')
