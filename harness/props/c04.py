"""C04-C04 share one suite (see harness/schedlib.py and props/schedsuite.py)."""
from props import schedsuite
PROP = 'C04'
LEAN_TARGETS = ['RPVerif.Props.C04']
def run(ctx): schedsuite.run(ctx, 'C04')
def replay(ctx, data): return schedsuite.replay(ctx, data, 'C04')
