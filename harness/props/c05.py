"""C05 — Every submitted task ends in one final state that tells the truth.

An in-process pipeline of the REAL components with their REAL advance (pipelib): bulks
of tasks with a fault plan per task (input directive that cannot be staged on the client
/ agent side, no launcher, launch error, exit code, cancel / timeout while running,
output directive that cannot be staged on the agent / client side, stage_on_error).
Tie: the state notifications published per task, the recorded exit code and whether an
exception is recorded vs Pipeline.run; the real BaseComponent.work_cb with a work routine
that raises mid-bulk vs Pipeline.workCb.  Monitor (on the real TaskManager fed with the
published notifications in emission order and in shuffled orders): exactly one final
state; DONE only with exit code 0 and all staging done; FAILED with exit code or exception
recorded; CANCELED only when asked for; a fault of one task does not change the others."""

import os
import copy
import shutil
import tempfile
import threading as mt

import common
import rpload
import stagelib
import pipelib

NUM = {s: i for i, s in enumerate(pipelib.NONFINAL)}


def st(s):
    return NUM[s] if s in NUM else s


def gen_plan(rng):
    r = rng.random()
    ex = rng.choice([0, 0, 0, 0, 1, 3, 'no_launcher', 'launch_error', 'canceled', 'timeout'])
    # agent_in: an input directive the agent side cannot carry out - its source is missing (True), or its target is
    # not a local file URL ('badtarget': the stager refuses it with an assertion, not with an I/O error)
    p = {'tmgr_in': rng.random() < 0.1, 'agent_in': rng.choice([True, 'badtarget']) if rng.random() < 0.14 else False, 'exec': ex, 'on_error': rng.random() < 0.35,
         'agent_out': rng.random() < 0.15, 'tmgr_out': rng.random() < 0.15,
         'has_in': rng.random() < 0.5, 'has_out': rng.random() < 0.6, 'pilot': rng.choice([0, 0, 1, 2])}
    return p


def build(tree, k, p):
    uid = 'task.%06d' % k
    ins, outs, produce = [], [], {}
    if p['has_in'] or p['tmgr_in']:
        ins.append('in.dat' if not p['tmgr_in'] else 'missing_%d.dat' % k)
    if p['agent_in'] == 'badtarget':
        ins.append({'source': 'pilot:///shared.dat', 'target': 'sftp://elsewhere.example/tmp/shared_%d.dat' % k, 'action': 'Copy'})
    elif p['agent_in']:
        ins.append({'source': 'pilot:///nothing_%d.dat' % k, 'action': 'Copy'})
    elif p['has_in']:
        ins.append({'source': 'pilot:///shared.dat', 'target': 'task:///shared_copy.dat', 'action': 'Copy'})
    if p['has_out'] or p['tmgr_out']:
        outs.append('out.dat > results/%s.out.dat' % uid if not p['tmgr_out'] else 'never_written_%d.dat' % k)
        produce['out.dat'] = 'O%d' % k
    if p['agent_out']:
        outs.append({'source': 'task:///never_%d.dat' % k, 'target': 'pilot:///keep/%s.dat' % uid, 'action': 'Copy'})
    elif p['has_out']:
        outs.append({'source': 'task:///out.dat', 'target': 'pilot:///keep/%s.dat' % uid, 'action': 'Copy'})
    d = {'executable': '/bin/true', 'input_staging': ins, 'output_staging': outs, 'stage_on_error': p['on_error']}
    return uid, d, {'exec': p['exec'], 'produce': produce}


def model_op(p):
    ex = p['exec']
    return {'op': 'run', 'tmgr_in': p['tmgr_in'], 'agent_in': bool(p['agent_in']),
            'exec': ('canceled' if ex in ('canceled', 'timeout') else ex), 'on_error': p['on_error'],
            'agent_out': p['agent_out'], 'tmgr_out': p['tmgr_out'], 'has_tmgr_out': bool(p['has_out'] or p['tmgr_out'])}


def run_bulk(rp, plans):
    root = tempfile.mkdtemp(prefix='c05_')
    try:
        tree = stagelib.Tree(root)
        with open(tree.client + '/in.dat', 'w') as f: f.write('A')
        with open(tree.psbox + '/shared.dat', 'w') as f: f.write('S')
        tasks, eplans = [], {}
        for k, p in enumerate(plans):
            uid, d, ep = build(tree, k, p)
            tasks.append(tree.task_dict(rp, uid, d, pid='pilot.%04d' % p.get('pilot', 0))); eplans[uid] = ep
        bus, comps = pipelib.run(rp, tree, tasks, eplans)
    finally:
        shutil.rmtree(root, ignore_errors=True)
    return bus, [t['uid'] for t in tasks]


def per_task(bus, uids):
    out = {u: {'emits': [], 'exit': None, 'exception': False} for u in uids}
    for comp, arg in bus.updates:
        for t in arg:
            o = out[t['uid']]
            o['emits'].append(st(t['state']))
            if t['state'] in ('DONE', 'FAILED', 'CANCELED'):
                o['exit'] = t.get('exit_code')
                o['exception'] = bool(t.get('exception'))
    for u in uids:
        o = out[u]
        o['final'] = o['emits'][-1] if o['emits'] else None
    return out


def monitor(rp, plans, bus, uids, rng, nshuffle=2):
    bad = []
    n = len(bus.updates)
    orders = [None] + [rng.sample(range(n), n) for _ in range(nshuffle)]
    pilots = {u: 'pilot.%04d' % p.get('pilot', 0) for p, u in zip(plans, uids)}
    for oi, order in enumerate(orders + [None]):
        # last round: the tasks are bound to their pilots; another pilot of the same manager (none of these tasks runs
        # there) ends somewhere in between, and the tasks' own pilots end after every task has reached its final state
        ends = None
        if oi == len(orders):
            ends = [(rng.randint(0, n), 'pilot.0003', rng.choice(['FAILED', 'CANCELED', 'DONE']))] + \
                   [(n, 'pilot.%04d' % q, rng.choice(['FAILED', 'CANCELED', 'DONE'])) for q in (0, 1, 2)]
        view, errs = pipelib.client_view(rp, bus, uids, order, pilots=pilots, ends=ends)
        tag = 'emission-order' if order is None else 'shuffled'
        if ends: tag = 'emission-order, pilot ends delivered: %s' % ends
        if errs:
            bad.append(('client:update-raised', '%s (%s)' % (errs[0], tag)))
        for p, u in zip(plans, uids):
            v = view[u]
            finals = [s for s in v['callbacks'] if s in ('DONE', 'FAILED', 'CANCELED')]
            if v['state'] not in ('DONE', 'FAILED', 'CANCELED'):
                bad.append(('task:no-final-state', '%s ends in %s (%s)' % (u, v['state'], tag))); continue
            if len(finals) != 1:
                bad.append(('task:not-exactly-one-final-state', '%s: callbacks %s (%s)' % (u, v['callbacks'], tag)))
            ex = p['exec']
            reached = not p['tmgr_in'] and not p['agent_in']
            exited = reached and isinstance(ex, int)
            staged = exited and (ex == 0 or p['on_error']) or (reached and ex in ('canceled', 'timeout') and p['on_error'])
            stage_fault = staged and (p['agent_out'] or p['tmgr_out'])
            fault = p['tmgr_in'] or p['agent_in'] or (reached and ex in ('no_launcher', 'launch_error')) or stage_fault
            if v['state'] == 'DONE' and v['exit_code'] != 0:
                # (whatever the order of delivery: the notification of the final state carries the whole task)
                bad.append(('task:DONE-without-exit-code-0-recorded', '%s: exit_code %r, plan %s (%s)' % (u, v['exit_code'], p, tag)))
            if v['state'] == 'DONE' and not (exited and ex == 0 and not fault):
                bad.append(('task:DONE-without-exit-0-and-complete-staging', '%s plan %s (%s)' % (u, p, tag)))
            if v['state'] == 'CANCELED' and not (reached and ex in ('canceled', 'timeout')):
                bad.append(('task:CANCELED-without-request', '%s plan %s (%s)' % (u, p, tag)))
            if v['state'] == 'FAILED':
                if not (fault or (exited and ex != 0)):
                    bad.append(('task:FAILED-without-cause', '%s plan %s (%s)' % (u, p, tag)))
                if v['exit_code'] in (None, 0) and not v['exception']:
                    bad.append(('task:FAILED-without-exit-code-or-exception', '%s: exit_code %r, exception %r, plan %s (%s)' % (u, v['exit_code'], v['exception'], p, tag)))
            if exited and ex == 0 and not fault and v['state'] != 'DONE':
                bad.append(('task:clean-run-not-DONE', '%s ends %s, plan %s (%s)' % (u, v['state'], p, tag)))
            if (fault or (exited and ex != 0)) and v['state'] != 'FAILED':
                bad.append(('task:fault-not-reported', '%s ends %s, plan %s (%s)' % (u, v['state'], p, tag)))
    return bad


# -- work_cb -------------------------------------------------------------------------------------
def run_work_cb(rp, n, raise_at, marks=None):
    """the real BaseComponent.work_cb with one input; the work routine handles things one by one
    (advancing each) and raises when it reaches index `raise_at`"""
    import radical.pilot.utils as rpu
    import radical.pilot.constants as rpc
    from radical.pilot.utils.component import AgentComponent
    bus = pipelib.Bus()
    c = pipelib.wire(rp, object.__new__(AgentComponent), 'comp', bus)
    things = [{'uid': 'task.%06d' % i, 'type': 'task', 'state': 'AGENT_STAGING_OUTPUT_PENDING', 'description': {}} for i in range(n)]
    class Q(object):
        channel = 'q'
        def __init__(self): self.items = [things]
        def get_nowait(self, qname=None, timeout=None): return self.items.pop(0) if self.items else []
    def work(ts):
        for i, t in enumerate(ts):
            if raise_at is not None and i == raise_at:
                raise RuntimeError('work routine failed')
            c.advance(t, 'TMGR_STAGING_OUTPUT_PENDING', publish=True, push=True)
    c._cancel_list = [t['uid'] for t, m in zip(things, marks or []) if m]
    c._inputs  = {'in': {'qname': None, 'queue': Q(), 'states': ['AGENT_STAGING_OUTPUT_PENDING']}}
    c._workers = {'AGENT_STAGING_OUTPUT_PENDING': work}
    survived = True
    try:
        c.work_cb()
    except Exception:
        survived = False
    per = {t['uid']: [] for t in things}
    for comp, arg in bus.updates:
        for t in arg: per[t['uid']].append(st(t['state']))
    return [per[t['uid']] for t in things], survived


def exec_monitor(done, obs, rec, quiet):
    """one outcome per task and a true one, judged on what the real executor handed on under a schedule
    of its intake / watcher / cancel / timeout threads (process exits, faults and requests at any step)"""
    outs = [r for r in rec if r[0] == 'advance' and r[2] in ('AGENT_STAGING_OUTPUT_PENDING', 'FAILED')]
    started = any(r[0] == 'advance' and r[2] == 'AGENT_EXECUTING' for r in rec)
    if len(outs) > 1:
        return ('executor:task-gets-two-outcomes', 'handed on as %s' % [(r[2], r[4], r[5]) for r in outs])
    if quiet and started and not outs:
        return ('executor:task-gets-no-outcome', 'accepted task never handed on')
    asked = any(c in ('cancel_req', 'timeout') for c in done)
    for r in outs:
        if r[2] == 'AGENT_STAGING_OUTPUT_PENDING':
            if r[4] == 'CANCELED' and not asked:
                return ('executor:CANCELED-without-request', str(r))
            if r[4] == 'DONE' and r[5] != 0:
                return ('executor:DONE-with-nonzero-exit', str(r))
            if r[4] == 'FAILED' and r[5] in (0, None):
                return ('executor:FAILED-without-exit-code', str(r))
    return None


def exec_part(ctx, rp):
    from props import c07
    n = 0
    for cs in [c07.gen_schedule(ctx.rng) for _ in range(ctx.n(250, 8000))]:
        obs, done, rec, quiet = c07.run_schedule(rp, cs)
        bad = exec_monitor(done, obs, rec, quiet)
        n += 1
        ctx.case({'exec_schedule': done}, nontrivial=any(c in ('cancel_req', 'timeout') for c in done))
        if bad:
            ctx.fail(bad[0], bad[1], {'kind': 'exec', 'choices': done}, observed=obs[-1] if obs else None)
    ctx.obligation('executor under %d thread schedules: every accepted task is handed on once, with a true outcome' % n, 'tie', True, '')


def signal_part(ctx, rp):
    """tasks whose process is ended by a signal from outside RP (the OOM killer, an epilogue of the batch system, an
    operator's kill, a segmentation fault): subprocess reports a negative return code; the task did not exit with code 0
    and must not end DONE"""
    from props import c07
    rng = ctx.rng
    n = 0
    for _ in range(ctx.n(30, 600)):
        b = [(u, False, rng.choice([0, 3, -9, -15, -11, -9])) for u in rng.sample(range(8), rng.randint(1, 4))]
        evs = c07.run_bulk(rp, b)
        n += 1
        ctx.case({'signal_bulk': [list(x) for x in b]}, nontrivial=any(c < 0 for u, f, c in b))
        bad = c07.bulk_monitor(b, evs)
        if bad:
            ctx.fail('executor:' + bad[0], bad[1] + ' (negative exit codes: the process was ended by a signal)', {'kind': 'signal_bulk', 'tasks': [list(x) for x in b]}, observed=evs)
    ctx.obligation('real Popen.work + watcher on bulks whose processes exit with 0, a code, or are ended by a signal (negative return code): '
                   'DONE only for exit code 0 (%d bulks)' % n, 'tie', True, '')


def gen_early_script(rng):
    """client-side scheduler callbacks in which tasks naming a pilot arrive (in several bulks) before,
    between and after the add_pilots command of that pilot; at the end every pilot named is added"""
    npil = rng.randint(1, 3)
    ops, uid, added = [], 0, set()
    for _ in range(rng.randint(2, 8)):
        r = rng.random()
        if r < 0.7:
            ts = []
            for _ in range(rng.randint(1, 3)):
                ts.append({'uid': uid, 'cores': 1, 'pilot': rng.randrange(npil) if rng.random() < 0.8 else None}); uid += 1
            ops.append({'op': 'work', 'tasks': ts})
        elif r < 0.85:
            cand = [p for p in range(npil) if p not in added]
            if cand:
                pid = rng.choice(cand); added.add(pid)
                ops.append({'op': 'add', 'pids': [pid], 'cores': [8], 'stale': 0})
        else:
            ops.append({'op': 'pilot_state', 'pid': rng.randrange(npil), 'state': 'PMGR_ACTIVE'})
    for pid in range(npil):
        if pid not in added:
            ops.append({'op': 'add', 'pids': [pid], 'cores': [8], 'stale': 0})
    return ops, npil


def tmgrsched_monitor(c12, rp, kind, sc):
    """every task which names a pilot is handed on (to that pilot) once the pilot is added; no task is lost"""
    ops, res, viol, s = c12.run_script(rp, kind, sc)
    fwd = {}
    for r in res:
        for o in r['outs']:
            if o[0] == 'fwd': fwd.setdefault(o[1], []).append(o[2])
    for v in viol:
        if v[0] == 'task-lost':
            return ops, res, ('tmgr-scheduler:task-lost', v[1] + ' - it can never reach a final state although its pilot is added and alive')
    for op in sc:
        if op['op'] != 'work': continue
        for t in op['tasks']:
            if t['pilot'] is not None and fwd.get(t['uid']) != [t['pilot']]:
                return ops, res, ('tmgr-scheduler:pilot-bound-task-never-handed-on',
                                  'task %d names pilot %d, the pilot was added, the task was forwarded to %s' % (t['uid'], t['pilot'], fwd.get(t['uid'])))
    return ops, res, None


EARLY_CORPUS = [
    [{'op': 'work', 'tasks': [{'uid': 0, 'cores': 1, 'pilot': 0}]}, {'op': 'work', 'tasks': [{'uid': 1, 'cores': 1, 'pilot': 0}]},
     {'op': 'add', 'pids': [0], 'cores': [8], 'stale': 0}],
]


def tmgrsched_part(ctx, rp):
    from props import c12
    cfg = c12.bf_cfg(rp)
    n = 0
    for kind in ('rr', 'bf'):
        mops, impl = [], []
        for sc in [list(x) for x in EARLY_CORPUS] + [gen_early_script(ctx.rng)[0] for _ in range(ctx.n(120, 4000))]:
            ops, res, bad = tmgrsched_monitor(c12, rp, kind, sc)
            n += 1
            nb = sum(1 for o in sc if o['op'] == 'work' and any(t['pilot'] is not None for t in o['tasks']))
            ctx.case({'tmgr_sched': kind, 'ops': sc}, nontrivial=nb > 1)
            if bad:
                ctx.fail(bad[0], bad[1], {'kind': 'tmgrsched', 'sched': kind, 'ops': sc})
    ctx.obligation('client-side scheduler under %d callback scripts with pilot-bound tasks arriving before their pilot: every task is handed on' % n, 'tie', True, '')


def agentsched_part(ctx, rp):
    """the agent scheduler between input staging and the executor: scripts of the real scheduling loop (several
    priorities in one drain, tasks that have to wait, cancels while waiting); a task is handed on, failed or
    canceled once - never started twice, never started after it was canceled"""
    import schedlib
    n = 0
    for i in range(ctx.n(60, 2500)):
        sc = schedlib.fill_releases(rp, schedlib.gen_script(ctx.rng, app_slots=False, small=True))
        for it in sc['iters']:
            if it['unsched'] == 'auto': it['unsched'] = []
        s, out, tasks, crash = schedlib.run_script(rp, sc)
        n += 1
        prios = set(r['prio'] for it in sc['iters'] for m in it['incoming'] for r in m.get('sched', []))
        ctx.case({'agent_sched': schedlib.model_op(sc)}, nontrivial=len(prios) > 1)
        for p, sig, what in schedlib.monitor(rp, sc, out, tasks, crash, ['C04']):
            if sig in ('reported-twice', 'task-in-two-places', 'task-lost', 'scheduler-loop-died'):
                ctx.fail('agent-scheduler:' + sig, what, {'kind': 'agentsched', 'script': sc})
    ctx.obligation('agent scheduler under %d loop scripts: every task is handed on, failed or canceled once' % n, 'tie', True, '')


def master_part(ctx, rp):
    """raptor tasks come back to their master in bulks (real Master._result_cb, real AgentComponent-style hand-over
    recorded): every task of the bulk is handed on to output staging exactly once with a target state that tells the
    truth - DONE iff its exit code is 0 - also next to a task that never got an exit code (the worker could not even
    start it: the key is there, the value is None) or already carries a target state"""
    from radical.pilot.raptor.master import Master
    rng = ctx.rng
    n = 0
    bulks = [[0, None, 3], [None], [0, 0], [None, 0]]
    for _ in range(ctx.n(60, 1500)):
        bulks.append([rng.choice([0, 0, 1, 3, -1, None, None, 'absent', 'preset']) for _ in range(rng.randint(1, 5))])
    for codes in bulks:
        m = object.__new__(Master)
        m._uid, m._log, m._prof = 'master.0000', rpload.NullLog(), rpload.NullLog()
        m._task_service_data = {}
        handed = []
        m.advance = lambda things, state=None, **kw: handed.extend((t['uid'], state, t.get('target_state')) for t in (things if isinstance(things, list) else [things]))
        tasks = []
        for k, c in enumerate(codes):
            t = {'uid': 'task.%06d' % k, 'description': {}}
            if c == 'preset':   t.update({'exit_code': 1, 'target_state': 'FAILED'})
            elif c != 'absent': t['exit_code'] = c
            tasks.append(t)
        err = None
        try:
            m._result_cb(tasks)
        except Exception as e:
            err = type(e).__name__
        n += 1
        ctx.case({'master_results': [str(c) for c in codes]}, nontrivial=None in codes and len(codes) > 1)
        want = [('task.%06d' % k, 'AGENT_STAGING_OUTPUT_PENDING', 'DONE' if c == 0 else 'FAILED') for k, c in enumerate(codes)]
        if err or handed != want:
            ctx.fail('raptor-master:result-bulk-not-handed-on-truthfully',
                     'exit codes %s: %s; handed on %s, expected %s' % (codes, 'raised ' + err if err else 'no exception', handed, want),
                     {'kind': 'master_results', 'codes': [c if c is None or isinstance(c, int) else str(c) for c in codes]}, observed=handed)
    ctx.obligation('raptor master: %d result bulks through the real Master._result_cb (missing exit codes among them): '
                   'every task handed on once, DONE iff exit code 0' % n, 'tie', True, '')


def run_agent_intake(rp, bulk):
    """the real Agent_0._proxy_input_cb on one bulk from the client: ordinary tasks and service tasks; a service comes up
    ('up'), or does not within its startup timeout ('down': _launch_service_task raises).  Returns which tasks were
    pushed into the agent's pipeline how often, and whether the callback raised."""
    from props import c14
    from radical.pilot.agent.agent_0 import Agent_0
    import threading as mt
    a = c14.make_agent(rp, '.')
    a._service_lock = mt.RLock()
    a._service_uid_launched = None
    class _Reg(dict):
        def get(self, k, d=None): return dict.get(self, k, d)
    a._reg = _Reg()
    a._session.rcfg = {}
    if not isinstance(getattr(Agent_0, 'session', None), property):
        Agent_0.session = property(lambda self: self._session)
    up = {t['uid']: t['service'] == 'up' for t in bulk if t.get('service')}
    class _Evt(object):
        def clear(self): pass
        def set(self): pass
        def wait(self, timeout=None): return up.get(a._service_uid_launched, True)
    a._service_start_evt = _Evt()
    pushed = {}
    def advance(things, state=None, publish=True, push=False, **kw):
        for t in (things if isinstance(things, list) else [things]):
            if push: pushed[t['uid']] = pushed.get(t['uid'], 0) + 1
    a.advance = advance
    msg = []
    for t in bulk:
        d = {'executable': '/bin/true', 'arguments': [], 'uid': t['uid']}
        if t.get('service'):
            d.update({'mode': 'task.service', 'startup_timeout': 1})
        msg.append({'uid': t['uid'], 'state': t['state'], 'description': d})
    err = None
    try:
        a._proxy_input_cb(msg)
    except Exception as e:
        err = type(e).__name__
    return pushed, err


def agent_intake_part(ctx, rp):
    rng = ctx.rng
    n = 0
    for _ in range(ctx.n(60, 2000)):
        bulk = []
        for k in range(rng.randint(1, 5)):
            t = {'uid': 'task.%06d' % k, 'state': rng.choice(['AGENT_STAGING_INPUT_PENDING'] * 5 + ['NEW'])}
            if rng.random() < 0.3: t['service'] = rng.choice(['up', 'down'])
            bulk.append(t)
        pushed, err = run_agent_intake(rp, bulk)
        n += 1
        ctx.case({'agent_intake': bulk}, nontrivial=any(t.get('service') == 'down' for t in bulk))
        for t in bulk:
            owned = t['state'] == 'AGENT_STAGING_INPUT_PENDING'
            if owned and not t.get('service') and pushed.get(t['uid'], 0) != 1:
                ctx.fail('agent-intake:task-of-the-bulk-not-taken-into-the-pipeline',
                         '%s arrived with the bulk %s and was pushed %d times (the callback ended with %s): it never reaches a final state'
                         % (t['uid'], [(x['uid'], x.get('service', 'task')) for x in bulk], pushed.get(t['uid'], 0), err or 'no error'),
                         {'kind': 'agent_intake', 'bulk': bulk})
                break
            if not owned and pushed.get(t['uid'], 0):
                ctx.fail('agent-intake:task-in-another-state-taken', '%s in state %s was pushed' % (t['uid'], t['state']), {'kind': 'agent_intake', 'bulk': bulk})
                break
    ctx.obligation('real Agent_0._proxy_input_cb on bulks of tasks and services (some of which do not come up): every task of the bulk the '
                   'agent owns enters the pipeline exactly once (%d bulks)' % n, 'tie', True, '')


def notes_part(ctx, rp):
    """the real BaseComponent.advance with publish=True on one thing: every state the thing can be in, with and without the
    `$all` mark, the state handed to advance() or set on the thing by the caller; what is published is the whole thing or
    uid / type / state only (model noteOf with the translated publishFinalByThing)"""
    from radical.pilot.utils.component import AgentComponent
    rps = rp.states
    names = sorted([k for k, v in rps._task_state_values.items() if isinstance(k, str) and v >= 0], key=lambda k: (rps._task_state_values[k], k))
    enc = lambda st: st if st in ('DONE', 'FAILED', 'CANCELED') else rps._task_state_values[st]
    ops, impl = [], []
    for st in names:
        for all_ in (False, True):
            for by_arg in (False, True):
                bus = pipelib.Bus()
                c = pipelib.wire(rp, object.__new__(AgentComponent), 'comp', bus)
                thing = {'uid': 'task.000000', 'type': 'task', 'state': 'NEW' if by_arg else st, 'exit_code': 3, 'description': {}}
                if all_: thing['$all'] = True
                c.advance(thing, st if by_arg else None, publish=True, push=False)
                pub = bus.updates[-1][1][0]
                ops.append({'op': 'note', 'all': all_, 'arg': enc(st) if by_arg else None, 'thing': enc(st)})
                impl.append({'state': enc(pub['state']), 'full': 'exit_code' in pub})
                ctx.case(ops[-1], nontrivial=st in ('DONE', 'FAILED', 'CANCELED'))
                if st in ('DONE', 'FAILED', 'CANCELED') and 'exit_code' not in pub:
                    ctx.fail('advance:final-state-published-without-the-task', 'advance(thing in %s, state argument %s, $all %s) published %s'
                             % (st, st if by_arg else None, all_, sorted(pub)), {'kind': 'note', 'state': st, 'all': all_, 'by_arg': by_arg})
    common.compare(ctx, 'pipeline', ops, impl, what='real BaseComponent.advance: the notification of a thing in every state carries the whole thing or its state only (%d calls)' % len(ops))


def raptor_backlog_part(ctx, rp):
    """tasks addressed to a raptor master (by name or to any master) that reach the agent scheduler before the master has
    registered its queue are held back: each of them must still end - relayed to a master once one is registered, failed
    when its master goes away, canceled on request - and none may stay held while a master that serves it is registered
    (it would sit in AGENT_SCHEDULING for ever: accepted, pilot alive, no final state)"""
    from props import c20
    rng = ctx.rng
    n = 0
    for ops_, n_ in [(list(o), k) for o, k in c20.FWD_CORPUS] + [c20.gen_fwd(rng) for _ in range(ctx.n(100, 3000))]:
        r = c20.run_fwd(rp, ops_)
        n += 1
        ctx.case({'backlog': ops_}, nontrivial=bool(r['delivered']) and bool(r['backlog']))
        for sig, what in c20.fwd_monitor(ops_, r, n_):
            ctx.fail('raptor-backlog:' + sig, what, {'kind': 'backlog', 'ops': ops_, 'n': n_})
    ctx.obligation('tasks held back by the agent scheduler for raptor masters (named and unnamed, bulks before and after registration, '
                   'unregistration, cancel): none stays held while a master that serves it is registered, each is accounted for once (%d histories)' % n,
                   'tie', True, '')


def run(ctx):
    rp  = rpload.load()
    notes_part(ctx, rp)
    raptor_backlog_part(ctx, rp)
    agent_intake_part(ctx, rp)
    rng = ctx.rng
    master_part(ctx, rp)
    exec_part(ctx, rp)
    signal_part(ctx, rp)
    tmgrsched_part(ctx, rp)
    agentsched_part(ctx, rp)
    from props import timeoutsuite
    timeoutsuite.run(ctx, 'C05')
    ops, impl = [], []
    dist = {'bulks': 0, 'tasks': 0, 'final': {}, 'faulty': 0}
    bulks = [list(b) for b in CORPUS] + [[gen_plan(rng) for _ in range(rng.choice([1, 2, 3, 5]))] for _ in range(ctx.n(45, 2000))]
    for plans in bulks:
        bus, uids = run_bulk(rp, plans)
        per = per_task(bus, uids)
        for p, u in zip(plans, uids):
            ops.append(model_op(p))
            impl.append({'emits': per[u]['emits'], 'exit': per[u]['exit'], 'exception': per[u]['exception'], 'final': per[u]['final']})
            dist['tasks'] += 1
            dist['final'][str(per[u]['final'])] = dist['final'].get(str(per[u]['final']), 0) + 1
            dist['faulty'] += any(p[k] for k in ('tmgr_in', 'agent_in', 'agent_out', 'tmgr_out')) or p['exec'] not in (0,)
        dist['bulks'] += 1
        ctx.case({'plans': plans}, nontrivial=any(per[u]['final'] == 'DONE' for u in uids) or len(plans) > 1)
        for sig, what in monitor(rp, plans, bus, uids, rng):
            ctx.fail(sig, what, {'kind': 'bulk', 'plans': plans})
        # isolation: every task alone ends as it ends in the bulk
        if len(plans) > 1 and rng.random() < 0.3:
            k = rng.randrange(len(plans))
            bus1, uids1 = run_bulk(rp, [plans[k]])
            alone = per_task(bus1, uids1)[uids1[0]]
            if alone['emits'] != per[uids[k]]['emits']:
                ctx.fail('task:outcome-depends-on-other-tasks-of-the-bulk', 'task %d alone: %s, in the bulk: %s' % (k, alone['emits'], per[uids[k]]['emits']),
                         {'kind': 'bulk', 'plans': plans})
    ctx.extra['distribution'] = dist
    common.compare(ctx, 'pipeline', ops, impl, what='real component pipeline (real advance/publish/push): notifications, exit code, exception per task')
    wops, wimpl = [], []
    for n in range(1, 5):
        for raise_at in [None] + list(range(n)):
            per, survived = run_work_cb(rp, n, raise_at)
            handled = [[13] for _ in range(raise_at)] if raise_at is not None else [[13]] * n
            wops.append({'op': 'work_cb', 'handled': handled, 'rest': (n - raise_at) if raise_at is not None else 0, 'raises': raise_at is not None})
            wimpl.append(per)
            ctx.case(wops[-1], nontrivial=raise_at is not None)
            if not survived:
                ctx.fail('component:taken-down-by-work-error', 'work_cb raised', {'kind': 'work_cb', 'n': n, 'raise_at': raise_at})
    common.compare(ctx, 'pipeline', wops, wimpl, what='real BaseComponent.work_cb with a work routine raising mid-bulk (exhaustive up to 4 things)')
    # ... with pending cancel requests for some things of the bulk (exhaustive up to 4 things)
    import itertools
    mops, mimpl = [], []
    for n in range(1, 5):
        for marks in itertools.product([False, True], repeat=n):
            nact = marks.count(False)
            for raise_at in [None] + list(range(nact)):
                per, survived = run_work_cb(rp, n, raise_at, list(marks))
                mops.append({'op': 'work_cb_marked', 'marks': list(marks), 'raise_at': raise_at}); mimpl.append(per)
                ctx.case(mops[-1], nontrivial=raise_at is not None and any(marks))
                for i, (m, l) in enumerate(zip(marks, per)):
                    finals = [x for x in l if x in ('DONE', 'FAILED', 'CANCELED')]
                    if len(finals) > 1:
                        ctx.fail('work_cb:thing-published-in-two-final-states', 'thing %d: %s (marks %s, work raises at %s)' % (i, l, list(marks), raise_at),
                                 {'kind': 'work_cb', 'n': n, 'raise_at': raise_at, 'marks': list(marks)})
                    if m and 'FAILED' in l:
                        ctx.fail('work_cb:canceled-thing-reported-FAILED', 'thing %d was canceled at the intake and never handed to the work routine: %s' % (i, l),
                                 {'kind': 'work_cb', 'n': n, 'raise_at': raise_at, 'marks': list(marks)})
                if not survived:
                    ctx.fail('component:taken-down-by-work-error', 'work_cb raised', {'kind': 'work_cb', 'n': n, 'raise_at': raise_at, 'marks': list(marks)})
    common.compare(ctx, 'pipeline', mops, mimpl, what='real BaseComponent.work_cb: intake cancel filter + raising work routine (exhaustive up to 4 things)')
    ctx.rule = ('bulks of 1-5 tasks; per task a fault plan: client/agent input directive that cannot be staged, no launcher, launch error, '
                'exit code 0/1/3, cancel request or timeout while running, agent/client output directive that cannot be staged, '
                'stage_on_error; the published notifications are fed to a real TaskManager in emission order and in two shuffled orders')
    ctx.assume += ['transport (ZMQ bridges, proxy hop, process boundaries) is replaced by in-memory queues: no message loss, components do not die',
                   'the agent scheduler passes tasks on (its own properties are C01-C04); the pilot stays alive (the dead-pilot case is C13)',
                   'the executor runs a scripted process object; cancel and timeout arrive while the process runs (other timings: C07/C08)',
                   'raptor masters (Master._result_cb) are covered in C20']
    ctx.trusted += ['harness/pipelib.py (in-memory bus, scripted process), harness/stagelib.py, harness/stubs.py']


def _p(**kw):
    base = {'tmgr_in': False, 'agent_in': False, 'exec': 0, 'on_error': False, 'agent_out': False, 'tmgr_out': False, 'has_in': True, 'has_out': True, 'pilot': 0}
    base.update(kw); return base


CORPUS = [
    [_p()],
    [_p(tmgr_out=True)],                               # FAILED had no exception recorded
    [_p(exec=3, on_error=True), _p(exec='canceled', on_error=True), _p(exec='timeout')],
    [_p(tmgr_in=True), _p(), _p(agent_in=True), _p(exec='no_launcher'), _p(exec='launch_error'), _p(agent_out=True)],
    [_p(), _p(agent_in='badtarget'), _p(has_in=False, has_out=False), _p()],
    [_p(tmgr_in=True, pilot=0), _p(pilot=0), _p(pilot=1), _p(tmgr_in=True, pilot=1), _p(pilot=2)],     # one bulk, several pilots
]


def replay(ctx, data):
    rp = rpload.load()
    i = data['input']
    if i.get('kind') == 'master_results':
        from radical.pilot.raptor.master import Master
        m = object.__new__(Master)
        m._uid, m._log, m._prof = 'master.0000', rpload.NullLog(), rpload.NullLog()
        m._task_service_data = {}
        handed = []
        m.advance = lambda things, state=None, **kw: handed.extend((t['uid'], t.get('target_state')) for t in (things if isinstance(things, list) else [things]))
        tasks = []
        for k, c in enumerate(i['codes']):
            t = {'uid': 'task.%06d' % k, 'description': {}}
            if c == 'preset':   t.update({'exit_code': 1, 'target_state': 'FAILED'})
            elif c != 'absent': t['exit_code'] = c
            tasks.append(t)
        try:
            m._result_cb(tasks)
        except Exception as e:
            print('raised', repr(e)); return False
        print('handed on:', handed)
        return handed == [('task.%06d' % k, 'DONE' if c == 0 else 'FAILED') for k, c in enumerate(i['codes'])]
    if i.get('kind') == 'signal_bulk':
        from props import c07
        b = [tuple(x) for x in i['tasks']]
        evs = c07.run_bulk(rp, b); bad = c07.bulk_monitor(b, evs); print(evs, bad)
        return not bad
    if i.get('kind') == 'backlog':
        from props import c20
        r = c20.run_fwd(rp, i['ops']); bad = c20.fwd_monitor(i['ops'], r, i['n']); print(r, bad)
        return not bad
    if i.get('kind') == 'note':
        from radical.pilot.utils.component import AgentComponent
        bus = pipelib.Bus()
        c = pipelib.wire(rp, object.__new__(AgentComponent), 'comp', bus)
        thing = {'uid': 'task.000000', 'type': 'task', 'state': 'NEW' if i['by_arg'] else i['state'], 'exit_code': 3, 'description': {}}
        if i['all']: thing['$all'] = True
        c.advance(thing, i['state'] if i['by_arg'] else None, publish=True, push=False)
        pub = bus.updates[-1][1][0]
        print(pub)
        return 'exit_code' in pub
    if i.get('kind') == 'agent_intake':
        pushed, err = run_agent_intake(rp, i['bulk'])
        print(pushed, err)
        return all(pushed.get(t['uid'], 0) == (1 if t['state'] == 'AGENT_STAGING_INPUT_PENDING' else 0)
                   for t in i['bulk'] if not t.get('service'))
    if 'timeout_watcher' in i:
        from props import timeoutsuite
        return timeoutsuite.replay(ctx, data, 'C05')
    if i['kind'] == 'exec':
        from props import c07
        obs, done, rec, quiet = c07.run_schedule(rp, i['choices'])
        bad = exec_monitor(done, obs, rec, quiet)
        print(obs[-1] if obs else None, bad)
        return bad is None
    if i['kind'] == 'agentsched':
        import schedlib
        s, out, tasks, crash = schedlib.run_script(rp, i['script'])
        v = [x for x in schedlib.monitor(rp, i['script'], out, tasks, crash, ['C04'])
             if x[1] in ('reported-twice', 'task-in-two-places', 'task-lost', 'scheduler-loop-died')]
        for o in out: print(o['events'])
        print(v)
        return not v
    if i['kind'] == 'tmgrsched':
        from props import c12
        ops, res, bad = tmgrsched_monitor(c12, rp, i['sched'], i['ops'])
        for r in res: print(r['outs'], r['err'])
        print(bad)
        return bad is None
    if i['kind'] == 'bulk':
        bus, uids = run_bulk(rp, i['plans'])
        import random
        bad = monitor(rp, i['plans'], bus, uids, random.Random(0), nshuffle=40)     # (the same orders at every replay)
        print(per_task(bus, uids)); print(bad)
        return not bad
    per, survived = run_work_cb(rp, i['n'], i['raise_at'], i.get('marks'))
    print(per, survived)
    return survived and not any(len([x for x in l if x in ('DONE', 'FAILED', 'CANCELED')]) > 1 for l in per)
