"""C08 — Cancel stops the named tasks and nothing else.

Three places implement cancellation; each is tied to its model:
 (a) the intake filter of every component (real BaseComponent.work_cb / _control_cb /
     is_canceled on a real executor object with a scripted input queue) vs `Cancel.intake`;
 (b) the executor (real Popen under the cooperative scheduler, see props/c07.py) vs `Exec.step`,
     with the cancel-specific monitor;
 (c) the scheduler's wait pool (real _schedule_tasks loop, see schedlib) - cancel messages and
     cancel marks are part of every script of the C01-C04 suite; here the cancel clauses are monitored."""

import copy
import threading as mt

import common
import rpload
import schedlib
from props import c07


def make_component(rp):
    from radical.pilot.agent.executing.popen import Popen
    p = object.__new__(Popen)
    p._uid = 'agent.executing.0000'
    p._log, p._prof = rpload.NullLog(), rpload.NullLog()
    p._cancel_list, p._cancel_lock = [], mt.RLock()
    p._rpc_reqs = {}
    p.rec = []
    def advance(things, state=None, publish=True, push=False, **kw):
        if not isinstance(things, list): things = [things]
        for t in things:
            t['state'] = state
            p.rec.append(['advance', t['uid'], state])
    p.advance = advance
    p.publish = lambda ch, msg, **kw: p.rec.append(['publish', str(ch), [m['uid'] for m in (msg if isinstance(msg, list) else [msg])]])
    p.control_cb = lambda topic, msg: None       # executor specific part: covered in (b)
    return p


def run_intake(rp, cl, uids, things):
    from radical.pilot import states as rps
    p = make_component(rp)
    p._cancel_list.extend(cl)
    if uids:
        p._control_cb('control_pubsub', {'cmd': 'cancel_tasks', 'arg': {'uids': list(uids)}})
    worked = []
    class _Q(object):
        def __init__(self): self.sent = False
        def get_nowait(self, qname=None, timeout=None):
            if self.sent: return []
            self.sent = True
            return [{'uid': t, 'state': rps.AGENT_EXECUTING_PENDING, 'slots': [{'cores': [0]}]} for t in things]
    p._inputs  = {'q': {'qname': 'q', 'queue': _Q(), 'states': [rps.AGENT_EXECUTING_PENDING]}}
    p._workers = {rps.AGENT_EXECUTING_PENDING: lambda ts: worked.extend(t['uid'] for t in ts)}
    p.work_cb()
    canceled = [r[1] for r in p.rec if r[0] == 'advance' and r[2] == 'CANCELED']
    unsched  = [u for r in p.rec if r[0] == 'publish' and 'unschedule' in r[1].lower() for u in r[2]]
    return {'worked': worked, 'canceled': canceled, 'cancel_list': list(p._cancel_list)}, unsched


def sched_monitor(sc, out):
    """cancel clauses on one run of the real scheduler loop"""
    bad = []
    named = set()
    requested = set()      # uids of cancel requests as the agent sees them: marked and named together
    final = {}
    for k, o in enumerate(out):
        it = sc['iters'][k]
        for m in it['incoming']:
            named |= set(m.get('cancel', []))
            requested |= set(m.get('cancel', [])) & set(it['marks'])
        named |= set(it['marks'])
        wp_before = set(u for _, us in (out[k - 1]['state']['waitpool'] if k else []) for u in us)
        for uid, st in o['events']:
            final.setdefault(uid, st)
            if st == 'CANCELED' and uid not in named:
                bad.append(('scheduler:bystander-canceled', 'task %d' % uid))
        wp_after = set(u for _, us in o['state']['waitpool'] for u in us)
        for m in it['incoming']:
            for uid in m.get('cancel', []):
                if uid in wp_before and uid in wp_after and final.get(uid) != 'CANCELED':
                    bad.append(('scheduler:waiting-task-not-canceled', 'task %d still waits after the cancel message' % uid))
        for uid in sorted(requested & wp_after):
            bad.append(('scheduler:canceled-task-still-waits', 'task %d was named by a cancel request (control message: '
                        'cancel mark and CANCEL message) and is in the wait pool afterwards; it will be started when '
                        'resources free up' % uid))
    for uid, st in final.items():
        if st == 'CANCELED':
            first_cancel = min(k for k, o in enumerate(out) if [uid, 'CANCELED'] in o['events'])
            if any([uid, 'AGENT_EXECUTING_PENDING'] in o['events'] for o in out[first_cancel + 1:]):
                bad.append(('scheduler:canceled-task-started-later', 'task %d' % uid))
    return bad, named, any(st == 'CANCELED' for st in final.values())


def run_request(rp, known, arg, via_task=False):
    """the real TaskManager.cancel_tasks (or Task.cancel) with publish() captured; known = [(uid, state)]"""
    import threading
    from radical.pilot import constants as rpc
    tmgr = object.__new__(rp.TaskManager)
    tmgr._uid, tmgr._log, tmgr._prof = 'tmgr.0000', rpload.NullLog(), rpload.NullLog()
    tmgr._tasks_lock = threading.RLock()
    tmgr._tasks = {}
    for uid, state in known:
        t = object.__new__(rp.Task)
        t._uid, t._state, t._tmgr = 'task.%06d' % uid, state, tmgr
        tmgr._tasks[t._uid] = t
    sent = []
    tmgr.publish = lambda pubsub, msg, topic=None: sent.append((pubsub, msg))
    if via_task:
        tmgr._tasks['task.%06d' % arg].cancel()
    elif arg is None:
        tmgr.cancel_tasks()
    elif isinstance(arg, list):
        tmgr.cancel_tasks(['task.%06d' % u for u in arg])
    else:
        tmgr.cancel_tasks('task.%06d' % arg)
    if len(sent) != 1 or sent[0][0] != rpc.CONTROL_PUBSUB or sent[0][1].get('cmd') != 'cancel_tasks':
        return 'unexpected: %r' % (sent,)
    # the receiving components walk the request with `for uid in uids` (scheduler, executor, raptor backlog): what that
    # walk yields is what the request names (a bare string yields its characters: -1 stands for anything that is no uid)
    import re
    return [int(u.split('.')[1]) if re.match(r'^task\.\d{6}$', str(u)) else -1 for u in sent[0][1]['arg']['uids']]


def request_cases(rp, ctx):
    """client side: which tasks a cancel request names (tasks in every state, incl. all named ones final)"""
    from radical.pilot import states as rps
    rng = ctx.rng
    states = [rps.NEW, rps.TMGR_SCHEDULING, rps.AGENT_SCHEDULING, rps.AGENT_EXECUTING, rps.DONE, rps.FAILED, rps.CANCELED]
    ops, impl = [], []
    cases = [([(0, rps.DONE), (1, rps.AGENT_EXECUTING), (2, rps.AGENT_SCHEDULING)], 0, True),     # cancel after exit
             ([(0, rps.CANCELED), (1, rps.AGENT_EXECUTING)], [0], False),                           # repeated cancel
             ([(0, rps.DONE), (1, rps.FAILED), (2, rps.NEW)], [0, 1], False)]
    for _ in range(ctx.n(300, 6000)):
        n = rng.randint(1, 5)
        known = [(u, rng.choice(states)) for u in rng.sample(range(8), n)]
        r = rng.random()
        if r < 0.15:   arg, via = None, False
        elif r < 0.45: arg, via = rng.choice(known)[0], rng.random() < 0.5
        elif r < 0.5:  arg, via = [], False
        else:
            arg, via = rng.sample([k[0] for k in known] + [9], rng.randint(1, min(3, n))), False
        cases.append((known, arg, via))
    for known, arg, via in cases:
        got = run_request(rp, known, arg, via)
        op = {'op': 'request', 'known': [k[0] for k in known], 'arg': arg}
        ops.append(op); impl.append(got)
        named = None if (arg is None or arg == []) else set(arg if isinstance(arg, list) else [arg])
        ctx.case({'request': op, 'states': [k[1] for k in known], 'via_task': via},
                 nontrivial=named is not None and any(s in rps.FINAL for u, s in known if u in named))
        if isinstance(got, list) and named is not None:
            extra = [u for u in got if u not in named]
            if extra:
                ctx.fail('request:bystander-named-by-cancel-request',
                         'cancel of %s (states %s) publishes a request naming %s' % (sorted(named), dict(known), got),
                         {'kind': 'request', 'known': [list(k) for k in known], 'arg': arg, 'via_task': via}, observed=got)
            if [u for u in named if u not in got]:
                ctx.fail('request:named-task-not-in-cancel-request', 'cancel of %s publishes %s' % (sorted(named), got),
                         {'kind': 'request', 'known': [list(k) for k in known], 'arg': arg, 'via_task': via}, observed=got)
    common.compare(ctx, 'cancel', ops, impl, what='real TaskManager.cancel_tasks / Task.cancel: uids named by the published request')


def exec_bad(cs, obs, done, rec, quiet):
    """C08 on one executor schedule"""
    out = []
    last = obs[-1]
    bad = c07.monitor(obs, rec, quiet, True)
    if bad:
        out.append(('executor:' + bad[0], bad[1]))
    # the request arrived while the task was running and the process never exited by itself
    req_i  = [i for i, c in enumerate(done) if c in ('cancel_req', 'timeout')]
    creq_i = [i for i, c in enumerate(done) if c == 'cancel_req']      # ('timeout' only counts once the limit is armed)
    if creq_i and last['started'] == 1 and not last['failed']:
        i = creq_i[0]
        running_at_req = obs[i]['proc_key'] and obs[i]['in_tasks']
        # (the drain lets the process exit by itself only when no thread can move any more)
        natural_exit = any(isinstance(c, list) and c[0] == 'exit' for c in done[:len(cs)])
        if running_at_req and not natural_exit and last['outcome'] != 'CANCELED':
            out.append(('executor:running-task-not-canceled', 'outcome %s' % last['outcome']))
    if not req_i and last['outcome'] == 'CANCELED':
        out.append(('executor:canceled-without-request', str(last)))
    # "... unless it had already finished": the process had exited by itself before the request reached the executor
    # (an 'exit' step only means something while the process exists)
    ex_i = [i for i, c in enumerate(done) if isinstance(c, list) and c[0] == 'exit' and i > 0 and i - 1 < len(obs) and obs[i - 1]['proc_key']]
    if ex_i and req_i and ex_i[0] < req_i[0] and last['outcome'] == 'CANCELED':
        out.append(('executor:finished-task-ends-canceled',
                    'the process exited with %s at step %d, the request arrived at step %d: outcome %s' % (done[ex_i[0]][1], ex_i[0], req_i[0], last['outcome'])))
    return out


def backlog_cancel_part(ctx, rp):
    """cancel requests for tasks the scheduler holds back for a raptor master that has not registered yet (driven as in
    props/c20.py): a named task is reported CANCELED and never handed to a master afterwards; the others stay"""
    from props import c20
    rng = ctx.rng
    n = 0
    for _ in range(ctx.n(150, 3000)):
        nt = rng.randint(2, 6)
        keys = [rng.choice([1, 2, None]) for _ in range(nt)]
        incoming = ['incoming', [[k, [u for u in range(nt) if keys[u] == k]] for k in sorted(set(keys), key=lambda x: (x is None, x))]]
        named = rng.sample(range(nt), rng.randint(1, nt))
        if rng.random() < 0.4:
            # ... all tasks held for one of the masters (a cancel-all while raptor is still starting)
            k0 = rng.choice(keys); named = [u for u in range(nt) if keys[u] == k0]
        ops = [incoming, ['cancel', named]] + [['register', m] for m in (1, 2) if rng.random() < 0.7]
        r = c20.run_fwd(rp, ops)
        n += 1
        ctx.case({'backlog_cancel': ops}, nontrivial=True)
        inp = {'kind': 'backlog_cancel', 'ops': ops, 'n': nt}
        delivered = [t for q, t in r['delivered']]
        if r['errors']:
            ctx.fail('raptor-backlog:cancel-request-raises', 'cancel of %s among the held tasks %s: %s; canceled %s, handed to a master later %s'
                     % (named, incoming[1], r['errors'], r['canceled'], delivered), inp)
        elif sorted(r['canceled']) != sorted(named):
            ctx.fail('raptor-backlog:named-task-not-canceled', 'cancel of %s: reported CANCELED %s' % (named, r['canceled']), inp)
        elif any(t in delivered for t in named):
            ctx.fail('raptor-backlog:canceled-task-handed-to-a-master', 'cancel of %s, handed on afterwards: %s' % (named, delivered), inp)
    ctx.obligation('cancel requests for tasks held back for raptor masters: named tasks CANCELED once and never handed on, others untouched '
                   '(%d histories)' % n, 'tie', True, '')


def run(ctx):
    rp  = rpload.load()
    rng = ctx.rng

    # -- (0) the client-side request ------------------------------------------------------
    request_cases(rp, ctx)
    backlog_cancel_part(ctx, rp)

    # -- (a) intake filter ------------------------------------------------------------
    ops, impl = [], []
    for _ in range(ctx.n(800, 20000)):
        n = rng.randint(1, 6)
        things = rng.sample(range(8), n)
        cl   = [rng.randrange(10) for _ in range(rng.choice([0, 0, 1, 2]))]
        uids = [rng.randrange(10) for _ in range(rng.choice([0, 1, 1, 2, 3]))]
        res, unsched = run_intake(rp, cl, uids, things)
        op = {'op': 'intake', 'cl': cl, 'uids': uids, 'things': things}
        ops.append(op); impl.append(res)
        ctx.case(op, nontrivial=bool(res['canceled']))
        named = set(cl) | set(uids)
        for t in things:
            if t in named and (t in res['worked'] or t not in res['canceled']):
                ctx.fail('named-task-processed-after-cancel', 'task %d' % t, {'kind': 'intake', 'op': op}, observed=res)
            if t not in named and (t not in res['worked'] or t in res['canceled']):
                ctx.fail('bystander-dropped-by-cancel', 'task %d' % t, {'kind': 'intake', 'op': op}, observed=res)
        # a task that already holds resources (placed, on its way to the executor) and is canceled at the
        # executor's intake must still get its resources released
        for t in res['canceled']:
            if t not in unsched:
                ctx.fail('cancel-at-executor-intake:resources-never-released',
                         'task %d was placed (holds slots), is CANCELED by the executor intake filter, and no '
                         'unschedule message is published' % t, {'kind': 'intake', 'op': op}, observed=res)
    common.compare(ctx, 'cancel', ops, impl, what='BaseComponent.work_cb intake filter / _control_cb / is_canceled')

    # -- (b) executor -------------------------------------------------------------------
    scheds = [c07.gen_schedule(rng) for _ in range(ctx.n(400, 15000))]
    ops, impl = [], []
    for cs in scheds:
        if not any(c in ('cancel_req', 'timeout') for c in cs):
            cs.insert(rng.randrange(len(cs) + 1), 'cancel_req')
        obs, done, rec, quiet = c07.run_schedule(rp, cs)
        ops.append(c07.model_choices(done)); impl.append(obs)
        last = obs[-1]
        ctx.case(ops[-1], nontrivial=last['outcome'] == 'CANCELED')
        for sig, what in exec_bad(cs, obs, done, rec, quiet):
            ctx.fail(sig, what, {'kind': 'exec', 'choices': cs})
    common.compare(ctx, 'exec', ops, impl, what='real Popen executor with cancel requests / timeouts at every step')

    # -- (c) scheduler wait pool ----------------------------------------------------------
    sops, simpl = [], []
    for i in range(ctx.n(120, 4000)):
        sc = schedlib.fill_releases(rp, schedlib.gen_script(rng, small=True))
        s, out, tasks, crash = schedlib.run_script(rp, sc)
        sops.append(schedlib.model_op(sc)); simpl.append(schedlib.canon_impl(out, crash))
        bad, named, anyc = sched_monitor(sc, out)
        for sig, what in bad:
            ctx.fail(sig, what, {'kind': 'sched', 'script': sc})
        ctx.case({'sched_script': i, 'named': sorted(named)}, nontrivial=anyc)
    common.compare(ctx, 'sched', sops, simpl, canon=schedlib.canon_model,
                   what='real _schedule_tasks loop with cancel requests (marks + CANCEL messages in every drain order)')
    ctx.sample({'intake_op': ops[0] if ops else None}, limit=1)
    ctx.rule = ('(a) bulks of 1-6 tasks arriving at a component whose cancel list holds 0-2 stale and 0-3 fresh uids; '
                '(b) executor schedules of 4-26 steps with at least one cancel request or timeout at a random position; '
                '(c) scheduler scripts with cancel messages and cancel marks between loop iterations; '
                'non-trivial = something was actually canceled')
    ctx.assume += ['TaskManager.cancel_tasks only publishes the control message (not modelled beyond that)',
                   'raptor backlog cancellation in the scheduler control_cb is not tied here (C20)',
                   'the remaining components (stagers) rely on the same generic intake filter as (a)']
    ctx.trusted += ['harness/props/c08.py, props/c07.py, schedlib.py']


def replay(ctx, data):
    rp = rpload.load()
    i  = data['input']
    if i['kind'] == 'intake':
        res, unsched = run_intake(rp, i['op']['cl'], i['op']['uids'], i['op']['things'])
        print('observed:', res, 'unschedule published for', unsched)
        named = set(i['op']['cl']) | set(i['op']['uids'])
        bad = []
        for t in i['op']['things']:
            if t in named and (t in res['worked'] or t not in res['canceled']): bad.append('named-task-processed-after-cancel')
            if t not in named and (t not in res['worked'] or t in res['canceled']): bad.append('bystander-dropped-by-cancel')
        if not all(t in unsched for t in res['canceled']): bad.append('cancel-at-executor-intake:resources-never-released')
        print(bad)
        # (the clause the input was recorded for, if it says so; every clause otherwise)
        sig = str(data.get('signature') or '')
        return sig not in bad if sig in ('named-task-processed-after-cancel', 'bystander-dropped-by-cancel') else not bad
    if i['kind'] == 'backlog_cancel':
        from props import c20
        r = c20.run_fwd(rp, i['ops'])
        named = i['ops'][1][1]
        print(r)
        return not r['errors'] and sorted(r['canceled']) == sorted(named) and not any(t in named for q, t in r['delivered'])
    if i['kind'] == 'request':
        got = run_request(rp, [tuple(k) for k in i['known']], i['arg'], i['via_task'])
        named = set(i['arg'] if isinstance(i['arg'], list) else [i['arg']])
        print('observed: request names', got)
        return isinstance(got, list) and set(got) == named
    if i['kind'] == 'exec':
        obs, done, rec, quiet = c07.run_schedule(rp, i['choices'])
        bad = exec_bad(i['choices'], obs, done, rec, quiet)
        print(obs[-1], bad); return not bad
    if i['kind'] == 'sched':
        s, out, tasks, crash = schedlib.run_script(rp, i['script'])
        bad, named, anyc = sched_monitor(i['script'], out)
        for o in out: print(o['events'], o['state']['waitpool'])
        print(bad)
        return not bad
    raise NotImplementedError('replay: unknown kind of input')
