"""C01-C04 share one suite (see harness/schedlib.py and props/schedsuite.py)."""
from props import schedsuite
PROP = 'C01'
LEAN_TARGETS = ['RPVerif.Props.C01']
def run(ctx): schedsuite.run(ctx, 'C01')
def replay(ctx, data): return schedsuite.replay(ctx, data, 'C01')
