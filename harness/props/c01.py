"""C01-C04 share one suite for the agent scheduler (harness/schedlib.py, props/schedsuite.py);
C01-C03 also cover the application-level slot finder (props/nodelistsuite.py); C01 also the resource
manager -> scheduler chain (props/rmchain.py) and the JSRUN flavour of the scheduler (props/jsrunsched.py)."""
from props import schedsuite, nodelistsuite, rmchain, jsrunsched
PROP = 'C01'
LEAN_TARGETS = ['RPVerif.Props.C01']
def run(ctx):
    schedsuite.run(ctx, 'C01')
    nodelistsuite.run(ctx, 'C01')
    nodelistsuite.run_concurrent(ctx)
    rmchain.run(ctx, 'C01')
    jsrunsched.run(ctx, 'C01')
def replay(ctx, data):
    if 'jsrun' in data['input']:
        return jsrunsched.replay(ctx, data, 'C01')
    if 'rm_chain' in data['input']:
        return rmchain.replay(ctx, data, 'C01')
    if 'nodelist' in data['input'] or 'conc' in data['input']:
        return nodelistsuite.replay(ctx, data, 'C01')
    return schedsuite.replay(ctx, data, 'C01')
