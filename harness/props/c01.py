"""C01-C04 share one suite for the agent scheduler (harness/schedlib.py, props/schedsuite.py);
C01-C03 also cover the application-level slot finder (props/nodelistsuite.py)."""
from props import schedsuite, nodelistsuite, rmchain
PROP = 'C01'
LEAN_TARGETS = ['RPVerif.Props.C01']
def run(ctx):
    schedsuite.run(ctx, 'C01')
    nodelistsuite.run(ctx, 'C01')
    rmchain.run(ctx, 'C01')
def replay(ctx, data):
    if 'rm_chain' in data['input']:
        return rmchain.replay(ctx, data, 'C01')
    if 'nodelist' in data['input']:
        return nodelistsuite.replay(ctx, data, 'C01')
    return schedsuite.replay(ctx, data, 'C01')
