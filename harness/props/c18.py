"""C18 — The pilot offers exactly the nodes it was allocated.

Real resource manager classes (Torque, CCM, Cobalt, LSF, PBSPro, Slurm, Fork) are
created with object.__new__ and their real `_init_from_scratch` (base class:
blocked cores/GPUs, requested_nodes fallback, `_filter_nodes`) runs on generated
node files / environment variables in the scratch directory.  Replaced
environment: qstat (ru.sh_callout -> 'qstat failed', so PBSPro takes its node
file path), the ssh reachability probe (rc.process.Process -> scripted return
codes), multiprocessing.cpu_count.
Tie: RMInfo after initialisation vs `initRM`.  Monitor: the property on RMInfo.
Second pass: RMInfo -> dict (registry) -> RMInfo is the identity."""

import os
import copy

import common
import rpload


HOSTS = [('node001', False, False), ('node002', False, False), ('nid00003', False, False),
         ('login1', True, False), ('batch2', False, True), ('c5', False, False),
         ('node010', False, False), ('gpu-a', False, False), ('batchlogin', True, True),
         # PBS vnodes: among these the list order is the lexical order of the names
         ('vn0001', False, False), ('vn0002', False, False), ('vn0010', False, False), ('vn0011', False, False),
         ('vn0100', False, False),
         # names with dots: addresses, and hosts of the same short name in different domains - each is a host of its own
         ('10.128.0.11', False, False), ('10.128.0.12', False, False), ('n01.rack-a.hpc', False, False), ('n01.rack-b.hpc', False, False)]
VNODES = [9, 10, 11, 12, 13]


def gen_case(rng):
    kind = rng.choice(['torque', 'ccm', 'cobalt', 'lsf', 'pbspro', 'slurm', 'fork', 'torque', 'lsf'])
    nh   = rng.randint(1, 6)
    cand = [i for i in range(len(HOSTS)) if i not in VNODES and (kind == 'lsf' or not (HOSTS[i][1] or HOSTS[i][2]))]
    hosts = rng.sample(cand, min(nh, len(cand)))
    style = rng.choice(['per_slot', 'per_node', 'mixed'])
    slots = rng.choice([1, 2, 4])
    lines = []
    for h in hosts:
        n = slots if style == 'per_slot' else 1 if style == 'per_node' else rng.choice([1, slots])
        if kind == 'lsf' and (HOSTS[h][1] or HOSTS[h][2]):
            n = 1
        lines += [h] * n
    if style != 'per_slot' or rng.random() < 0.3:
        rng.shuffle(lines)                      # repeated host lines need not be adjacent
    raw = []
    for h in lines:
        raw.append(h)
        r = rng.random()
        if r < 0.08: raw.append(None)           # blank line
        elif r < 0.10: raw.append('bad line')   # line with a blank inside
    if rng.random() < 0.15: raw.append(None)
    cfg = {'cpn': rng.choice([0, 0, slots, 4, 8]), 'gpn': rng.choice([0, 0, 1, 2]),
           'smt': rng.choice([1, 1, 2]) if kind in ('lsf', 'pbspro') else 1,
           'nodes': rng.choice([0, 0, 1, 2, 3, len(hosts)]), 'cores': rng.choice([1, 2, 4, 8, 16]),
           'gpus': rng.choice([0, 0, 1, 2]), 'backup': rng.choice([0, 0, 0, 1]),
           'blocked_cores': rng.choice([[], [], [0], [0, 1]]), 'blocked_gpus': rng.choice([[], [], [0]]),
           'agent_nodes': rng.choice([0, 0, 1, 2]), 'service_nodes': rng.choice([0, 0, 1])}
    if kind == 'fork':
        cfg['nodes'] = rng.choice([0, 1, 2, 3])
    if rng.random() < 0.75:
        # mostly consistent configurations (the malformed stream stays at 25%)
        real = [h for h in hosts if not (HOSTS[h][1] or HOSTS[h][2])]
        raw  = [x for x in raw if x != 'bad line']
        if kind == 'lsf':
            lines = []
            for h in hosts:
                lines += [h] * (1 if (HOSTS[h][1] or HOSTS[h][2]) else max(2, slots))
            raw = lines
            cfg['cpn'] = rng.choice([0, max(2, slots) * cfg['smt']])
            comp = [h for h in hosts if not (HOSTS[h][1] or HOSTS[h][2])]
            if len(comp) >= 2 and rng.random() < 0.3:
                # `bsub -n <N> -R span[ptile=..]` with N no multiple of the tile: a later host is only partly used - its
                # entry carries fewer slots than the others (the node sizes differ: nothing a uniform pilot can be built on)
                odd = rng.choice(comp[1:])
                raw.remove(odd)
                cfg['cpn'] = max(2, slots) * cfg['smt']
        elif kind in ('torque', 'ccm') and style == 'mixed':
            cfg['cpn'] = rng.choice([slots, 4])
        elif kind in ('cobalt', 'pbspro') and cfg['cpn'] == 0:
            cfg['cpn'] = rng.choice([slots, 4])
        nreal = max(1, len(real)) if kind != 'fork' else 3
        cfg['nodes'] = rng.choice([0, 1, nreal, max(1, nreal - 1)])
        cfg['cores'] = rng.choice([1, 2, max(1, cfg['cpn'] or slots)])
        cfg['gpus']  = 0 if not cfg['gpn'] else rng.choice([0, 1])
        cfg['blocked_cores'] = rng.choice([[], [], [0]]) if (cfg['cpn'] or slots) > 1 else []
        cfg['blocked_gpus']  = [0] if cfg['gpn'] > 1 and rng.random() < 0.3 else []
        room = (cfg['nodes'] or 1) - 1
        cfg['agent_nodes']   = rng.choice([0, min(1, room), min(2, room)])
        cfg['service_nodes'] = 1 if room - cfg['agent_nodes'] >= 1 and rng.random() < 0.3 else 0
        if kind == 'slurm' and not cfg['cpn']:
            env_cpus_force = rng.choice([4, 8])
        else:
            env_cpus_force = None
    else:
        env_cpus_force = None
    env_cpus = (env_cpus_force or rng.choice([None, 4, 8])) if kind == 'slurm' else None
    reach = [i for i in range(len(HOSTS)) if rng.random() < 0.8]      # ids of the hosts that answer the ssh probe
    exec_vnode = None
    if kind == 'pbspro' and rng.random() < 0.6:
        # qstat answers: nodes come from the exec_vnode attribute - chunks of vnode slices; a vnode may
        # occur in several chunks (several chunks packed on one host) and a chunk may span vnodes
        vns   = rng.sample(VNODES, rng.randint(1, len(VNODES)))
        ncpus = rng.choice([2, 4, 8])
        exec_vnode = []
        for _ in range(rng.randint(1, 6)):
            ch = [[v, ncpus] for v in rng.sample(vns, rng.randint(1, min(2, len(vns))))]
            exec_vnode.append(ch)
        if rng.random() < 0.05: exec_vnode[-1][-1][1] = ncpus * 2       # vnodes of different sizes
        used  = sorted(set(e[0] for ch in exec_vnode for e in ch))
        hosts = used
        cfg['nodes'] = rng.choice([0, 1, len(used), max(1, len(used) - 1)])
        cfg['cores'] = rng.choice([1, 2, ncpus])
        room = (cfg['nodes'] or 1) - 1
        cfg['agent_nodes']   = rng.choice([0, min(1, room)])
        cfg['service_nodes'] = 0
        cfg['blocked_cores'] = rng.choice([[], [], [0]])
    # Slurm: what the batch environment says about GPUs (consulted only when nothing is configured)
    cfg['env_gpus'] = None; cfg['env_gpu_ids'] = 0
    if kind == 'slurm':
        r = rng.random()
        if r < 0.4:   cfg['env_gpus'] = rng.choice([0, 1, 2, 4, 8])
        elif r < 0.6: cfg['env_gpu_ids'] = rng.choice([1, 2, 4])
        if rng.random() < 0.3 and cfg['env_gpus'] is not None: cfg['env_gpu_ids'] = rng.choice([1, 3])     # both set
    # CCM: a node list file left by an earlier job next to the one of this job
    stale = None
    if kind == 'ccm' and rng.random() < 0.5:
        others = [i for i in range(len(HOSTS)) if i not in VNODES and not (HOSTS[i][1] or HOSTS[i][2]) and i not in hosts]
        if others:
            sh = rng.sample(others, min(len(others), rng.randint(1, 3)))
            stale = {'lines': [h for h in sh for _ in range(slots)], 'touched_later': rng.random() < 0.6}
    lines_m = [None if x is None else x if isinstance(x, str) else
               {'id': x, 'login': HOSTS[x][1], 'batch': HOSTS[x][2]} for x in raw]
    extra = {}
    if stale:
        extra['ccm_files'] = [{'mtime': 1, 'lines': [{'id': h, 'login': False, 'batch': False} for h in stale['lines']]},
                              {'mtime': 2, 'lines': lines_m}]
    cfg['agent_local'] = rng.choice([0, 0, 0, 1, 2])
    return {'op': 'init', 'kind': kind, 'cfg': cfg, 'exec_vnode': exec_vnode, 'stale': stale, **extra,
            'lines': lines_m,
            'hosts': [{'id': h, 'login': HOSTS[h][1], 'batch': HOSTS[h][2]} for h in hosts],
            'env_cpus': env_cpus, 'detected': rng.choice([4, 8, 64]), 'reach': reach,
            # some of the hosts that do not answer the probe hang instead of refusing
            'hang': [i for i in range(len(HOSTS)) if i not in reach and rng.random() < 0.5]}


def qstat_text(exec_vnode):
    """`qstat -f <jobid>` output with the exec_vnode attribute wrapped over continuation lines"""
    rhs = '+'.join('(' + '+'.join('%s:ncpus=%d' % (HOSTS[v][0], n) for v, n in ch) + ')' for ch in exec_vnode)
    lines = ['Job Id: 1.x', '    Job_Name = rp', '    exec_host = x/0*8']
    first, rest = rhs[:40], rhs[40:]
    lines.append('    exec_vnode = ' + first)
    while rest:
        lines.append('\t' + rest[:60]); rest = rest[60:]
    lines += ['    Hold_Types = n', '    Join_Path = n']
    return '\n'.join(lines) + '\n'


class FakeProc(object):
    results = {}
    hang = set()
    def __init__(self, cmd):
        self.name = cmd.split()[-2]
        self.stdout, self.stderr, self.retcode = '', '', None
    def start(self): pass
    def wait(self, timeout=None):
        # a probe answers (0), is refused (1), or hangs: it has no return code when the timeout is over, and none
        # after it was cancelled either (rc.process.Process leaves it unset)
        if self.name in FakeProc.hang: self.retcode = None
        else: self.retcode = 0 if FakeProc.results.get(self.name, False) else 1
    def cancel(self): pass


def run_real(rp, case, scratch):
    import radical.utils as ru
    import multiprocessing
    import radical.pilot.agent.resource_manager.base as rmb
    kind, cfg = case['kind'], case['cfg']
    mod = {'torque': 'torque', 'ccm': 'ccm', 'cobalt': 'cobalt', 'lsf': 'lsf', 'pbspro': 'pbspro',
           'slurm': 'slurm', 'fork': 'fork'}[kind]
    cls = rmb.ResourceManager.get_manager(kind.upper())
    d = os.path.join(scratch, 'rm')
    if os.path.isdir(d):
        import shutil; shutil.rmtree(d)
    os.makedirs(os.path.join(d, 'home', '.crayccm'))
    cwd = os.getcwd()
    os.chdir(d)
    saved_env = dict(os.environ)
    saved = (rmb.Process, ru.sh_callout, multiprocessing.cpu_count)
    try:
        text = ''
        for l in case['lines']:
            text += ('' if l is None else l if isinstance(l, str) else HOSTS[l['id']][0]) + '\n'
        nf = os.path.join(d, 'nodefile')
        open(nf, 'w').write(text)
        cur = os.path.join(d, 'home', '.crayccm', 'nodelist.1')
        open(cur, 'w').write(text)
        os.utime(cur, (2000000000, 2000000000))
        if case.get('stale'):
            # written a day before this job's file; its metadata may change afterwards (chmod, rename, restore)
            old = os.path.join(d, 'home', '.crayccm', 'nodelist.0')
            open(old, 'w').write(''.join(HOSTS[h][0] + '\n' for h in case['stale']['lines']))
            os.utime(old, (1999913600, 1999913600))
            if case['stale']['touched_later']:
                os.chmod(old, 0o640)
        for k in list(os.environ):
            if k.startswith(('SLURM_', 'PBS_', 'LSB_', 'COBALT_', 'RADICAL_SMT', 'GPU_DEVICE')):
                del os.environ[k]
        os.environ['HOME'] = os.path.join(d, 'home')
        if case.get('radical_smt'):
            os.environ['RADICAL_SMT'] = str(case['radical_smt'])     # (the job environment carries the level the job was sized with)
        os.environ['PBS_NODEFILE'] = nf
        os.environ['PBS_JOBID'] = '1.x'
        os.environ['LSB_DJOB_HOSTFILE'] = nf
        os.environ['COBALT_NODEFILE'] = nf
        os.environ['COBALT_PARTNAME'] = '5-6'       # (a Cobalt job has both: the node file names the hosts, the partition name is a range of node ids)
        os.environ['SLURM_NODELIST'] = ','.join(HOSTS[h['id']][0] for h in case['hosts'])
        if case['env_cpus']:
            os.environ['SLURM_CPUS_ON_NODE'] = str(case['env_cpus'])
        if cfg.get('env_gpus') is not None:
            os.environ['SLURM_GPUS_ON_NODE'] = str(cfg['env_gpus'])
        if cfg.get('env_gpu_ids'):
            os.environ[['SLURM_JOB_GPUS', 'SLURM_STEP_GPUS', 'GPU_DEVICE_ORDINAL'][cfg['env_gpu_ids'] % 3]] = ','.join(str(i) for i in range(cfg['env_gpu_ids']))
        if cfg['service_nodes']:
            open(os.path.join(d, 'services'), 'w').write('x')
        FakeProc.results = {HOSTS[i][0]: True for i in case['reach']}
        FakeProc.hang = set(HOSTS[i][0] for i in case.get('hang', []))
        if kind == 'fork':
            FakeProc.results = {'localhost': 0 in case['reach']}
        rmb.Process = FakeProc
        ru.sh_callout = lambda *a, **k: ('', 'no qstat', 1)
        if case.get('exec_vnode'):
            ru.sh_callout = lambda *a, **k: (qstat_text(case['exec_vnode']), '', 0)
        multiprocessing.cpu_count = lambda: case['detected']
        # RMInfo's class-level default lists are shared between instances (one RM per process in
        # production); give every case a fresh process-like state
        for k, v in rmb.RMInfo._defaults.items():
            if isinstance(v, list): del v[:]
            if isinstance(v, dict): v.clear()
        rm = object.__new__(cls)
        rm.name = cls.__name__
        rm._log, rm._prof = rpload.NullLog(), rpload.NullLog()
        rm._cfg = ru.Config(from_dict={
            'backup_nodes': cfg['backup'], 'nodes': cfg['nodes'], 'cores': cfg['cores'], 'gpus': cfg['gpus'],
            'cores_per_node': cfg['cpn'], 'gpus_per_node': cfg['gpn'], 'lfs_size_per_node': 0,
            'lfs_path_per_node': '/tmp',
            # sub-agents on nodes of their own, and sub-agents that run next to agent_0 ('local': they need no node)
            'agents': dict([('agent_%d' % i, {'target': 'node'}) for i in range(cfg['agent_nodes'])] +
                           [('agent_l%d' % i, {'target': 'local'}) for i in range(cfg.get('agent_local', 0))])})
        sa = {'smt': cfg['smt']}
        if cfg['blocked_cores']: sa['blocked_cores'] = cfg['blocked_cores']
        if cfg['blocked_gpus']:  sa['blocked_gpus']  = cfg['blocked_gpus']
        rm._rcfg = ru.Config(from_dict={'system_architecture': sa, 'mem_per_node': 0, 'numa_domain_map': {},
                                        'n_partitions': 1, 'fake_resources': True, 'launch_methods': {}})
        try:
            info = rm._init_from_scratch()
            info.verify()
        except Exception as e:
            return 'error', None, repr(e)[:120]
        ids = {h[0]: i for i, h in enumerate(HOSTS)}
        ids['localhost'] = 0
        ids[''] = 999
        occ = lambda l: [0 if x == rp.constants.FREE else 'down' for x in l]
        node = lambda n: [ids.get(n['name'], 998), n['index'], occ(n['cores']), occ(n['gpus'])]
        res = {'node_list': [node(n) for n in info.node_list],
               'agent_node_list': [node(n) for n in info.agent_node_list],
               'service_node_list': [node(n) for n in info.service_node_list],
               'requested_nodes': info.requested_nodes, 'cores_per_node': info.cores_per_node,
               'gpus_per_node': info.gpus_per_node}
        # registry hand-over: every other component builds RMInfo from the stored dict
        back = rmb.RMInfo(copy.deepcopy(info.as_dict()))
        back.verify()
        shared = back.as_dict() == info.as_dict()
        return res, shared, None
    finally:
        rmb.Process, ru.sh_callout, multiprocessing.cpu_count = saved
        os.environ.clear(); os.environ.update(saved_env)
        os.chdir(cwd)


def monitor(case, res, shared):
    if res == 'error':
        return None
    cfg = case['cfg']
    nl, al, sl = res['node_list'], res['agent_node_list'], res['service_node_list']
    if not nl:
        return ('empty-node-list', 'initialisation succeeded with no node to place tasks on')
    if len(nl) > res['requested_nodes']:
        return ('more-nodes-than-requested', '%d nodes offered, %d requested' % (len(nl), res['requested_nodes']))
    if cfg['nodes'] and len(nl) + len(al) + len(sl) > cfg['nodes']:
        # (the node count the pilot was told - `nodes` of its configuration - is the count it asked for: backup nodes are extra)
        return ('more-nodes-than-the-pilot-asked-for', '%d nodes offered (%d of them for agents / services), the pilot asked for %d (backup nodes: %d)'
                % (len(nl) + len(al) + len(sl), len(al) + len(sl), cfg['nodes'], cfg['backup']))
    if not cfg['nodes'] and res['cores_per_node'] and case['kind'] != 'fork':
        # (Fork makes up its node list and needs the count before blocked cores are known: DESIGN.md 7.3)
        # a pilot sized by cores / GPUs: the node count derived for it covers them with what a node can really give
        short = res['requested_nodes'] * res['cores_per_node'] < cfg['cores'] or \
                (res['gpus_per_node'] and res['requested_nodes'] * res['gpus_per_node'] < cfg['gpus'])
        if short:
            return ('derived-node-count-does-not-cover-the-pilot',
                    '%d nodes of %d usable cores / %d usable GPUs for a pilot of %d cores / %d GPUs'
                    % (res['requested_nodes'], res['cores_per_node'], res['gpus_per_node'], cfg['cores'], cfg['gpus']))
    if case['kind'] == 'fork' and not cfg['agent_nodes'] and not cfg['service_nodes'] and len(nl) != res['requested_nodes']:
        # (every node of a FORK pilot is the local host: with backup nodes all of them are probed, and all answer alike)
        return ('fewer-nodes-than-requested-on-the-local-host', '%d nodes offered, %d requested (%d backup nodes)'
                % (len(nl), res['requested_nodes'], cfg['backup']))
    idx = [n[1] for n in nl + al + sl]
    if len(set(idx)) != len(idx):
        return ('duplicate-node-index', str(idx))
    if case['kind'] != 'fork':
        names = [n[0] for n in nl + al + sl]
        if len(set(names)) != len(names):
            return ('host-listed-twice', str(names))
        allocated = set(h['id'] for h in case['hosts'])
        for n in names:
            if n not in allocated:
                return ('node-not-in-allocation', 'node id %s (998 = unknown name, 999 = empty name)' % n)
    if any(n in al or n in sl for n in nl):
        return ('agent-or-service-node-offered', str(nl))
    if cfg['backup'] and case['kind'] != 'fork':
        # with backup nodes every node is probed first: only nodes whose probe answered are used
        for n in nl + al + sl:
            if n[0] not in case['reach']:
                return ('node-used-although-its-probe-did-not-answer',
                        'host id %s (%s) is used; its reachability probe %s' % (n[0], HOSTS[n[0]][0] if isinstance(n[0], int) and n[0] < len(HOSTS) else '?',
                                                                                'hung' if n[0] in case.get('hang', []) else 'was refused'))
    if len(al) != cfg['agent_nodes'] or len(sl) != cfg['service_nodes']:
        return ('agent-service-reservation-wrong', '%d/%d reserved' % (len(al), len(sl)))
    cpn = res['cores_per_node'] + (len(cfg['blocked_cores']) if (cfg['blocked_cores'] or cfg['blocked_gpus']) else 0)
    for n in nl + al + sl:
        if len(n[2]) != cpn:
            return ('node-core-count-differs-from-configured', 'node %s has %d cores, cores_per_node says %d' % (n[0], len(n[2]), cpn))
        down = [i for i, o in enumerate(n[2]) if o == 'down']
        if down != sorted(cfg['blocked_cores']):
            return ('blocked-cores-not-marked', '%s vs %s' % (down, cfg['blocked_cores']))
        # the configured number of GPUs per node (when one is configured) is what every node gets
        if cfg['gpn'] and len(n[3]) != cfg['gpn']:
            return ('node-gpu-count-differs-from-configured', 'node %s has %d GPUs, %d configured' % (n[0], len(n[3]), cfg['gpn']))
        gdown = [i for i, o in enumerate(n[3]) if o == 'down']
        if gdown != sorted(cfg['blocked_gpus']):
            return ('blocked-gpus-not-marked', '%s vs %s' % (gdown, cfg['blocked_gpus']))
    # without a configured node size the slot count of a host is the number of its lines
    if case['kind'] in ('torque', 'ccm', 'lsf') and not cfg['cpn']:
        mult = cfg['smt'] if case['kind'] == 'lsf' else 1
        for n in nl + al + sl:
            lines = sum(1 for l in case['lines'] if isinstance(l, dict) and l['id'] == n[0])
            if len(n[2]) != lines * mult:
                return ('node-core-count-differs-from-node-file',
                        'host id %s has %d lines in the node file but %d cores' % (n[0], lines, len(n[2])))
    if shared is False:
        return ('registry-roundtrip-differs', 'RMInfo(dict) != RMInfo')
    return None


CORPUS = [
    # F19 (fixed): TORQUE with cores_per_node configured and one line per node
    {'op': 'init', 'kind': 'torque', 'cfg': {'cpn': 4, 'gpn': 0, 'smt': 1, 'nodes': 2, 'cores': 8, 'gpus': 0, 'backup': 0,
     'blocked_cores': [], 'blocked_gpus': [], 'agent_nodes': 0, 'service_nodes': 0},
     'lines': [{'id': 0, 'login': False, 'batch': False}, {'id': 1, 'login': False, 'batch': False}],
     'hosts': [{'id': 0, 'login': False, 'batch': False}, {'id': 1, 'login': False, 'batch': False}],
     'env_cpus': None, 'detected': 8, 'reach': list(range(9))},
    # (fixed): a blank line became a node named ''
    {'op': 'init', 'kind': 'torque', 'cfg': {'cpn': 0, 'gpn': 0, 'smt': 1, 'nodes': 2, 'cores': 2, 'gpus': 0, 'backup': 0,
     'blocked_cores': [], 'blocked_gpus': [], 'agent_nodes': 0, 'service_nodes': 0},
     'lines': [{'id': 0, 'login': False, 'batch': False}, None, {'id': 1, 'login': False, 'batch': False}],
     'hosts': [{'id': 0, 'login': False, 'batch': False}, {'id': 1, 'login': False, 'batch': False}],
     'env_cpus': None, 'detected': 8, 'reach': list(range(9))},
]


def run(ctx):
    rp = rpload.load()
    cases = [copy.deepcopy(c) for c in CORPUS] + [gen_case(ctx.rng) for _ in range(ctx.n(900, 30000))]
    impl, dist = [], {}
    for c in cases:
        res, shared, msg = run_real(rp, c, ctx.scratch)
        impl.append(res)
        k = c['kind'] + (':error' if res == 'error' else ':ok')
        dist[k] = dist.get(k, 0) + 1
        ctx.case(c, nontrivial=res != 'error')
        bad = monitor(c, res, shared)
        if bad:
            ctx.fail(bad[0] + ':' + c['kind'], bad[1], c, observed=res)
    ok = [(c, r) for c, r in zip(cases, impl) if r != 'error']
    if ok:
        ctx.sample({'case': ok[-1][0], 'rm_info': ok[-1][1]}, limit=1)
    ctx.extra['distribution'] = dist
    common.compare(ctx, 'rm', cases, impl, what='RMInfo after the real _init_from_scratch (7 resource managers)')
    ctx.rule = ('random allocations: 1-6 hosts, node files with one line per slot / per node / mixed, shuffled repeats, blank '
                'and malformed lines, login/batch pseudo nodes (LSF), hardware-thread multipliers, configured or derived '
                'cores_per_node, blocked cores/GPUs, requested nodes given or derived from cores/GPUs, backup nodes with '
                'scripted reachability, 0-2 sub-agent nodes, services file; non-trivial = initialisation succeeded')
    ctx.assume += ['qstat is unavailable (PBSPro exec_vnode parsing is not modelled; node file path only)',
                   'SLURM host list expressions are expanded by ru.get_hostlist (environment); the harness passes a plain comma list',
                   'the ssh probe result is an input; Fork runs with fake_resources',
                   'YARN and the debug RM are not anchored']
    ctx.trusted += ['harness/props/c18.py (environment variables, node files, FakeProc, host-name <-> id mapping)']


def replay(ctx, data):
    rp = rpload.load()
    res, shared, msg = run_real(rp, data['input'], ctx.scratch)
    bad = monitor(data['input'], res, shared)
    print('observed:', res, msg, bad)
    return not bad
