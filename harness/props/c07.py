"""C07 — The executor finishes each task exactly once (also serves C08/C03's executor half).

The REAL Popen.work / _handle_task / _launch_task / _check_running / cancel_task,
AgentExecutingComponent.control_cb / handle_timeout and BaseComponent._control_cb
/ is_canceled run in real threads under a cooperative scheduler (harness/coop.py):
every access to state shared between the threads (task['proc'], the process
object's poll, the _check_lock critical section, the kill, publish) is a point
where the thread parks until the schedule grants it the next step.  A schedule
is a list of choices (which thread moves, process exits with code n, a cancel
request arrives, the timeout fires, the launch preparation fails).
Tie: observables after every choice vs `RPVerif.Exec.step`.
Monitor: announced once, handed on / failed exactly once, unscheduled exactly
once, never both collected and canceled, never left behind at quiescence."""

import queue
import threading as mt

import common
import rpload
import coop


class FakeProc(object):
    """scripted process: exits when the schedule says so; once its exit status was collected (poll / wait)
    the process group is gone and a signal sent to it raises ESRCH"""
    live = {}
    def __init__(self):
        self.code, self.pid, self.reaped = None, 4242, False
        FakeProc.live[self.pid] = self
    def poll(self):
        coop.point('poll')
        if self.code is not None: self.reaped = True
        return self.code
    def wait(self, timeout=None):
        if self.code is not None: self.reaped = True
        return self.code
    def kill(self, code=137):
        if self.code is None:
            self.code = code


class _OsProxy(object):
    """`os` as the launch method module sees it: killpg reaches the scripted process"""
    def __getattr__(self, k):
        import os
        return getattr(os, k)
    def killpg(self, pid, sig):
        import signal
        if sig == signal.SIGTERM:
            coop.point('kill')
        p = FakeProc.live.get(pid)
        if p is None or p.reaped:
            raise ProcessLookupError(3, 'No such process')
        p.kill()


class _TimeProxy(object):
    def __getattr__(self, k):
        import time
        return getattr(time, k)
    def sleep(self, s): pass


def real_launcher(rp):
    """the real LaunchMethod.cancel_task (base class), with os / time of its module replaced"""
    import radical.pilot.agent.launch_method.base as lmb
    lm = object.__new__(lmb.LaunchMethod)
    lm._log, lm._prof, lm.name = rpload.NullLog(), rpload.NullLog(), 'FORK'
    return lm


class HookTask(dict):
    def get(self, k, d=None):
        if k == 'proc':
            coop.point('get_proc')
        return dict.get(self, k, d)
    def __delitem__(self, k):
        if k == 'proc':
            coop.point('del_proc')
        dict.__delitem__(self, k)


class HookLock(object):
    def __init__(self): self.l = mt.Lock()
    def __enter__(self):
        coop.point('lock')
        self.l.acquire()
    def __exit__(self, *a): self.l.release()


class Launcher(object):
    """stand-in used where only the name of the launcher matters (find_launcher)"""
    def cancel_task(self, task, pid):
        coop.point('kill')
        task.fake.kill()


class Fault(Exception):
    pass


def make_executor(rp, rec, fault_box):
    import radical.utils as ru
    from radical.pilot.agent.executing.popen import Popen
    p = object.__new__(Popen)
    p._uid = 'agent.executing.0000'
    p._log, p._prof = rpload.NullLog(), rpload.NullLog()
    p._tasks       = dict()
    p._check_lock  = HookLock()
    p._watch_queue = queue.Queue()
    p._cancel_list, p._cancel_lock = [], mt.RLock()
    p._to_tasks, p._to_lock = [], mt.RLock()
    p._term = mt.Event()
    p._rpc_reqs = {}
    class _RM(object):
        def find_launcher(self, task):
            if fault_box['fault']:
                return None, None
            return Launcher(), 'FORK'
        def get_launcher(self, name): return real_launcher(rp)
    p._rm = _RM()
    class _Sess(object):
        class rcfg(object): new_session_per_task = False
    p._session = _Sess()
    def publish(ch, msg, **kw):
        msgs = msg if isinstance(msg, list) else [msg]
        if 'unschedule' in str(ch).lower():
            if msgs: coop.point('publish')
            for m in msgs: rec.append(['unsched', m['uid']])
    def advance(things, state=None, publish=True, push=False, **kw):
        if not isinstance(things, list): things = [things]
        for t in things:
            t['state'] = state
            rec.append(['advance', t['uid'], state, bool(push), t.get('target_state'), t.get('exit_code')])
    p.publish, p.advance = publish, advance
    # (the real AgentExecutingComponent.advance_tasks sorts the tasks by origin and hands each group on through advance())
    p._create_exec_script   = lambda launcher, task: ('exec.sh', 'exec.sh')
    p._create_launch_script = lambda launcher, task, ep: ('launch.sh', 'launch.sh')
    orig_ht = Popen.handle_timeout
    def handle_timeout(task):
        coop.point('arm')
        orig_ht(p, task)
        fault_box['armed'] = bool(p._to_tasks)
    p.handle_timeout = handle_timeout
    orig_ic = Popen.is_canceled
    def is_canceled(task):
        coop.point('is_canceled')
        return orig_ic(p, task)
    p.is_canceled = is_canceled
    return p


def run_schedule(rp, choices, drain=True):
    """returns (observations per choice, full choice list actually executed incl. drain)"""
    import radical.pilot.agent.executing.popen as popen_mod
    import radical.utils as ru
    rec, fault_box = [], {'fault': False}
    p = make_executor(rp, rec, fault_box)
    task = HookTask({'uid': 'task.000000', 'state': 'AGENT_EXECUTING_PENDING', 'origin': 'client',
                     'description': {'timeout': 5.0, 'startup_timeout': 0.0, 'stdout': None, 'stderr': None},
                     'task_sandbox_path': '.', 'slots': []})
    fake = FakeProc()
    task.fake = fake
    import radical.pilot.agent.launch_method.base as lmb
    saved_lmb = (lmb.os, lmb.time)
    lmb.os, lmb.time = _OsProxy(), _TimeProxy()
    saved = (popen_mod.sp.Popen, ru.ru_open)
    def fake_popen(*a, **k):
        coop.point('spawn')
        if fault_box['fault']:
            raise OSError('spawn failed')
        return fake
    class _F(object):
        def write(self, *a): pass
        def close(self): pass
    popen_mod.sp.Popen = fake_popen
    ru.ru_open = lambda *a, **k: _F()
    ctl = coop.Controller()
    to_watch = []
    stop = {'watch': False}

    def intake():
        coop.point('start')
        p.work([task])

    def watcher():
        # body of Popen._watch, one pass per iteration
        while not stop['watch']:
            coop.point('idle')
            try:
                while True:
                    to_watch.append(p._watch_queue.get_nowait())
            except queue.Empty:
                pass
            p._check_running(to_watch)

    def cancel_req():
        # the request names other tasks too (some waiting elsewhere in the agent, some long gone), before and
        # after the one this executor holds
        p._control_cb('control_pubsub', {'cmd': 'cancel_tasks', 'arg': {'uids': ['task.000077', 'task.000000', 'task.000078']}})

    def timeout_fire():
        p.cancel_task(task=task)

    obs, done = [], []
    ncancel = 0
    class _A(dict): pass
    armed = {'v': False}
    try:
        ctl.spawn('intake', intake)
        ctl.spawn('watcher', watcher)

        def observe():
            started = sum(1 for r in rec if r[0] == 'advance' and r[2] == 'AGENT_EXECUTING')
            handed  = [r for r in rec if r[0] == 'advance' and r[2] == 'AGENT_STAGING_OUTPUT_PENDING']
            obs.append({'started': started, 'unsched': sum(1 for r in rec if r[0] == 'unsched'),
                        'handed': len(handed), 'failed': sum(1 for r in rec if r[0] == 'advance' and r[2] == 'FAILED'),
                        'canceled_pub': sum(1 for r in rec if r[0] == 'advance' and r[2] == 'CANCELED'),
                        'outcome': task.get('target_state') if 'target_state' in task else None,
                        'in_tasks': 'task.000000' in p._tasks, 'proc_key': dict.__contains__(task, 'proc')})

        def apply(c):
            nonlocal ncancel
            if c == 'intake':
                fault_box['fault'] = False
                ctl.grant('intake')
            elif c == 'fault':
                # the launch preparation raises (only meaningful while the intake is preparing the launch)
                if ctl.where('intake') == 'spawn':
                    fault_box['fault'] = True
                    ctl.grant('intake')
                    fault_box['fault'] = False
            elif c == 'watcher':
                ctl.grant('watcher')
            elif c == 'cancel_req':
                name = 'cancel%d' % ncancel
                ctl.spawn(name, cancel_req)
                if ctl.where(name) == 'done':
                    del ctl.workers[name]       # the executor did not know the task: only the mark remains
                else:
                    ncancel += 1
            elif c == 'timeout':
                if armed['v']:
                    ctl.spawn('cancel%d' % ncancel, timeout_fire)
                    ncancel += 1
            elif isinstance(c, list) and c[0] == 'cancel':
                name = 'cancel%d' % c[1]
                if name in ctl.workers:
                    ctl.grant(name)
            elif isinstance(c, list) and c[0] == 'exit':
                if task.spawned and fake.code is None:
                    fake.code = c[1]
            armed['v'] = bool(fault_box.get('armed'))
            done.append(c)
            observe()

        # `spawned`: set when the real code has stored the process object
        task.spawned = False
        orig_set = HookTask.__setitem__
        def setitem(self, k, v):
            if k == 'proc': self.spawned = True
            dict.__setitem__(self, k, v)
        HookTask.__setitem__ = setitem

        for c in choices:
            apply(c)
        if drain:
            # let everything finish: threads round robin; the process exits by itself if nobody kills it
            for _ in range(200):
                progressed = False
                for name in list(ctl.workers):
                    if name == 'watcher': continue
                    if ctl.where(name) != 'done':
                        apply('intake' if name == 'intake' else ['cancel', int(name[6:])]); progressed = True
                if task.spawned and fake.code is None and not progressed:
                    apply(['exit', 0]); progressed = True
                # watcher passes until it is idle with nothing to watch
                w = ctl.where('watcher')
                if w != 'idle' or to_watch or not p._watch_queue.empty():
                    apply('watcher'); progressed = True
                if not progressed:
                    break
    finally:
        stop['watch'] = True
        popen_mod.sp.Popen, ru.ru_open = saved
        lmb.os, lmb.time = saved_lmb
        HookTask.__setitem__ = dict.__setitem__
    quiet = all(ctl.where(n) in ('done', 'idle') for n in ctl.workers) and not to_watch and p._watch_queue.empty()
    werr = ctl.workers['watcher'].error if 'watcher' in ctl.workers else None
    if werr is not None and not isinstance(werr, coop.Abort):
        # an exception left _check_running: the real _watch logs it and the watcher thread ends - nothing that is
        # running or launched later is ever collected
        rec.append(['watcher-died', repr(werr)])
    ctl.close()
    return obs, done, rec, quiet


def run_bulk(rp, tasks, watch_at_put=False):
    """the real Popen.work on a bulk [(uid, launch fails, exit code)], then the processes exit and the
    watcher makes its passes (no interference between threads: the intake finishes first)"""
    import radical.pilot.agent.executing.popen as popen_mod
    import radical.utils as ru
    rec, fault_box = [], {'fault': False}
    p = make_executor(rp, rec, fault_box)
    procs, cur = {}, {'uid': None}
    class _RM(object):
        def find_launcher(self, task):
            cur['uid'] = task['uid']
            if task['uid'] in failing: return None, None
            return Launcher(), 'FORK'
        def get_launcher(self, name): return Launcher()
    p._rm = _RM()
    failing = set('task.%06d' % u for u, f, c in tasks if f)
    tds = []
    for u, f, c in tasks:
        # where a task comes from decides where its updates go (advance_tasks): the application, a raptor master
        # (its workers: origin 'raptor', bound to the master by raptor_id), the agent itself (services).  (A task of the
        # application that is bound to a master is by design announced to both, i.e. twice - DESIGN.md 7.3 - and is
        # left out here.)
        origin, rid = [('client', None), ('client', None), ('raptor', 'master.0000'), ('agent', None), ('client', None)][u % 5]
        t = dict({'uid': 'task.%06d' % u, 'state': 'AGENT_EXECUTING_PENDING', 'origin': origin,
                  'description': {'timeout': 0.0, 'startup_timeout': 0.0, 'stdout': None, 'stderr': None, 'raptor_id': rid},
                  'task_sandbox_path': '.', 'slots': []})
        tds.append(t)
    def fake_popen(*a, **k):
        f = FakeProc()
        procs[cur['uid']] = f
        return f
    class _F(object):
        def write(self, *a): pass
        def close(self): pass
    saved = (popen_mod.sp.Popen, ru.ru_open)
    popen_mod.sp.Popen = fake_popen
    ru.ru_open = lambda *a, **k: _F()
    to_watch = []
    if watch_at_put:
        # the watcher thread is scheduled at the very moment a launched task is queued for it: it drains the queue and
        # makes a pass over what it watches before the intake thread does anything else
        class WQ(queue.Queue):
            def put(self_, item, *a, **k):
                queue.Queue.put(self_, item, *a, **k)
                try:
                    while True: to_watch.append(queue.Queue.get_nowait(self_))
                except queue.Empty:
                    pass
                p._check_running(to_watch)
        p._watch_queue = WQ()
    ctl = coop.Controller()
    try:
        def intake():
            p.work(tds)
        ctl.spawn('intake', intake)
        for _ in range(400):
            if ctl.where('intake') == 'done': break
            ctl.grant('intake')
        run_bulk.intake_events = len(rec)        # what was recorded up to here happened while every launched task ran
        codes = {'task.%06d' % u: c for u, f, c in tasks}
        for uid, f in procs.items():
            f.code = codes[uid]
        def watcher():
            try:
                while True: to_watch.append(p._watch_queue.get_nowait())
            except queue.Empty:
                pass
            p._check_running(to_watch)
        ctl.spawn('watcher', watcher)
        for _ in range(2000):
            if ctl.where('watcher') == 'done': break
            ctl.grant('watcher')
    finally:
        popen_mod.sp.Popen, ru.ru_open = saved
        ctl.close()
    evs = []
    for r in rec:
        n = int(r[1].split('.')[1])
        if r[0] == 'unsched': evs.append(['unsched', n])
        elif r[2] == 'AGENT_EXECUTING': evs.append(['start', n])
        elif r[2] == 'FAILED': evs.append(['failed', n])
        elif r[2] == 'AGENT_STAGING_OUTPUT_PENDING': evs.append(['handed', n, r[4]])
        else: evs.append(['other', n, r[2]])
    # (the start of the bulk is announced group by group - the application's tasks, those of a raptor master, the agent's
    #  own: the order of the announcements within that first block is not an observable of its own; bulk order here)
    k = 0
    while k < len(evs) and evs[k][0] == 'start': k += 1
    order = [u for u, f, c in tasks]
    evs[:k] = sorted(evs[:k], key=lambda e: order.index(e[1]) if e[1] in order else 99)
    return evs


def bulk_monitor(tasks, evs):
    for u, f, c in tasks:
        st = sum(1 for e in evs if e[:2] == ['start', u])
        un = sum(1 for e in evs if e[:2] == ['unsched', u])
        fa = sum(1 for e in evs if e[:2] == ['failed', u])
        ha = [e for e in evs if e[:2] == ['handed', u]]
        if st != 1: return ('bulk:execution-start-announced-%d-times' % st, 'task %d' % u)
        if fa + len(ha) != 1: return ('bulk:task-handed-on-%d-times' % (fa + len(ha)), 'task %d (launch %s): failed x%d, handed on %s'
                                      % (u, 'fails' if f else 'ok', fa, ha))
        if un != 1: return ('bulk:resources-released-%d-times' % un, 'task %d' % u)
        if f and not fa: return ('bulk:unlaunchable-task-not-failed', 'task %d' % u)
        if not f and ha[0][2] != ('DONE' if c == 0 else 'FAILED'): return ('bulk:outcome-differs-from-exit-code', 'task %d: %s, exit %d' % (u, ha[0], c))
    return None


def bulk_part(ctx, rp):
    rng = ctx.rng
    ops, impl = [], []
    bulks = [[(0, False, 0), (1, True, 0), (2, False, 3)], [(0, True, 0)], [(3, True, 0), (1, True, 0)], [(0, False, 1), (1, False, 0)]]
    for _ in range(ctx.n(120, 3000)):
        n = rng.randint(1, 5)
        bulks.append([(u, rng.random() < 0.3, rng.choice([0, 0, 1, 7])) for u in rng.sample(range(8), n)])
    for b in bulks:
        evs = run_bulk(rp, b)
        ops.append({'op': 'bulk', 'tasks': [{'uid': u, 'fault': f, 'code': c} for u, f, c in b]})
        impl.append(evs)
        ctx.case(ops[-1], nontrivial=any(f for u, f, c in b) and len(b) > 1)
        bad = bulk_monitor(b, evs)
        if bad:
            ctx.fail(bad[0], bad[1], {'kind': 'bulk', 'tasks': [list(x) for x in b]}, observed=evs)
        if len(ops) % 4 == 1:
            evs2 = run_bulk(rp, b, watch_at_put=True)
            bad = bulk_monitor(b, evs2)
            if bad:
                ctx.fail('launch-window:' + bad[0], bad[1] + ' (the watcher makes a pass at the moment each launched task is queued for it)',
                         {'kind': 'bulk', 'tasks': [list(x) for x in b], 'watch_at_put': True}, observed=evs2)
    common.compare(ctx, 'exec', ops, impl, what='real Popen.work on bulks with unlaunchable tasks + watcher pass: events in order')


def monitor(obs, rec, quiet, drained):
    last = obs[-1] if obs else None
    for r in rec:
        if r[0] == 'watcher-died':
            return ('watcher-thread-died', 'an exception left _check_running (%s): no task is collected any more' % r[1])
    for o in obs:
        if o['started'] > 1: return ('execution-start-announced-twice', str(o))
        if o['unsched'] > 1: return ('resources-released-twice', str(o))
        if o['handed'] + o['failed'] > 1: return ('task-handed-on-twice', str(o))
    if last and drained:
        if not quiet:
            return ('executor-not-quiescent', 'threads still parked after the drain')
        if last['started'] == 1 and last['handed'] + last['failed'] != 1:
            return ('task-left-behind', 'accepted task was never handed on: %s' % last)
        if last['started'] == 1 and last['unsched'] != 1:
            return ('resources-never-released', str(last))
    hand = [r for r in rec if r[0] == 'advance' and r[2] == 'AGENT_STAGING_OUTPUT_PENDING']
    for r in hand:
        if r[4] not in ('DONE', 'FAILED', 'CANCELED'):
            return ('handed-on-without-outcome', str(r))
        if r[4] == 'DONE' and r[5] != 0: return ('DONE-with-nonzero-exit', str(r))
        if r[4] == 'FAILED' and r[5] in (0, None): return ('FAILED-with-zero-exit', str(r))
    return None


def gen_schedule(rng):
    n = rng.randint(4, 26)
    cs = []
    for _ in range(n):
        r = rng.random()
        if   r < 0.30: cs.append('intake')
        elif r < 0.55: cs.append('watcher')
        elif r < 0.75: cs.append(['cancel', rng.randint(0, 2)])
        elif r < 0.83: cs.append('cancel_req')
        elif r < 0.88: cs.append('timeout')
        elif r < 0.96: cs.append(['exit', rng.choice([0, 0, 1, 2])])
        else:          cs.append('fault')
    return cs


def model_choices(done):
    return {'op': 'exec', 'choices': done}


def run(ctx):
    rp  = rpload.load()
    rng = ctx.rng
    from props import noopsuite
    noopsuite.run(ctx, 'C07')
    bulk_part(ctx, rp)
    from props import watchqueue, timeoutsuite
    watchqueue.run(ctx, 'C07')
    timeoutsuite.run(ctx, 'C07')
    scheds = [
        ['intake', 'intake', 'intake', 'intake', 'watcher', 'watcher', ['exit', 0], 'watcher', 'watcher'],
        ['intake', 'intake', 'intake', 'cancel_req', 'intake', ['cancel', 0], 'watcher', ['cancel', 0], ['exit', 1],
         'watcher', ['cancel', 0], 'watcher', 'watcher', ['cancel', 0]],
        ['intake', 'cancel_req', 'intake', 'intake', 'intake', 'intake', 'intake'],
        ['intake', 'fault', 'cancel_req', ['cancel', 0], 'watcher'],
        ['intake', 'intake', 'intake', 'timeout', ['cancel', 0], ['exit', 0], 'watcher', 'watcher', ['cancel', 0], 'watcher'],
    ]
    scheds += [gen_schedule(rng) for _ in range(ctx.n(500, 20000))]
    ops, impl = [], []
    dist = {'DONE': 0, 'FAILED': 0, 'CANCELED': 0, 'launch_failed': 0, 'race_cancel_vs_exit': 0}
    for cs in scheds:
        obs, done, rec, quiet = run_schedule(rp, cs)
        ops.append(model_choices(done))
        impl.append(obs)
        last = obs[-1]
        if last['failed']: dist['launch_failed'] += 1
        elif last['outcome']: dist[last['outcome']] += 1
        ctx.case(ops[-1], nontrivial=last['handed'] + last['failed'] == 1)
        bad = monitor(obs, rec, quiet, True)
        if bad:
            ctx.fail(bad[0], bad[1], {'choices': cs})
    ctx.sample({'schedule': scheds[1], 'observations': impl[1][-1]}, limit=1)
    ctx.sample({'schedule': scheds[-1], 'observations': impl[-1][-1]}, limit=2)
    ctx.extra['distribution'] = dist
    common.compare(ctx, 'exec', ops, impl, what='real Popen executor under the cooperative scheduler: observables after every step')
    ctx.rule = ('random schedules of 4-26 choices over {intake step, watcher step, step of cancel invocation i, cancel request, '
                'timeout fires, process exits with code 0/1/2, launch preparation fails}, followed by a drain to quiescence; '
                'non-trivial = the task was handed on or failed exactly once')
    ctx.assume += ['one task; tasks are independent in the executor except for bulk publication',
                   'the code between two shared accesses is atomic (GIL); shared accesses are the instrumented points: '
                   "task.get('proc'), proc.poll, _check_lock entry, the kill, del task['proc'], the unschedule publication",
                   'the OS process is a scripted object (exit at any step, kill always succeeds)',
                   'proc.wait() on an exited or killed process returns at once']
    ctx.trusted += ['harness/coop.py, harness/props/c07.py (instrumented task dict, lock, process, launcher)']


def replay(ctx, data):
    rp = rpload.load()
    if 'noop' in data['input']:
        from props import noopsuite
        return noopsuite.replay(ctx, data)
    if 'watch_queue' in data['input']:
        from props import watchqueue
        return watchqueue.replay(ctx, data, 'C07')
    if 'timeout_watcher' in data['input']:
        from props import timeoutsuite
        return timeoutsuite.replay(ctx, data, 'C07')
    if data['input'].get('kind') == 'bulk':
        b = [tuple(x) for x in data['input']['tasks']]
        evs = run_bulk(rp, b, watch_at_put=bool(data['input'].get('watch_at_put')))
        bad = bulk_monitor(b, evs)
        print(evs, bad)
        return not bad
    obs, done, rec, quiet = run_schedule(rp, data['input']['choices'])
    bad = monitor(obs, rec, quiet, True)
    for r in rec: print(r)
    print(obs[-1], bad)
    return not bad
