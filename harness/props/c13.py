"""C13 — A dying pilot fails its own tasks and only those.

Tie: sampled differential run of the real TaskManager._pilot_state_cb (real
Task objects, Task._update unmodified) against `pilotStateCb`; Task._update is
tied exhaustively in C06's suite and again here.
Monitor: the property evaluated directly on the real objects."""

import itertools

import common
import rpload
import stubs


class PilotStub(object):
    def __init__(self, pid, state):
        self.uid, self.state = 'pilot.%04d' % pid, state


PRIOR = 9999        # a detail that does not name a pilot (the task's own earlier error)


def run_case(rp, tasks, calls):
    tm = stubs.make_tmgr(rp)
    objs = []
    for t in tasks:
        o = stubs.make_task(rp, tm, 'task.%06d' % t['uid'], t['state'],
                            pilot=None if t['pilot'] is None else 'pilot.%04d' % t['pilot'])
        if t.get('service'):
            # a service task; 'up': its startup info was already delivered (service_up -> _set_info)
            o._descr.mode = rp.TASK_SERVICE
            if t['service'] == 'up':
                o._set_info({'addr': 'tcp://x:1'})
        if t.get('prior'):
            # the task already carries error information of its own (a non-zero exit recorded by the
            # executor on a task that is still being staged out)
            o._exception, o._exception_detail = 'RuntimeError(task failed)', 'exit code: 1'
        objs.append(o)
    del tm.advanced[:]
    err = None
    try:
        for call in calls:
            ps = [PilotStub(p, s) for p, s in call]
            tm._pilot_state_cb(ps if len(ps) != 1 else ps[0])   # both call forms
    except Exception as e:
        err = type(e).__name__
    out = []
    for t, o in zip(tasks, objs):
        det = o.exception_detail
        d = None
        if det:
            d = int(det.split('pilot.')[1].split()[0]) if 'pilot.' in det else PRIOR
        out.append({'uid': t['uid'], 'state': o.state, 'pilot': t['pilot'], 'detail': d,
                    'exception': o.exception})
    pubs = [int(u.split('.')[1]) for adv in tm.advanced for u, _ in adv]
    return out, pubs, err


def run_chain(rp, before, after, pmgr_cbs, final_state='FAILED'):
    """the real Pilot._update with application callbacks on the pilot (registered before / after the
    task manager's, which the real TaskManager.add_pilots registers) and on the pilot manager; every
    callback is (id, raises).  Returns the ids of the callbacks that were called, in order; the task
    manager's callback is id 0; plus the state of a task bound to the pilot afterwards."""
    import threading as mt
    tm = stubs.make_tmgr(rp)
    tm.publish = lambda *a, **k: None
    pm = object.__new__(rp.PilotManager)
    pm._uid, pm._log = 'pmgr.verif', rpload.NullLog()
    pm._pcb_lock = mt.RLock()
    pm._callbacks = {m: dict() for m in rp.constants.PMGR_METRICS}
    pilot = object.__new__(rp.Pilot)
    pilot._uid, pilot._state, pilot._log, pilot._pmgr = 'pilot.0000', 'PMGR_ACTIVE', rpload.NullLog(), pm
    pilot._cb_lock = mt.RLock()
    pilot._callbacks = {m: dict() for m in rp.constants.PMGR_METRICS}
    pilot._pilot_dict = {'uid': 'pilot.0000', 'state': 'PMGR_ACTIVE'}
    class _Sub(object):
        def stop(self): pass
    pilot._sub = _Sub()
    pilot._tmgr = None
    pilot.attach_tmgr = lambda t: setattr(pilot, '_tmgr', t)
    pilot.as_dict = lambda: dict(pilot._pilot_dict)
    called, keep = [], []
    def mk(i, raises, owner=None):
        def cb(*a):
            called.append(i)
            if raises == 'oneshot':
                # a one-shot callback: it takes itself out of the registry once it saw what it waited for (legal:
                # the callback locks are re-entrant); it does not raise
                (owner or pilot).unregister_callback(cb)
            elif raises: raise RuntimeError('application callback %d' % i)
        keep.append(cb)                 # ids of callbacks are their memory addresses: keep them alive
        return cb
    for i, r in before: pilot.register_callback(mk(i, r))
    orig = tm._pilot_state_cb
    def tm_cb(pilots, state=None):
        called.append(0)
        return orig(pilots, state)
    tm._pilot_state_cb = tm_cb
    tm.add_pilots(pilot)
    for i, r in after: pilot.register_callback(mk(i, r))
    for i, r in pmgr_cbs: pm.register_callback(mk(i, r, pm))
    task = stubs.make_task(rp, tm, 'task.000000', 'AGENT_EXECUTING', pilot='pilot.0000')
    try:
        pilot._update({'uid': 'pilot.0000', 'state': final_state})
    except RuntimeError:
        pass
    return called, task.state


EARLY = ['PMGR_LAUNCHING_PENDING', 'PMGR_LAUNCHING', 'PMGR_ACTIVE_PENDING']


def run_added(rp, groups, order, start=None):
    """pilots handed to the REAL TaskManager.add_pilots in groups (one call per group, a list where the group has
    several), one live task bound to each; then the pilots end, in `order`, through the real
    PilotManager._update_pilot (which fills the gap up to the reported state) and Pilot._update.
    `start`: the state each pilot handle is in when its final state is reported (default PMGR_ACTIVE).
    Returns after each ending the state of every task"""
    import threading as mt
    tm = stubs.make_tmgr(rp)
    tm.publish = lambda *a, **k: None
    pm = object.__new__(rp.PilotManager)
    pm._uid, pm._log = 'pmgr.verif', rpload.NullLog()
    pm._pcb_lock = mt.RLock()
    pm._callbacks = {m: dict() for m in rp.constants.PMGR_METRICS}
    class _Sub(object):
        def stop(self): pass
    pilots = {}
    def mkp(i):
        pilot = object.__new__(rp.Pilot)
        st0 = (start or {}).get(i, 'PMGR_ACTIVE')
        pilot._uid, pilot._state, pilot._log, pilot._pmgr = 'pilot.%04d' % i, st0, rpload.NullLog(), pm
        pilot._cb_lock = mt.RLock()
        pilot._callbacks = {m: dict() for m in rp.constants.PMGR_METRICS}
        pilot._pilot_dict = {'uid': pilot._uid, 'state': st0}
        pilot._sub = _Sub()
        pilot._tmgr = None
        pilot.attach_tmgr = lambda t, pilot=pilot: setattr(pilot, '_tmgr', t)
        pilot.as_dict = lambda pilot=pilot: dict(pilot._pilot_dict)
        pilots[i] = pilot
        return pilot
    for g in groups:
        ps = [mkp(i) for i in g]
        tm.add_pilots(ps if len(ps) > 1 else ps[0])
    pm._pilots = {p._uid: p for p in pilots.values()}
    pm._pilots_lock = mt.RLock()
    pm.advance = lambda *a, **k: None
    tasks = {i: stubs.make_task(rp, tm, 'task.%06d' % i,
                                'AGENT_EXECUTING' if p._state == 'PMGR_ACTIVE' else 'TMGR_STAGING_INPUT_PENDING',
                                pilot='pilot.%04d' % i) for i, p in pilots.items()}
    snaps = []
    for i, st in order:
        try:
            pm._update_pilot({'uid': pilots[i]._uid, 'state': st}, publish=False)
        except RuntimeError:
            pass
        snaps.append({j: (t.state, t.exception_detail) for j, t in tasks.items()})
    return snaps


class TimedCoopRLock(object):
    """the task manager's `_tasks_lock` under the cooperative scheduler.  Taking it is a scheduling point; a thread that
    finds it held by another thread parks.  A *timed* acquire that is granted its next step while the lock is still
    held has run out of time and returns False (the holder may keep a lock for as long as it likes: `submit_tasks`
    holds this one for a whole submission)."""
    def __init__(self):
        self.owner, self.depth = None, 0
    def acquire(self, blocking=True, timeout=-1):
        import coop
        me = getattr(coop._local, 'worker', None)
        if self.owner is me and me is not None:
            self.depth += 1; return True
        coop.point('lock')
        while self.owner is not None:
            if not blocking: return False
            coop.point('lock-wait')
            if self.owner is not None and timeout is not None and timeout >= 0:
                return False
        self.owner, self.depth = me, 1
        return True
    def release(self):
        self.depth -= 1
        if self.depth == 0: self.owner = None
    def __enter__(self): self.acquire(); return self
    def __exit__(self, *a): self.release()


def run_contended(rp, choices, final_state='FAILED'):
    """the final state of a pilot arrives (real TaskManager._pilot_state_cb on the pilot update thread) while an
    application thread is inside a submission and holds the task manager's tasks lock for as long as the schedule
    lets it.  choices: which thread takes its next step.  Returns the states of the two tasks of the dead pilot and
    of a task of another pilot once both threads are through."""
    import coop
    tm = stubs.make_tmgr(rp)
    tm._tasks_lock = TimedCoopRLock()
    ts = [stubs.make_task(rp, tm, 'task.000000', 'AGENT_EXECUTING', pilot='pilot.0000'),
          stubs.make_task(rp, tm, 'task.000001', 'TMGR_STAGING_INPUT_PENDING', pilot='pilot.0000'),
          stubs.make_task(rp, tm, 'task.000002', 'AGENT_EXECUTING', pilot='pilot.0001')]
    ctl = coop.Controller()
    errs = []
    try:
        def submit():
            # TaskManager.submit_tasks: `with self._tasks_lock:` around the whole loop that registers the new tasks
            with tm._tasks_lock:
                for _ in range(3): coop.point('submitting')
        def final():
            try: tm._pilot_state_cb(PilotStub(0, final_state))
            except Exception as e: errs.append(type(e).__name__)
        ctl.spawn('submit', submit)
        ctl.spawn('final', final)
        for c in list(choices) + ['submit'] * 8 + ['final'] * 8:
            if all(w.done for w in ctl.workers.values()): break
            if not ctl.workers[c].done: ctl.grant(c)
    finally:
        ctl.close()
    return [t.state for t in ts], errs


def run_submit_race(rp, choices, final_state='FAILED'):
    """the final state of a pilot arrives (real _pilot_state_cb on the pilot update thread) while the application
    thread is inside the REAL TaskManager.submit_tasks with two new tasks bound to pilots by their descriptions (as
    pilot.submit_tasks binds them).  Scheduling points: the tasks lock, the hand-over of the bulk to the scheduler
    (`advance(..., TMGR_SCHEDULING_PENDING)`: before and after it) and the start of the callback.  Returns the order
    of events ('handed' = the bulk reached the scheduler, 'final' = the callback starts), and state / explanation of
    the tasks afterwards."""
    import coop
    tm = stubs.make_tmgr(rp)
    tm._tasks_lock = TimedCoopRLock()
    tm._known_uids = set()
    old = [stubs.make_task(rp, tm, 'task.000000', 'AGENT_EXECUTING', pilot='pilot.0000'),
           stubs.make_task(rp, tm, 'task.000001', 'AGENT_STAGING_OUTPUT', pilot='pilot.0000'),
           stubs.make_task(rp, tm, 'task.000002', 'AGENT_EXECUTING', pilot='pilot.0001')]
    events, errs, new = [], [], []
    # the callback scans the registry without the tasks lock: each task it fails is a point at which the submitting
    # thread may run (and enter its new tasks into the registry)
    orig_update = rp.Task._update
    def _update(self, d, *a, **k):
        coop.point('task-update')
        return orig_update(self, d, *a, **k)
    rec = tm.advance
    def advance(things, state=None, publish=True, push=False, **kw):
        if state == 'TMGR_SCHEDULING_PENDING':
            coop.point('hand-over')
            events.append('handed')
            rec(things, state, publish, push)
            coop.point('handed-over')
        else:
            rec(things, state, publish, push)
    tm.advance = advance
    ctl = coop.Controller()
    rp.Task._update = _update
    try:
        def submit():
            try:
                tds = [rp.TaskDescription({'executable': '/bin/true', 'uid': 'task.000010', 'pilot': 'pilot.0000'}),
                       rp.TaskDescription({'executable': '/bin/true', 'uid': 'task.000011', 'pilot': 'pilot.0001'})]
                new.extend(tm.submit_tasks(tds))
            except Exception as e: errs.append('submit:' + type(e).__name__)
        def final():
            events.append('final')
            try: tm._pilot_state_cb(PilotStub(0, final_state))
            except Exception as e: errs.append('final:' + type(e).__name__)
        ctl.spawn('submit', submit, run_to_first_point=False)
        ctl.spawn('final', final, run_to_first_point=False)
        for c in list(choices) + ['submit'] * 8 + ['final'] * 8:
            if all(w.done for w in ctl.workers.values()): break
            if not ctl.workers[c].done: ctl.grant(c)
    finally:
        ctl.close()
        rp.Task._update = orig_update
    view = {t.uid: (t.state, str(t.exception_detail)) for t in old + new}
    return events, view, errs


def submit_race_monitor(events, view, errs, fs):
    bad = []
    if errs or len(view) != 5:
        bad.append(('submission:pilot-callback-or-submission-raised', '%s; tasks afterwards %s; order of events: %s' % (errs, view, events)))
        return bad
    for uid in ('task.000000', 'task.000001', 'task.000010'):
        st, det = view[uid]
        # a new task counts as the pilot's when it had reached the scheduler before the pilot's end was delivered
        if uid == 'task.000010' and not ('handed' in events and events.index('handed') < events.index('final')):
            continue
        if st != 'FAILED' or 'pilot.0000' not in det:
            bad.append(('submission:task-handed-to-the-scheduler-before-the-pilot-ended-is-not-failed' if uid == 'task.000010'
                        else 'submission:dead-pilot-keeps-its-tasks',
                        '%s (bound to pilot.0000, which ended %s) is %s (%s); order of events: %s' % (uid, fs, st, det, events)))
    for uid in ('task.000002', 'task.000011'):
        if view[uid][0] == 'FAILED':
            bad.append(('submission:bystander-failed', '%s is bound to pilot.0001 and was failed' % uid))
    return bad


def submit_race_part(ctx, rp):
    import itertools
    n, seen = 0, set()
    for k in range(0, 8):
        for choices in itertools.product(['submit', 'final'], repeat=k):
            for fs in (['FAILED'] if k > 3 else ['FAILED', 'DONE', 'CANCELED']):
                events, view, errs = run_submit_race(rp, choices, fs)
                n += 1
                ctx.case({'submit_race': list(choices), 'final': fs}, nontrivial=events[:1] == ['handed'])
                for sig, what in submit_race_monitor(events, view, errs, fs):
                    ctx.fail(sig, what, {'submit_race': {'choices': list(choices), 'final': fs}}, observed=view)
    ctx.obligation('a pilot ends while the real submit_tasks hands new tasks bound to it to the scheduler: all schedules of the two '
                   'threads up to 7 steps (%d runs)' % n, 'tie', True, '')


def run_activation_race(rp, choices, final_state='FAILED'):
    """a pilot ends while it is being activated: the activation (PMGR_ACTIVE, control subscriber thread) and the final
    state (state subscriber thread) reach the real PilotManager._update_pilot on a thread each; the real TaskManager's
    _pilot_state_cb is registered on the real Pilot.  Scheduling points: the pilot manager's lock and every callback the
    pilot makes.  Returns the pilot's state and the states of a task bound to it and of a bystander."""
    import coop
    from props import c14
    pm = c14.make_pmgr(rp)
    order = []
    pm._pilots_lock = c14.CoopRLock(order)
    p = c14.make_pilot(rp, pm, 'pilot.0000', 'PMGR_LAUNCHING')
    # (the locks around the callback walks are cooperative ones, too: a thread that finds one held parks)
    p._cb_lock, pm._pcb_lock = c14.CoopRLock([]), c14.CoopRLock([])
    tm = stubs.make_tmgr(rp)
    ts = [stubs.make_task(rp, tm, 'task.000000', 'AGENT_EXECUTING', pilot='pilot.0000'),
          stubs.make_task(rp, tm, 'task.000001', 'AGENT_EXECUTING', pilot='pilot.0001')]
    def pcb(pilots):
        coop.point('cb')
        tm._pilot_state_cb(pilots)
    p._callbacks[rp.constants.PILOT_STATE]['tmgr'] = {'cb': pcb, 'cb_data': None}
    ctl = coop.Controller()
    errs = []
    try:
        for name, st in (('activate', 'PMGR_ACTIVE'), ('final', final_state)):
            def fn(st=st):
                try: pm._update_pilot({'uid': 'pilot.0000', 'state': st, 'type': 'pilot'})
                except coop.Abort: raise
                except Exception as e: errs.append(type(e).__name__)
            ctl.spawn(name, fn, run_to_first_point=False)
        for c in list(choices):
            if ctl.where(c) != 'done': ctl.grant(c)
        for _ in range(200):
            live = [n for n in ctl.workers if ctl.where(n) != 'done']
            if not live: break
            for n in live: ctl.grant(n)
    finally:
        ctl.close()
    return p.state, [(t.state, str(t.exception_detail)) for t in ts], errs


def activation_race_part(ctx, rp):
    import itertools
    n = 0
    for k in range(0, 7):
        for choices in itertools.product(['activate', 'final'], repeat=k):
            for fs in (['FAILED'] if k > 3 else ['FAILED', 'CANCELED', 'DONE']):
                pst, tasks, errs = run_activation_race(rp, choices, fs)
                n += 1
                ctx.case({'activation_race': list(choices), 'final': fs}, nontrivial='activate' in choices and 'final' in choices)
                bad = None
                if errs: bad = 'an update raised: %s' % errs
                elif tasks[0][0] != 'FAILED' or 'pilot.0000' not in tasks[0][1]:
                    bad = 'pilot.0000 was reported %s while it was being activated; afterwards the pilot object is %s, its task is %s (%s)' % (fs, pst, tasks[0][0], tasks[0][1])
                elif tasks[1][0] != 'AGENT_EXECUTING':
                    bad = 'the task of another pilot is %s' % tasks[1][0]
                if bad:
                    ctx.fail('activation:dead-pilot-keeps-its-tasks', bad + ' (schedule %s)' % list(choices),
                             {'activation_race': {'choices': list(choices), 'final': fs}}, observed=[pst, tasks])
    ctx.obligation('a pilot ends while it is being activated (two threads in the real _update_pilot, the real _pilot_state_cb registered): '
                   'all schedules up to 6 steps (%d runs)' % n, 'tie', True, '')


def run_with_waits(rp, waits, ends):
    """the application waits (briefly) for its pilot to reach some state - Pilot.wait with an explicit state, an ordinary
    API call - and then the pilot goes through its states (real PilotManager._update_pilot, the real task manager callback
    registered on the real Pilot).  Returns the task's state after every update."""
    from props import c14
    pm = c14.make_pmgr(rp)
    p  = c14.make_pilot(rp, pm, 'pilot.0000', 'NEW')
    tm = stubs.make_tmgr(rp)
    t  = stubs.make_task(rp, tm, 'task.000000', 'AGENT_EXECUTING', pilot='pilot.0000')
    p._callbacks[rp.constants.PILOT_STATE]['tmgr'] = {'cb': tm._pilot_state_cb, 'cb_data': None}
    errs, trace = [], []
    for st in waits:
        try: p.wait(state=st, timeout=0.001)
        except Exception as e: errs.append('wait:' + type(e).__name__)
    for st in ends:
        try: pm._update_pilot({'uid': 'pilot.0000', 'state': st, 'type': 'pilot'})
        except Exception as e: errs.append(type(e).__name__)
        trace.append([st, p.state, t.state])
    return trace, errs


def waits_part(ctx, rp):
    n = 0
    for waits in ([], ['PMGR_ACTIVE'], [['PMGR_ACTIVE_PENDING', 'PMGR_ACTIVE']], ['PMGR_LAUNCHING'], ['DONE']):
        for final in ('FAILED', 'CANCELED', 'DONE'):
            trace, errs = run_with_waits(rp, waits, ['PMGR_LAUNCHING', 'PMGR_ACTIVE', final])
            n += 1
            ctx.case({'waits': waits, 'final': final}, nontrivial=bool(waits))
            bad = None
            if errs: bad = 'raised: %s' % errs
            else:
                for st, pst, tst in trace[:-1]:
                    if tst != 'AGENT_EXECUTING':
                        bad = 'the pilot became %s (no end) and its task is %s' % (st, tst); break
                if not bad and (trace[-1][1] != final or trace[-1][2] != 'FAILED'):
                    bad = 'the pilot was reported %s: the pilot object is %s, its task %s' % (final, trace[-1][1], trace[-1][2])
            if bad:
                ctx.fail('waiting-for-a-pilot-state-changes-what-ends-a-pilot', 'after Pilot.wait(%s): %s (trace %s)' % (waits, bad, trace),
                         {'pilot_waits': {'waits': waits, 'final': final}})
    ctx.obligation('Pilot.wait for explicit states before the pilot runs through its states: only its end fails its tasks (%d runs)' % n, 'tie', True, '')


def run_shared_descr(rp, order, reuse):
    """the application submits one task to each of three pilots through the REAL TaskManager.submit_tasks, re-using ONE
    TaskDescription object (uid and pilot are set before each submission - `pilot.submit_tasks(td)` stamps `td.pilot`
    like that) or a fresh one per task; then the pilots end in the given order (real _pilot_state_cb).  Returns the task
    states after each end."""
    tm = stubs.make_tmgr(rp)
    tm._known_uids = set()
    tasks, errs, trace = [], [], []
    td = rp.TaskDescription({'executable': '/bin/true'})
    for k in range(3):
        if not reuse: td = rp.TaskDescription({'executable': '/bin/true'})
        td.uid, td.pilot = 'task.%06d' % k, 'pilot.%04d' % k
        try: tasks.extend(tm.submit_tasks([td]))
        except Exception as e: errs.append('submit:' + type(e).__name__)
    for pid, st in order:
        try: tm._pilot_state_cb(PilotStub(pid, st))
        except Exception as e: errs.append('final:' + type(e).__name__)
        trace.append([t.state for t in tasks])
    return trace, errs


def shared_descr_monitor(order, trace, errs):
    if errs or any(len(x) != 3 for x in trace):
        return 'raised: %s (trace %s)' % (errs, trace)
    ended = set()
    for (pid, st), states in zip(order, trace):
        ended.add(pid)
        for k, s in enumerate(states):
            if k in ended and s != 'FAILED':
                return 'pilot %d ended %s: its task %d is %s (trace %s)' % (pid, st, k, s, trace)
            if k not in ended and s == 'FAILED':
                return 'pilot %d ended %s: task %d of the living pilot %d is FAILED (trace %s)' % (pid, st, k, k, trace)
    return None


def shared_descr_part(ctx, rp):
    import itertools
    n = 0
    for reuse in (False, True):
        for perm in itertools.permutations(range(3)):
            for sts in (('FAILED', 'CANCELED', 'DONE'), ('DONE', 'FAILED', 'CANCELED')):
                order = [[p, s] for p, s in zip(perm, sts)]
                trace, errs = run_shared_descr(rp, order, reuse)
                n += 1
                ctx.case({'shared_descr': [order, reuse]}, nontrivial=reuse)
                bad = shared_descr_monitor(order, trace, errs)
                if bad:
                    ctx.fail('tasks-of-one-description-object-follow-the-wrong-pilot' if reuse else 'early-bound-tasks-follow-the-wrong-pilot', bad,
                             {'shared_descr': {'order': order, 'reuse': reuse}})
    ctx.obligation('tasks bound to three pilots by their descriptions (one description object re-used, or one per task), submitted through the '
                   'real submit_tasks; the pilots end in every order: each end fails its own task and no other (%d runs)' % n, 'tie', True, '')


def contended_part(ctx, rp):
    import itertools
    n = 0
    for k in range(0, 6):
        for choices in itertools.product(['submit', 'final'], repeat=k):
            for fs in (['FAILED'] if k > 3 else ['FAILED', 'DONE', 'CANCELED']):
                states, errs = run_contended(rp, choices, fs)
                n += 1
                ctx.case({'contended': list(choices), 'final': fs}, nontrivial='final' in choices and 'submit' in choices)
                if states[:2] != ['FAILED', 'FAILED'] or states[2] != 'AGENT_EXECUTING' or errs:
                    ctx.fail('contended:dead-pilot-keeps-its-tasks',
                             'pilot.0000 ended %s while a submission held the tasks lock (schedule %s): its tasks are %s, the '
                             'bystander is %s %s' % (fs, list(choices), states[:2], states[2], errs),
                             {'contended': {'choices': list(choices), 'final': fs}}, observed=states)
    ctx.obligation('a pilot ends while a submission holds the tasks lock: all schedules of the two threads up to 5 steps (%d runs)' % n,
                   'tie', True, '')


def added_part(ctx, rp):
    rng = ctx.rng
    n = 0
    for _ in range(ctx.n(60, 1500)):
        k = rng.randint(1, 4)
        ids = list(range(k)); rng.shuffle(ids)
        groups, i = [], 0
        while i < k:
            m = rng.choice([1, 1, 2, 3]); groups.append(ids[i:i + m]); i += m
        order = [(i, rng.choice(['DONE', 'FAILED', 'CANCELED'])) for i in rng.sample(range(k), rng.randint(1, k))]
        # the final state of a pilot may reach the client while the handle is still in an earlier state
        start = {i: rng.choice(EARLY) for i in range(k) if rng.random() < 0.35}
        snaps = run_added(rp, groups, order, start)
        live0 = {i: ('TMGR_STAGING_INPUT_PENDING' if i in start else 'AGENT_EXECUTING') for i in range(k)}
        n += 1
        ctx.case({'added': groups, 'order': order, 'start': start}, nontrivial=any(len(g) > 1 for g in groups) or bool(start))
        dead = set()
        for (i, st), snap in zip(order, snaps):
            dead.add(i)
            for j, (ts, det) in snap.items():
                if j in dead and (ts != 'FAILED' or 'pilot.%04d' % j not in str(det)):
                    ctx.fail('added-pilots:dead-pilot-keeps-its-tasks',
                             'pilots were added as %s; pilot %d (handle in %s) ended %s, its task is %s (%s)'
                             % (groups, j, start.get(j, 'PMGR_ACTIVE'), st, ts, det),
                             {'added': {'groups': groups, 'order': order, 'start': {str(a): b for a, b in start.items()}}})
                    break
                if j not in dead and ts != live0[j]:
                    ctx.fail('added-pilots:bystander-changed', 'task of live pilot %d became %s' % (j, ts),
                             {'added': {'groups': groups, 'order': order, 'start': {str(a): b for a, b in start.items()}}})
                    break
    ctx.obligation('pilots added one by one and in lists (%d cases): the tasks of a pilot that ends are failed, whichever call added it' % n, 'tie', True, '')


def chain_part(ctx, rp):
    rng = ctx.rng
    ops, impl = [], []
    cases = [([], [], [(7, True)]), ([(3, False)], [(4, True)], [(7, False)]), ([(3, True)], [], []),
             ([(3, 'oneshot')], [], []), ([], [(4, 'oneshot')], [(7, 'oneshot'), (8, False)])]
    for _ in range(ctx.n(150, 4000)):
        ids = iter(range(1, 20))
        mk = lambda n: [(next(ids), rng.choice([False, False, False, True, 'oneshot', 'oneshot'])) for _ in range(n)]
        cases.append((mk(rng.choice([0, 0, 1, 2])), mk(rng.choice([0, 1, 2])), mk(rng.choice([0, 1, 2, 3]))))
    for before, after, pm in cases:
        called, tstate = run_chain(rp, before, after, pm)
        # a one-shot callback does not raise: for the chain it is a callback like any other
        op = {'op': 'cbchain', 'pilot': [{'id': i, 'raises': r is True} for i, r in before] + [{'id': 0, 'raises': False}]
                                      + [{'id': i, 'raises': r is True} for i, r in after],
              'pmgr': [{'id': i, 'raises': r is True} for i, r in pm]}
        ops.append(op); impl.append(called)
        ctx.case(op, nontrivial=any(r for _, r in pm + after))
        if not any(r is True for _, r in before) and (0 not in called or tstate != 'FAILED'):
            ctx.fail('callbacks:dead-pilot-keeps-its-tasks',
                     'no callback registered on the pilot before the task manager raises, yet the task manager was %s '
                     'and the task of the dead pilot is %s (callbacks called: %s)' % ('called' if 0 in called else 'not called', tstate, called),
                     {'chain': {'before': before, 'after': after, 'pmgr': pm}}, observed=called)
    common.compare(ctx, 'states', ops, impl, what='real Pilot._update callback chain (pilot-level incl. the task manager, then pilot manager level; raising callbacks)')


def monitor(rp, tasks, calls, out, err):
    FINAL = rp.states.FINAL
    if err:
        return ('exception-in-pilot_state_cb:' + err, 'callback raised ' + err)
    dead = []
    for call in calls:
        for p, s in call:
            if s in FINAL:
                dead.append(p)
    for t, o in zip(tasks, out):
        hit = t['state'] not in FINAL and t['pilot'] is not None and t['pilot'] in dead
        if hit:
            if o['state'] != 'FAILED' or o['detail'] != t['pilot']:
                return ('own-task-not-failed',
                        'task %d of dead pilot %s: state %s, explanation names %s' % (t['uid'], t['pilot'], o['state'],
                         'no pilot (an older error)' if o['detail'] == PRIOR else o['detail']))
        else:
            keep_d = PRIOR if t.get('prior') else None
            if o['state'] != t['state'] or o['detail'] != keep_d or (o['exception'] is not None) != bool(t.get('prior')):
                kind = 'unbound' if t['pilot'] is None else \
                       'final' if t['state'] in FINAL else 'other-pilot'
                return ('bystander-changed:' + kind,
                        'task %d (%s, pilot %s) became %s / %s' % (t['uid'], t['state'], t['pilot'], o['state'], o['exception']))
    return None


CORPUS = [
    # F9 (fixed): every task of the manager was failed, CANCELED became FAILED
    ([{'uid': 0, 'state': 'AGENT_EXECUTING', 'pilot': 0}, {'uid': 1, 'state': 'AGENT_EXECUTING', 'pilot': 1},
      {'uid': 2, 'state': 'TMGR_SCHEDULING', 'pilot': None}, {'uid': 3, 'state': 'CANCELED', 'pilot': 0}],
     [[(0, 'FAILED')]]),
]


def run(ctx):
    rp   = rpload.load()
    chain_part(ctx, rp)
    added_part(ctx, rp)
    contended_part(ctx, rp)
    submit_race_part(ctx, rp)
    activation_race_part(ctx, rp)
    waits_part(ctx, rp)
    shared_descr_part(ctx, rp)
    tsts = [s for s in rp.states._task_state_values if s is not None]
    psts = [s for s in rp.states._pilot_state_values if s is not None]
    cases = list(CORPUS)
    # exhaustive small part: one task in every state x bound/unbound/other, one pilot in every state
    for ts in tsts:
        for bind in (None, 0, 1):
            for ps in psts:
                cases.append(([{'uid': 0, 'state': ts, 'pilot': bind}], [[(0, ps)]]))
    rng = ctx.rng
    for _ in range(ctx.n(1500, 60000)):
        npil = rng.randint(1, 4)
        tasks = []
        for i in range(rng.randint(1, 7)):
            r = rng.random()
            st = rng.choice(tsts) if r < 0.8 else rng.choice(['DONE', 'FAILED', 'CANCELED'])
            tasks.append({'uid': i, 'state': st,
                          'pilot': None if rng.random() < 0.2 else rng.randrange(npil),
                          'service': rng.choice([None, None, None, 'up', 'starting']),
                          'prior': st not in ('DONE', 'FAILED', 'CANCELED') and rng.random() < 0.2})
        calls = []
        for _ in range(rng.randint(1, 3)):
            pids = rng.sample(range(npil), rng.randint(1, npil))
            calls.append([(p, rng.choice(psts) if rng.random() < 0.5
                           else rng.choice(['DONE', 'FAILED', 'CANCELED'])) for p in pids])
        cases.append((tasks, calls))
    ops, impl = [], []
    dist = {'own': 0, 'bystander_other': 0, 'bystander_final': 0, 'unbound': 0}
    for tasks, calls in cases:
        out, pubs, err = run_case(rp, tasks, calls)
        op = {'op': 'pilotcbs', 'tasks': [dict({k: v for k, v in t.items() if k not in ('service', 'prior')},
                                               detail=PRIOR if t.get('prior') else None) for t in tasks],
              'calls': [[list(x) for x in c] for c in calls]}
        ops.append(op)
        impl.append(['err', err] if err else
                    {'tasks': [(o['uid'], o['state'], o['pilot'], o['detail']) for o in out],
                     'pubs': pubs})
        changed = any(o['state'] != t['state'] for o, t in zip(out, tasks))
        ctx.case(op, nontrivial=changed)
        ctx.sample({'tasks': tasks, 'calls': calls, 'after': out}, limit=2)
        bad = monitor(rp, tasks, calls, out, err)
        if bad:
            ctx.fail(bad[0], bad[1], {'tasks': tasks, 'calls': calls}, observed=out)
        # order independence on the real code (single call with >1 pilots)
        if len(calls) == 1 and 1 < len(calls[0]) <= 3:
            for perm in itertools.permutations(calls[0]):
                o2, _, e2 = run_case(rp, tasks, [list(perm)])
                if [(o['state'], o['detail']) for o in o2] != [(o['state'], o['detail']) for o in out]:
                    ctx.fail('order-dependence', 'pilot order %s changes the outcome' % (perm,),
                             {'tasks': tasks, 'calls': [list(perm)]}, observed=o2, expected=out)
        for t in tasks:
            if t['pilot'] is None: dist['unbound'] += 1
    ctx.extra['distribution'] = dist
    common.compare(ctx, 'states', ops, impl, what='TaskManager._pilot_state_cb',
                   canon=lambda r: {'tasks': [tuple(x) if isinstance(x, (list, tuple)) else
                                              (x['uid'], x['state'], x['pilot'], x['detail'])
                                              for x in r['tasks']],
                                    'pubs': list(r['pubs'])} if isinstance(r, dict) else r)
    ctx.rule = ('exhaustive: 1 task in every state x {unbound, own pilot, other pilot} x 1 pilot in every state; '
                'sampled: 1-7 real Task objects over 1-4 pilots, 1-3 callback invocations with pilots ending in any '
                'order; non-trivial = at least one task changed state')
    ctx.assume += ['the callback is serialised by the subscriber thread (one invocation at a time)',
                   'tmgr.advance is recorded, not delivered (publication of the FAILED tasks is an output)']
    ctx.trusted += ['harness/props/c13.py, stubs.make_tmgr (real TaskManager via object.__new__)']


def replay(ctx, data):
    rp = rpload.load()
    inp = data['input']
    if 'added' in inp:
        a = inp['added']
        order = [tuple(x) for x in a['order']]
        start = {int(k): v for k, v in (a.get('start') or {}).items()}
        snaps = run_added(rp, a['groups'], order, start)
        ok, dead = True, set()
        for (i, st), snap in zip(order, snaps):
            dead.add(i)
            print('after pilot', i, st, ':', snap)
            for j, (ts, det) in snap.items():
                if j in dead and (ts != 'FAILED' or 'pilot.%04d' % j not in str(det)): ok = False
                if j not in dead and ts != ('TMGR_STAGING_INPUT_PENDING' if j in start else 'AGENT_EXECUTING'): ok = False
        return ok
    if 'shared_descr' in inp:
        d = inp['shared_descr']
        trace, errs = run_shared_descr(rp, d['order'], d['reuse'])
        bad = shared_descr_monitor(d['order'], trace, errs)
        print(trace, errs, bad)
        return not bad
    if 'pilot_waits' in inp:
        w = inp['pilot_waits']
        trace, errs = run_with_waits(rp, w['waits'], ['PMGR_LAUNCHING', 'PMGR_ACTIVE', w['final']])
        print(trace, errs)
        return not errs and all(x[2] == 'AGENT_EXECUTING' for x in trace[:-1]) and trace[-1][1] == w['final'] and trace[-1][2] == 'FAILED'
    if 'activation_race' in inp:
        pst, tasks, errs = run_activation_race(rp, inp['activation_race']['choices'], inp['activation_race']['final'])
        print(pst, tasks, errs)
        return not errs and tasks[0][0] == 'FAILED' and 'pilot.0000' in tasks[0][1] and tasks[1][0] == 'AGENT_EXECUTING'
    if 'submit_race' in inp:
        events, view, errs = run_submit_race(rp, inp['submit_race']['choices'], inp['submit_race']['final'])
        bad = submit_race_monitor(events, view, errs, inp['submit_race']['final'])
        print(events, view, errs); print(bad)
        return not bad
    if 'contended' in inp:
        states, errs = run_contended(rp, inp['contended']['choices'], inp['contended']['final'])
        print('observed:', states, errs)
        return states[:2] == ['FAILED', 'FAILED'] and states[2] == 'AGENT_EXECUTING' and not errs
    if 'chain' in inp:
        c = inp['chain']
        called, tstate = run_chain(rp, [tuple(x) for x in c['before']], [tuple(x) for x in c['after']], [tuple(x) for x in c['pmgr']])
        print('observed: called', called, 'task', tstate)
        return any(r is True for _, r in c['before']) or (0 in called and tstate == 'FAILED')
    out, pubs, err = run_case(rp, inp['tasks'], [[tuple(x) for x in c] for c in inp['calls']])
    bad = monitor(rp, inp['tasks'], inp['calls'], out, err)
    print('observed:', out, err, bad)
    return not bad
