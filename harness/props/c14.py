"""C14 — Pilot states move forward and end for the right reason.

Tie:  exhaustive: _pilot_state_progress (all state pairs), Pilot._update (all
      pairs); sampled: PilotManager._update_pilot on real Pilot objects with
      recording PILOT_STATE callbacks (pilot-level and manager-level);
      translator: Gen/AgentCause.lean from agent_0.py / bootstrap_0.sh (theorem
      agentCause_tie); exhaustive: all event sequences of length <= 4 on a real
      Agent_0 (control callbacks, lifetime check, finalize -> killme.signal ->
      the final-state block of bootstrap_0.sh executed by bash).
Monitor: callbacks never go backwards, gaps filled, final never left, unknown
      pilots ignored; cause -> state as the property says."""

import os
import re
import itertools
import subprocess
import threading as mt

import common
import rpload
import stubs


def exc_name(e):
    n = type(e).__name__
    return n if n in ('ValueError', 'RuntimeError', 'AssertionError', 'TypeError',
                      'KeyError') else 'other'


class SubStub(object):
    def stop(self): pass


def make_pmgr(rp):
    pm = object.__new__(rp.PilotManager)
    pm._uid         = 'pmgr.verif'
    pm._log         = rpload.NullLog()
    pm._prof        = rpload.NullLog()
    pm._pilots      = dict()
    pm._pilots_lock = mt.RLock()
    pm._pcb_lock    = mt.RLock()
    pm._callbacks   = {m: dict() for m in rp.constants.PMGR_METRICS}
    pm._terminate   = mt.Event()
    pm.advanced     = []
    pm.advance = lambda things, state=None, **kw: pm.advanced.append(state)
    return pm


def make_pilot(rp, pm, pid, state):
    p = object.__new__(rp.Pilot)
    p._uid, p._state, p._log, p._pmgr = pid, state, rpload.NullLog(), pm
    p._sub        = SubStub()
    p._pilot_dict = dict()
    p._cb_lock    = mt.RLock()
    p._callbacks  = {m: dict() for m in rp.constants.PMGR_METRICS}
    pm._pilots[pid] = p
    return p


def run_pilot(rp, cur, seq, unknown_every=0):
    pm  = make_pmgr(rp)
    p   = make_pilot(rp, pm, 'pilot.0000', cur)
    cbs, mcbs = [], []
    p._callbacks[rp.constants.PILOT_STATE]['rec'] = {
        'cb': lambda pilots: cbs.append(pilots[0].state), 'cb_data': None}
    pm._callbacks[rp.constants.PILOT_STATE]['rec'] = {
        'cb': lambda pilot, state: mcbs.append(state), 'cb_data': None}
    errs = []
    for i, t in enumerate(seq):
        if unknown_every and i % unknown_every == 0:
            # notification for a pilot the manager does not know
            try:
                pm._update_pilot({'uid': 'pilot.9999', 'state': t, 'type': 'pilot'})
            except Exception as e:
                errs.append('unknown:' + exc_name(e))
        try:
            pm._update_pilot({'uid': 'pilot.0000', 'state': t, 'type': 'pilot'})
        except Exception as e:
            errs.append(exc_name(e))
    return p.state, cbs, mcbs, errs


class CoopRLock(object):
    """`_pilots_lock` under the cooperative scheduler: taking it is a scheduling point, a thread that finds it
    held parks until it is free; the order in which it is taken is recorded"""
    def __init__(self, order):
        self.owner, self.depth, self.order = None, 0, order
    def __enter__(self):
        import coop
        me = getattr(coop._local, 'worker', None)
        if self.owner is me and me is not None:
            self.depth += 1; return
        coop.point('lock')
        while self.owner is not None:
            coop.point('lock-wait')
        self.owner, self.depth = me, 1
        self.order.append(me.name if me else '?')
    def __exit__(self, *a):
        self.depth -= 1
        if self.depth == 0: self.owner = None


def run_pilot_threads(rp, cur, notifs, choices):
    """the notifications reach PilotManager._update_pilot on one thread each (state subscriber, control subscriber,
    application thread); choices = which thread takes its next step (steps: taking the lock, each application
    callback).  Returns the pilot state, the callbacks and the order in which the threads got the lock"""
    import coop
    pm = make_pmgr(rp)
    order = []
    pm._pilots_lock = CoopRLock(order)
    p = make_pilot(rp, pm, 'pilot.0000', cur)
    cbs, mcbs = [], []
    def pcb(pilots):
        cbs.append(pilots[0].state)
        coop.point('cb')
    p._callbacks[rp.constants.PILOT_STATE]['rec'] = {'cb': pcb, 'cb_data': None}
    pm._callbacks[rp.constants.PILOT_STATE]['rec'] = {'cb': lambda pilot, state: mcbs.append(state), 'cb_data': None}
    ctl = coop.Controller()
    errs = []
    try:
        for i, t in enumerate(notifs):
            def fn(t=t):
                try:
                    pm._update_pilot({'uid': 'pilot.0000', 'state': t, 'type': 'pilot'})
                except coop.Abort:
                    raise
                except Exception as e:
                    errs.append(exc_name(e))
            ctl.spawn('t%d' % i, fn, run_to_first_point=False)
        for c in list(choices):
            if ctl.where(c) != 'done': ctl.grant(c)
        for _ in range(200):
            live = [n for n in ctl.workers if ctl.where(n) != 'done']
            if not live: break
            for n in live: ctl.grant(n)
    finally:
        ctl.close()
    return p.state, cbs, mcbs, errs, order


def monitor_pilot(rp, cur, seq, state, cbs, mcbs, errs):
    vals  = rp.states._pilot_state_values
    FINAL = rp.states.FINAL
    if cbs != mcbs:
        return ('pilot-and-manager-callbacks-differ', '%s vs %s' % (cbs, mcbs))
    if any(e.startswith('unknown:') for e in errs):
        return ('unknown-pilot-not-ignored', str(errs))
    c = cur
    for s in cbs:
        if vals[s] < vals[c]:
            return ('callback-goes-backwards', '%s after %s' % (s, c))
        if c in FINAL and s != c:
            return ('final-state-left', '%s -> %s' % (c, s))
        if s not in ('FAILED', 'CANCELED') and vals[s] > vals[c] + 1:
            return ('gap-not-filled', '%s -> %s' % (c, s))
        c = s
    if state != c:
        return ('state-differs-from-last-callback', '%s vs %s' % (state, c))
    # every forward notification takes effect (gaps are filled in, not rejected)
    exp = cur
    for t in seq:
        if exp not in FINAL and vals[t] > vals[exp]:
            exp = t
    if state != exp:
        return ('forward-notification-lost', 'after %s from %s the pilot is %s, expected %s' % (seq, cur, state, exp))
    if cur in FINAL and state != cur:
        return ('final-state-left', '%s -> %s' % (cur, state))
    return None


# ------------------------------------------------------------------------------
EVENTS = ['lifetime', 'cancel_named', 'cancel_other', 'cancel_empty', 'terminate']


def make_agent(rp, scratch):
    from radical.pilot.agent.agent_0 import Agent_0
    import radical.utils as ru
    a = object.__new__(Agent_0)
    a._uid, a._pid, a._pmgr = 'agent.0', 'pilot.0000', 'pmgr.0000'
    a._log, a._prof = rpload.NullLog(), rpload.NullLog()
    a._final_cause  = None
    a._cfg          = ru.Config(from_dict={'runtime': 1})
    a._starttime    = 0.0
    a._term         = mt.Event()
    a._cancel_lock  = mt.RLock()
    a._cancel_list  = []
    a._rpc_reqs     = {}
    class _S(object):
        def close(self): pass
        _hb = None
    class _RM(object):
        def stop(self): pass
    a._session, a._rm = _S(), _RM()
    a.published, a.advanced = [], []
    a.publish = lambda ch, msg, **kw: a.published.append(msg)
    a.advance = lambda things, state=None, **kw: a.advanced.append(things)
    return a


def api_cancel_msg(rp, which, form):
    """the control message the REAL PilotManager.cancel_pilots / Pilot.cancel publishes, as the agent receives
    it (copied as the wire would).  which: 'named' (the agent's pilot pilot.0000 among those named), 'other'
    (another pilot of the session), 'empty' (a manager that has no pilots).  form 1: the application cancels ONE
    pilot through its handle (Pilot.cancel(), a single uid); the other pilot carries an application-chosen uid
    which merely starts like this agent's pilot uid."""
    import json
    uids = {'named': ['pilot.0000', 'pilot.0007'], 'other': ['pilot.0007'], 'empty': []}[which]
    if form == 1 and which != 'empty':
        uids = ['pilot.0000'] if which == 'named' else ['pilot.00007']
    pm = make_pmgr(rp)
    for u in uids: make_pilot(rp, pm, u, 'PMGR_ACTIVE')
    sent = []
    pm.publish = lambda ch, msg, **kw: sent.append(msg)
    pm.wait_pilots = lambda *a, **k: None
    if which == 'empty':   pm.cancel_pilots()
    elif form == 1:        pm._pilots[uids[0]].cancel()
    else:                  pm.cancel_pilots(list(uids))
    assert len(sent) == 1, sent
    return json.loads(json.dumps(sent[0]))


def run_tmgr_bulk(rp, kind, msgs):
    """the REAL tmgr scheduler (RoundRobin / Backfilling) fed state messages which carry SEVERAL notifications each, also
    several for one pilot (the pilot manager publishes what it collected since the last message); returns the state
    value the scheduler tracks per pilot after every message"""
    from props import c12
    s = c12.make_sched(rp, kind)
    vals = rp.states._pilot_state_values
    out = []
    for m in msgs:
        err = None
        try:
            s._base_state_cb('state', {'cmd': 'update', 'arg': [
                {'type': 'pilot', 'uid': c12.pname(p), 'state': st} for p, st in m]})
        except Exception as e:
            err = type(e).__name__
        out.append({'err': err, 'tracked': {c12.pnum(pid): vals.get(v.get('state'), -1) for pid, v in s._pilots.items()},
                    'names': {c12.pnum(pid): v.get('state') for pid, v in s._pilots.items()}})
    return out


def tmgr_bulk_monitor(rp, msgs, out):
    vals = rp.states._pilot_state_values
    seen = {}
    done = set()           # pilots the scheduler has seen end DONE: that is why they ended, whatever is reported later
    for k, (m, o) in enumerate(zip(msgs, out)):
        for p in done:
            if o['names'].get(p) != 'DONE':
                return ('tmgr-scheduler:final-state-DONE-replaced', 'pilot %d had ended DONE; after message %d %s the scheduler has it as %s'
                        % (p, k, m, o['names'].get(p)))
        # (a different final state reported for a pilot that ended DONE is refused with a ValueError - generated as the
        #  last notification of its message only, see DESIGN.md 7.3)
        refused = bool(m) and m[-1][1] in ('FAILED', 'CANCELED') and \
                  (m[-1][0] in done or any(q == m[-1][0] and st == 'DONE' for q, st in m[:-1]))
        if o['err'] and not (refused and o['err'] == 'ValueError'):
            return ('tmgr-scheduler:state-message-raises', 'message %d %s raised %s' % (k, m, o['err']))
        done |= set(p for p, n in o['names'].items() if n == 'DONE')
        for p, st in m:
            seen[p] = max(seen.get(p, -1), vals[st])
        for p, v in seen.items():
            if o['tracked'].get(p, -1) < v:
                return ('tmgr-scheduler:notified-pilot-state-lost',
                        'after message %d %s the scheduler tracks value %s for pilot %d; value %d was notified'
                        % (k, m, o['tracked'].get(p), p, v))
        if k and any(o['tracked'].get(p, -1) < v for p, v in out[k - 1]['tracked'].items()):
            return ('tmgr-scheduler:pilot-state-moved-backwards', 'message %d %s' % (k, m))
    return None


def gen_tmgr_bulk(rng):
    sts = ['NEW', 'PMGR_LAUNCHING_PENDING', 'PMGR_LAUNCHING', 'PMGR_ACTIVE_PENDING', 'PMGR_ACTIVE', 'PMGR_ACTIVE']
    final = {}
    msgs = []
    for _ in range(rng.randint(1, 5)):
        m = []
        for _ in range(rng.choice([1, 2, 2, 3, 4])):
            p = rng.randrange(3)
            if rng.random() < 0.25:
                # a pilot ends in one final state; it may be notified again, late non-final notifications follow it
                final.setdefault(p, rng.choice(['DONE', 'FAILED', 'CANCELED']))
                m.append([p, final[p]])
            else:
                m.append([p, rng.choice(sts)])
        # a pilot that has ended is reported once more in ANOTHER final state (the launcher's blanket CANCELED when the
        # pilot manager closes, a late job state from the batch system)
        if final and rng.random() < 0.3:
            p = rng.choice(sorted(final))
            other = rng.choice([f for f in ('DONE', 'FAILED', 'CANCELED') if f != final[p]])
            m.append([p, other])
            if final[p] != 'DONE': final[p] = other        # FAILED / CANCELED may be corrected; DONE stays
        msgs.append(m)
    return msgs


def bootstrap_block(src):
    """the final-state block of bootstrap_0.sh (text, executed by bash)"""
    bs = open(os.path.join(src, 'agent', 'bootstrap_0.sh')).read()
    i = bs.rfind('if test -e "./killme.signal"')
    j = bs.find("final_state='FAILED'", i)
    j = bs.find('\nfi', j)
    if i < 0 or j < 0:
        raise RuntimeError('bootstrap_0.sh: final-state block not found')
    # (the agent's exit code as the bootstrapper has it at this point: 143 when it had to end a lingering agent with
    #  SIGTERM after the final state was written, the agent's own code otherwise)
    return 'AGENT_EXITCODE=${RPV_AGENT_EXITCODE:-1}\nfinal_state=\n' + bs[i:j + 3] + '\necho "FINAL=$final_state"\necho "EXIT=$AGENT_EXITCODE"\n'


def collect_block(src):
    """the lines of bootstrap_0.sh that collect the agent process and its exit code once the monitoring loop is over"""
    bs = open(os.path.join(src, 'agent', 'bootstrap_0.sh')).read()
    i = bs.find('# collect process and exit code')
    j = bs.find('\n\n', i)
    if i < 0 or j < 0:
        raise RuntimeError('bootstrap_0.sh: exit code collection not found')
    return bs[i:j]


def run_collect(src, block, how):
    """an agent process that ends with `how` (an exit code, or 'kill': SIGKILL) and no killme.signal: the exit code the
    bootstrapper collects, and the code of the pilot job after its final block"""
    agent = '( kill -9 $BASHPID ) &' if how == 'kill' else '( exit %d ) &' % how
    script = 'cd "$(mktemp -d)"\nprofile_event(){ :; }\n%s\nAGENT_PID=$!\nsleep 0.2\n%s\necho "COLLECTED=$AGENT_EXITCODE"\nRPV_AGENT_EXITCODE=$AGENT_EXITCODE\n%s\n' \
             % (agent, collect_block(src), block)
    out = subprocess.run(['bash', '-c', script], stdout=subprocess.PIPE, stderr=subprocess.STDOUT, text=True).stdout
    m1, m2, m3 = re.search(r'COLLECTED=(\d+)', out), re.search(r'FINAL=(\w*)', out), re.findall(r'EXIT=(\d+)', out)
    return {'collected': int(m1.group(1)) if m1 else None, 'final': m2.group(1) if m2 else None, 'exit': int(m3[-1]) if m3 else None}


def collect_part(ctx):
    block = bootstrap_block(common.SRC)
    for how in (0, 1, 3, 'kill'):
        r = run_collect(common.SRC, block, how)
        want = 137 if how == 'kill' else how
        ctx.case({'agent_ends': how}, nontrivial=how != 0)
        if r['collected'] != want:
            ctx.fail('bootstrapper:agent-exit-code-lost', 'the agent process ended with %s: the bootstrapper collected exit code %s' % (how, r['collected']),
                     {'kind': 'collect', 'how': how}, observed=r)
        elif how != 0 and (r['final'] != 'FAILED' or r['exit'] in (0, None)):
            ctx.fail('bootstrapper:crashed-agent-not-a-failed-job', 'the agent process ended with %s and wrote no final state: final state %s, job exit code %s'
                     % (how, r['final'], r['exit']), {'kind': 'collect', 'how': how}, observed=r)
    ctx.obligation('bootstrap_0.sh, collection of the agent process: the exit code it collects is the agent\'s (0, 1, 3, SIGKILL), a crashed agent '
                   'without a final state is a FAILED job with a non-zero exit code', 'tie', True, '')


FILE_VARIANTS = [None, b'', b'plain ascii output\n', 'gr\u00fc\u00dfe \u2713\n'.encode('utf8'), 'Gr\u00fc\u00dfe vom Launcher\n'.encode('latin-1'),
                 b'\x00\xff\xfe binary \x80\x81 garbage\n']


def run_agent(rp, events, finalize, scratch, block, files=0):
    import time as _time
    d = os.path.join(scratch, 'agent_sbox')
    os.makedirs(d, exist_ok=True)
    for f in os.listdir(d):
        os.unlink(os.path.join(d, f))
    cwd = os.getcwd()
    os.chdir(d)
    try:
        # what the agent's own output, error and log files hold when it ends (finalize() attaches their heads to the
        # final notification): nothing, text, text in another encoding, bytes that are no text at all
        for j, name in enumerate(('agent_0.out', 'agent_0.err', 'agent_0.log')):
            content = FILE_VARIANTS[(files + j * (files % 3)) % len(FILE_VARIANTS)] if files else None
            if content is not None:
                with open(name, 'wb') as fh: fh.write(content)
        a = make_agent(rp, scratch)
        early = {'signal': None, 'done': False}
        if finalize == 'stop':
            # the main thread runs finalize() as soon as stop() has set the termination event, while the
            # thread that called stop() is still inside it (it blocks in session.close())
            def close():
                if not early['done'] and a._term.is_set():
                    early['done'] = True
                    try:
                        a.finalize()
                        early['signal'] = open('killme.signal').read().strip()
                    except Exception as e:
                        early['signal'] = 'finalize-raised:%s' % type(e).__name__
            a._session.close = close
        for i, e in enumerate(events):
            form = (i + len(events)) % 2
            if e == 'lifetime':
                a._check_lifetime()          # time.time() >> _starttime + 60
            elif e in ('cancel_named', 'cancel_other', 'cancel_empty'):
                # the request as the real pilot manager publishes it (a list of uids, or one pilot canceled through
                # its handle; 'empty': PilotManager.cancel_pilots() of a manager without pilots reaches every agent)
                a._control_cb('control_pubsub', api_cancel_msg(rp, e[7:], form))
            elif e == 'terminate':
                a._control_cb('control_pubsub', {'cmd': 'terminate', 'arg': None})
        cause = a._final_cause
        signal = None
        if finalize == 'stop':
            signal = early['signal']
            if signal is not None:
                pushed = [t['state'] for t in a.advanced if isinstance(t, dict)]
                if pushed != [signal]:
                    signal = 'MISMATCH %s vs %s' % (pushed, signal)
            else:
                try: os.unlink('killme.signal')
                except OSError: pass
        elif finalize:
            # (an exception that escapes finalize() is only logged by the component's work loop: the agent ends without
            #  having written its final state)
            if finalize == 'push_fails':
                # the channel is closed under the final notification (Agent_0.stop() closes the session from another thread
                # while the worker runs finalize()): the push raises; what the agent wrote down for the bootstrapper stays
                def closed(*a_, **k_): raise RuntimeError('publisher closed')
                a.advance = closed
            try:
                a.finalize()
                signal = open('killme.signal').read().strip()
            except Exception as e:
                signal = open('killme.signal').read().strip() if os.path.exists('killme.signal') else 'finalize-raised:%s' % type(e).__name__
            pushed = [t['state'] for t in a.advanced if isinstance(t, dict)]
            if pushed != [signal] and finalize != 'push_fails':
                signal = 'MISMATCH %s vs %s' % (pushed, signal)
        script = 'for RPV_AGENT_EXITCODE in 1 0 143; do (\n%s\n); done' % block
        out = subprocess.run(['bash', '-c', script], stdout=subprocess.PIPE, stderr=subprocess.STDOUT, text=True).stdout
        final = re.search(r'FINAL=(\w*)', out).group(1)
        exits = dict(zip((1, 0, 143), [int(x) for x in re.findall(r'EXIT=(\d+)', out)]))
        return {'cause': cause, 'signal': signal, 'final': final, 'exits': exits}
    finally:
        os.chdir(cwd)


def monitor_agent(events, finalize, res):
    """the property's cause clause, on the real agent's observable outcome"""
    final = res['final']
    last = None
    for e in events:
        if e in ('lifetime', 'cancel_named'):
            last = e
    if finalize == 'stop':
        # finalize races with the stopping thread: the first event that stops the agent decides
        first = next((e for e in events if e in ('lifetime', 'cancel_named', 'terminate')), None)
        want = {'lifetime': 'DONE', 'cancel_named': 'CANCELED', 'terminate': 'CANCELED', None: 'FAILED'}[first]
    elif not finalize:
        want = 'FAILED'                       # crash before the state is written
    elif last == 'lifetime':
        want = 'DONE'
    elif last == 'cancel_named':
        want = 'CANCELED'
    elif 'terminate' in events:
        want = 'CANCELED'                     # termination requested by the client
    else:
        want = 'FAILED'
    # the exit code of the pilot job (the launcher derives the job state from it): a pilot that ended for a reason the
    # agent wrote down - it ran its time, it was canceled - is no failed job, whatever code the agent process left (143
    # when the bootstrapper had to end a lingering agent); an agent that died without writing its state keeps its code
    ex = res.get('exits')
    if ex is not None and final == want:
        if final in ('DONE', 'CANCELED') and any(v != 0 for v in ex.values()):
            return ('agent:job-exit-code-contradicts-final-state', 'the pilot ended %s; agent exit codes 1 / 0 / 143 become job exit codes %s'
                    % (final, [ex[1], ex[0], ex[143]]))
        if not finalize and (ex[1] == 0 or ex[143] == 0):
            return ('agent:crashed-agent-exits-0', 'no final state was written; agent exit codes 1 / 143 become %s / %s' % (ex[1], ex[143]))
    if final != want:
        key = 'lifetime-expiry-not-DONE' if want == 'DONE' else \
              'cancel-not-CANCELED' if want == 'CANCELED' else \
              'canceled-by-a-request-naming-other-pilots' if final == 'CANCELED' else 'crash-not-FAILED'
        return (key, 'events %s finalize=%s: final state %s, expected %s' % (events, finalize, final, want))
    return None


def run(ctx):
    rp   = rpload.load()
    rps  = rp.states
    psts = [s for s in rps._pilot_state_values if s is not None]

    # exhaustive: progress + Pilot._update
    ops, impl = [], []
    for c in psts:
        for t in psts:
            ops.append({'op': 'prog', 'kind': 'pilot', 'cur': c, 'tgt': t})
            try:
                r = rps._pilot_state_progress('p', c, t)
                impl.append(['ok', r[0], list(r[1])])
            except Exception as e:
                impl.append(['err', exc_name(e)])
            ctx.case(ops[-1])
    common.compare(ctx, 'states', ops, impl, what='_pilot_state_progress exhaustive')
    ops, impl = [], []
    pm = make_pmgr(rp)
    for c in psts:
        for t in psts:
            p = make_pilot(rp, pm, 'pilot.0000', c)
            ops.append({'op': 'pupdate', 'cur': c, 'tgt': t})
            try:
                p._update({'uid': 'pilot.0000', 'state': t})
                impl.append(['ok', p.state])
            except Exception as e:
                impl.append(['err', exc_name(e)])
            ctx.case(ops[-1])
    common.compare(ctx, 'states', ops, impl, what='Pilot._update exhaustive')

    # notification streams: all of length <= 3 (exhaustive), random longer
    seqs = []
    for c in psts:
        for n in (1, 2, 3) if ctx.tier == 'thorough' else (1, 2):
            for seq in itertools.product(psts, repeat=n):
                seqs.append((c, list(seq)))
    for _ in range(ctx.n(1500, 40000)):
        seqs.append((ctx.rng.choice(psts), [ctx.rng.choice(psts) for _ in range(ctx.rng.randint(3, 9))]))
    ops, impl = [], []
    for i, (c, seq) in enumerate(seqs):
        state, cbs, mcbs, errs = run_pilot(rp, c, seq, unknown_every=(2 if i % 3 == 0 else 0))
        op = {'op': 'runpilot', 'cur': c, 'seq': seq}
        ops.append(op)
        impl.append({'state': state, 'cbs': cbs})
        ctx.case(op, nontrivial=bool(cbs))
        if len(seq) > 3: ctx.sample({'start': c, 'notifications': seq, 'callbacks': cbs, 'end': state}, limit=2)
        bad = monitor_pilot(rp, c, seq, state, cbs, mcbs, errs)
        if bad:
            ctx.fail(bad[0], bad[1], {'kind': 'pilot', 'cur': c, 'seq': seq}, observed=cbs)
    common.compare(ctx, 'states', ops, impl, what='PilotManager._update_pilot streams')

    # ... the same with the notifications arriving on several threads at once: whatever the interleaving, the
    # outcome is that of the notifications handled one after the other in the order the threads got the lock
    ops, impl = [], []
    rng = ctx.rng
    for _ in range(ctx.n(300, 8000)):
        c = rng.choice(psts)
        k = rng.choice([2, 2, 3])
        notifs = [rng.choice(psts) for _ in range(k)]
        choices = ['t%d' % rng.randrange(k) for _ in range(rng.randint(0, 8))]
        state, cbs, mcbs, errs, order = run_pilot_threads(rp, c, notifs, choices)
        seq = [notifs[int(n[1:])] for n in order]
        op = {'op': 'runpilot', 'cur': c, 'seq': seq}
        ops.append(op); impl.append({'state': state, 'cbs': cbs})
        ctx.case({'threads': notifs, 'choices': choices, 'cur': c}, nontrivial=len(set(order)) > 1 and bool(cbs))
        bad = monitor_pilot(rp, c, seq, state, cbs, mcbs, errs)
        if bad:
            ctx.fail('threads:' + bad[0], bad[1], {'kind': 'pilot_threads', 'cur': c, 'notifs': notifs, 'choices': choices}, observed=cbs)
    common.compare(ctx, 'states', ops, impl, what='PilotManager._update_pilot with notifications on concurrent threads (outcome = lock order)')

    collect_part(ctx)
    # agent: all event sequences up to length 4, with and without finalize
    block = bootstrap_block(common.SRC)
    ops, impl = [], []
    nfile = 0
    import time as _time
    for n in range(0, 5):
        for evs in itertools.product(EVENTS, repeat=n):
            for fin in (True, False, 'stop'):
                nfile += 1
                res = run_agent(rp, list(evs), fin, ctx.scratch, block, files=nfile % 7)
                op  = {'op': 'cause', 'events': list(evs), 'finalize': fin}
                ops.append(op)
                impl.append({k: v for k, v in res.items() if k != 'exits'})
                ctx.case(op, nontrivial=n > 0)
                bad = monitor_agent(list(evs), fin, res)
                if bad:
                    ctx.fail(bad[0], bad[1], {'kind': 'agent', 'events': list(evs), 'finalize': fin, 'files': nfile % 7},
                             observed=res)
    # ... and with the final notification failing (the session is closed under it): the cause the agent determined still
    # reaches the bootstrapper
    npf = 0
    for n in range(0, 3):
        for evs in itertools.product(EVENTS, repeat=n):
            res = run_agent(rp, list(evs), 'push_fails', ctx.scratch, block, files=0)
            npf += 1
            ctx.case({'op': 'cause', 'events': list(evs), 'finalize': 'push_fails'}, nontrivial=n > 0)
            bad = monitor_agent(list(evs), 'push_fails', res)
            if bad:
                ctx.fail('final-push-fails:' + bad[0], bad[1], {'kind': 'agent', 'events': list(evs), 'finalize': 'push_fails', 'files': 0}, observed=res)
    ctx.obligation('Agent_0.finalize with the final notification failing (channel closed under it): the final state the bootstrapper '
                   'reports is still the one the cause calls for (%d event sequences)' % npf, 'tie', True, '')
    ctx.sample({'events': ops[-3]['events'], 'finalize': ops[-3]['finalize'], 'observed': impl[-3]}, limit=3)
    common.compare(ctx, 'cause', ops, impl, what='Agent_0 cause -> killme.signal -> bootstrap_0.sh (exhaustive, len<=4)')
    ctx.exhaustive = False
    # -- the task manager scheduler's view of pilot states (tmgr/scheduler/base.py: _update_pilot_states,
    #    add_pilots): whatever the order of state notifications and add_pilots messages (whose pilot dict
    #    may be an older snapshot), the tracked state never moves backwards and never leaves a final state
    from props import c12
    nviol = 0
    for i in range(ctx.n(150, 4000)):
        kind = 'bf' if i % 2 else 'rr'
        script = c12.gen_script(ctx.rng, kind)
        ops2, res2, viol2, s2 = c12.run_script(rp, kind, script)
        ctx.case({'tmgr_sched': kind, 'ops': len(script)}, nontrivial=any(o['op'] == 'pilot_state' for o in script))
        for sig, what in viol2:
            if sig == 'pilot-state-moved-backwards':
                nviol += 1
                ctx.fail('tmgr-scheduler:' + sig, what, {'kind': 'tmgr_sched', 'sched': kind, 'ops': script})
                break
    ctx.obligation('tmgr scheduler: tracked pilot states monitored on the real RoundRobin / Backfilling objects', 'tie', True, '')
    corpus = [[[[0, 'DONE'], [0, 'PMGR_ACTIVE']]], [[[0, 'PMGR_ACTIVE'], [1, 'NEW'], [0, 'PMGR_ACTIVE_PENDING']], [[1, 'PMGR_ACTIVE']]],
              [[[0, 'DONE']], [[1, 'PMGR_ACTIVE'], [0, 'CANCELED']], [[0, 'PMGR_ACTIVE']]], [[[0, 'PMGR_ACTIVE'], [0, 'DONE'], [0, 'FAILED']]]]
    nb = 0
    for i, msgs in enumerate(corpus + [gen_tmgr_bulk(ctx.rng) for _ in range(ctx.n(200, 5000))]):
        kind = 'bf' if i % 2 else 'rr'
        out = run_tmgr_bulk(rp, kind, msgs)
        nb += 1
        ctx.case({'tmgr_bulk': msgs, 'sched': kind}, nontrivial=any(len(set(p for p, _ in m)) < len(m) for m in msgs))
        bad = tmgr_bulk_monitor(rp, msgs, out)
        if bad:
            ctx.fail(bad[0], bad[1], {'kind': 'tmgr_bulk', 'sched': kind, 'msgs': msgs}, observed=out)
    ctx.obligation('tmgr scheduler: %d histories of state messages carrying several notifications each (also several for one pilot): '
                   'no notified state is lost, none moves backwards' % nb, 'tie', True, '')
    ctx.rule = ('exhaustive: all pilot state pairs; all notification streams of length <=2 (quick) / <=3 (thorough) from every '
                'start state; all agent event sequences of length <=4 over {lifetime, cancel naming the pilot, foreign cancel, '
                'terminate} x {finalize runs afterwards, finalize runs in the main thread during the first stop(), agent dies before}; sampled: random streams of length 3-9; '
                'non-trivial = at least one callback / at least one event')
    ctx.assume += ['the batch system killing the job (no finalize at all) is the "agent dies" case',
                   'time.time() is far beyond the 1 minute runtime when the lifetime check runs',
                   'bash executes the final-state block of bootstrap_0.sh']
    ctx.trusted += ['harness/props/c14.py; translator gen_agent_cause (AST of agent_0.py)']


def replay(ctx, data):
    rp  = rpload.load()
    inp = data['input']
    if inp['kind'] == 'collect':
        r = run_collect(common.SRC, bootstrap_block(common.SRC), inp['how'])
        print(r)
        want = 137 if inp['how'] == 'kill' else inp['how']
        return r['collected'] == want and (inp['how'] == 0 or (r['final'] == 'FAILED' and r['exit'] not in (0, None)))
    if inp['kind'] == 'tmgr_bulk':
        out = run_tmgr_bulk(rp, inp['sched'], inp['msgs'])
        bad = tmgr_bulk_monitor(rp, inp['msgs'], out)
        print('observed:', out, bad)
        return not bad
    if inp['kind'] == 'tmgr_sched':
        from props import c12
        _, res, viol, _ = c12.run_script(rp, inp['sched'], inp['ops'])
        bad = [v for v in viol if v[0] == 'pilot-state-moved-backwards']
    elif inp['kind'] == 'pilot_threads':
        state, cbs, mcbs, errs, order = run_pilot_threads(rp, inp['cur'], inp['notifs'], inp['choices'])
        seq = [inp['notifs'][int(n[1:])] for n in order]
        print('lock order', order, 'callbacks', cbs, 'state', state)
        bad = monitor_pilot(rp, inp['cur'], seq, state, cbs, mcbs, errs)
    elif inp['kind'] == 'pilot':
        state, cbs, mcbs, errs = run_pilot(rp, inp['cur'], inp['seq'])
        bad = monitor_pilot(rp, inp['cur'], inp['seq'], state, cbs, mcbs, errs)
    else:
        res = run_agent(rp, inp['events'], inp['finalize'], ctx.scratch, bootstrap_block(common.SRC), files=inp.get('files', 0))
        bad = monitor_agent(inp['events'], inp['finalize'], res)
        print('observed:', res)
    print(bad)
    return not bad
