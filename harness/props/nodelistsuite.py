"""The application-level slot finder (pilot.nodelist): real Node / NodeList objects, built the way
Pilot.nodelist builds them, are driven through sequences of find_slots / release_slots.
Tie: every answer and the final occupation of every node vs Model/NodeList.lean.
Monitor (per property): C01 no core / GPU held beyond 1.0, lfs / mem within the node, DOWN entries
never handed out; C02 shape of every grant; C03 releasing everything restores the initial state and
a failed request changes nothing."""

import copy

import common
import rpload

U = 16


def nname(spec, i):
    """node names: unique, or - as the Fork resource manager names the nodes of a local multi-node pilot - all alike"""
    return 'localhost' if spec.get('localhost') else 'node-%04d' % i


def make_nl(rp, spec):
    from radical.pilot.resource_config import Node, NodeList
    nodes = [{'name': nname(spec, i), 'index': i,
              'cores': [None if c is None else c / float(U) for c in n['cores']],
              'gpus': [None if g is None else g / float(U) for g in n['gpus']],
              'lfs': n['lfs'], 'mem': n['mem']} for i, n in enumerate(spec['nodes'])]
    nl = NodeList(nodes=[Node(n) for n in nodes])
    nl.verify()
    return nl


def make_pilot(rp, spec):
    """the node list as the application gets it: `pilot.nodelist` of a real Pilot that received its resource details
    with the update that made it active"""
    import threading as mt
    pm = object.__new__(rp.PilotManager)
    pm._uid, pm._log = 'pmgr.verif', rpload.NullLog()
    pm._pcb_lock = mt.RLock()
    pm._callbacks = {m: dict() for m in rp.constants.PMGR_METRICS}
    p = object.__new__(rp.Pilot)
    p._uid, p._state, p._log, p._pmgr = 'pilot.0000', 'PMGR_ACTIVE_PENDING', rpload.NullLog(), pm
    p._cb_lock = mt.RLock()
    p._callbacks = {m: dict() for m in rp.constants.PMGR_METRICS}
    p._pilot_dict = {'uid': 'pilot.0000', 'state': 'PMGR_ACTIVE_PENDING'}
    p._nodelist = None
    class _Sub(object):
        def stop(self): pass
    p._sub = _Sub()
    p._spec = spec
    pilot_update(p)
    return p


def pilot_update(p):
    """the agent's PMGR_ACTIVE message (it travels on the state channel and with the pilot_activate command: it may
    reach the pilot object more than once)"""
    spec = p._spec
    nodes = [{'name': nname(spec, i), 'index': i,
              'cores': [None if c is None else c / float(U) for c in n['cores']],
              'gpus': [None if g is None else g / float(U) for g in n['gpus']],
              'lfs': n['lfs'], 'mem': n['mem']} for i, n in enumerate(spec['nodes'])]
    p._update({'uid': 'pilot.0000', 'state': 'PMGR_ACTIVE', 'resources': {'rm_info': {'node_list': nodes, 'numa_domain_map': {}}}})


def occ(v):
    return None if v is None else int(round(v * U))


def slot_canon(s):
    return {'node': s.node_index, 'cores': [[ro.index, occ(ro.occupation)] for ro in s.cores],
            'gpus': [[ro.index, occ(ro.occupation)] for ro in s.gpus], 'lfs': s.lfs, 'mem': s.mem}


def state(nl):
    return [{'cores': [occ(ro.occupation) for ro in n.cores], 'gpus': [occ(ro.occupation) for ro in n.gpus],
             'lfs': n.lfs, 'mem': n.mem} for n in nl.nodes]


def run_real(rp, spec, ops):
    from radical.pilot.resource_config import RankRequirements
    pilot = make_pilot(rp, spec)
    held, answers, trace = {}, [], []
    for o in ops:
        nl = pilot.nodelist
        if o[0] == 'update':
            pilot_update(pilot)
            answers.append('updated')
            nl = pilot.nodelist
            trace.append({'op': o, 'before': None, 'after': state(nl), 'answer': 'updated', 'held': {k: [slot_canon(s) for s in v] for k, v in held.items()}})
            continue
        if o[0] == 'find':
            rr = RankRequirements(n_cores=o[2]['n_cores'], core_occupation=o[2]['core_occ'] / float(U), n_gpus=o[2]['n_gpus'],
                                  gpu_occupation=o[2]['gpu_occ'] / float(U), lfs=o[2]['lfs'], mem=o[2]['mem'])
            before = state(nl)
            try:
                slots = nl.find_slots(rr, n_slots=o[3])
                if slots is None:
                    answers.append(None)
                else:
                    held[o[1]] = slots; answers.append([slot_canon(s) for s in slots])
            except ValueError:
                answers.append('ValueError')
            except Exception as e:
                answers.append('Error')
            trace.append({'op': o, 'before': before, 'after': state(nl), 'answer': answers[-1], 'held': {k: [slot_canon(s) for s in v] for k, v in held.items()}})
            if answers[-1] is None and not held:
                try: trace[-1]['fresh'] = bool(make_pilot(rp, spec).nodelist.find_slots(rr, n_slots=o[3]))
                except Exception: pass
        elif o[0] == 'alloc':
            # a slot of the application's own making, placed with the consistency checks of allocate_slot
            from radical.pilot.resource_config import Slot, RO
            sd = o[3]
            before = state(nl)
            try:
                node = nl.nodes[o[2]]
                slot = Slot(cores=[RO(index=i, occupation=oc / float(U)) for i, oc in sd['cores']],
                            gpus=[RO(index=i, occupation=oc / float(U)) for i, oc in sd['gpus']],
                            lfs=sd['lfs'], mem=sd['mem'], node_index=sd['node'], node_name=nname(spec, sd['node']))
                node.allocate_slot(slot)
                held[o[1]] = [slot]; answers.append('ok')
            except Exception:
                answers.append('Error')
            trace.append({'op': o, 'before': before, 'after': state(nl), 'answer': answers[-1], 'held': {k: [slot_canon(s) for s in v] for k, v in held.items()}})
        else:
            if o[1] in held:
                nl.release_slots(held.pop(o[1])); answers.append('released')
            else:
                answers.append('unknown')
            trace.append({'op': o, 'before': None, 'after': state(nl), 'answer': answers[-1], 'held': {k: [slot_canon(s) for s in v] for k, v in held.items()}})
    nl = pilot.nodelist
    res = {'answers': answers, 'nodes': state(nl), 'index': int(getattr(nl, '__index__', 0))}
    # once nothing is held the pilot is as good as new: a request that was refused earlier and that a fresh pilot grants
    # is granted (probed after the script; what the probe was given is released again)
    if not held:
        probes, done = [], set()
        for o, a in zip(ops, answers):
            if o[0] == 'find' and a is None and len(probes) < 2 and repr(o[2:]) not in done:
                done.add(repr(o[2:]))
                rr = RankRequirements(n_cores=o[2]['n_cores'], core_occupation=o[2]['core_occ'] / float(U), n_gpus=o[2]['n_gpus'],
                                      gpu_occupation=o[2]['gpu_occ'] / float(U), lfs=o[2]['lfs'], mem=o[2]['mem'])
                try:
                    got = pilot.nodelist.find_slots(rr, n_slots=o[3])
                    if got: pilot.nodelist.release_slots(got)
                    fresh = make_pilot(rp, spec).nodelist.find_slots(rr, n_slots=o[3])
                    probes.append({'req': o[2], 'n': o[3], 'got': bool(got), 'fresh': bool(fresh)})
                except Exception:
                    pass
        if probes:
            trace.append({'op': ['probe'], 'before': None, 'after': state(pilot.nodelist), 'answer': probes, 'held': {}})
    return res, trace


def gen(rng):
    nn  = rng.choice([1, 2, 2, 3, 4])
    nc  = rng.choice([2, 4, 4, 8])
    ng  = rng.choice([0, 0, 1, 2, 4, 4])
    lfs = rng.choice([0, 100]); mem = rng.choice([0, 64])
    nodes = []
    # blocked cores / GPUs (system_architecture.blocked_cores / blocked_gpus of the platform: the resource manager marks the
    # same indices DOWN on every node) - in four of ten pilots
    bc = rng.sample(range(nc), rng.choice([1, 1, 2]) if nc > 2 else 1) if rng.random() < 0.4 else []
    bg = rng.sample(range(ng), 1) if ng > 1 and rng.random() < 0.4 else []
    for i in range(nn):
        nodes.append({'cores': [None if c in bc else 0 for c in range(nc)], 'gpus': [None if g in bg else 0 for g in range(ng)], 'lfs': lfs, 'mem': mem})
    spec = {'nodes': nodes, 'cpn': nc, 'gpn': ng, 'lfs_pn': lfs, 'mem_pn': mem, 'localhost': rng.random() < 0.3}
    ops, live, hid = [], [], 0
    for _ in range(rng.randint(3, 14)):
        if live and rng.random() < 0.4:
            h = rng.choice(live); live.remove(h); ops.append(['release', h])
        elif rng.random() < 0.12:
            ops.append(['update'])             # the pilot's ACTIVE update (with its resource details) arrives once more
        elif rng.random() < 0.25:
            # the application supplies a slot itself: distinct core / GPU indices (sometimes out of range), whole or
            # half occupations, on any node - whatever is held there at the moment
            pos = rng.randrange(nn)
            cs = rng.sample(range(nc + (1 if rng.random() < 0.05 else 0)), rng.randint(1, min(2, nc)))
            gs = rng.sample(range(ng), rng.randint(0, min(2, ng))) if ng else []
            sd = {'node': pos if rng.random() < 0.95 else (pos + 1) % max(nn, 2), 'cores': [[c, rng.choice([U, U, 8])] for c in cs],
                  'gpus': [[g, rng.choice([U, U, 8])] for g in gs],
                  'lfs': rng.choice([0, 0, 30]) if lfs else 0, 'mem': rng.choice([0, 0, 16]) if mem else 0}
            ops.append(['alloc', hid, pos, sd]); live.append(hid); hid += 1
        else:
            # (shares in sixteenths, also such that are no multiple of a hundredth: 1/8, 3/8, 5/8)
            rr = {'n_cores': rng.choice([1, 1, 2, nc, rng.randint(1, nc)]), 'core_occ': rng.choice([U, U, U, 8, 4, 2, 6, 10]),
                  # rank shapes with more GPUs than cores, GPUs partly taken by earlier requests
                  'n_gpus': rng.choice([0, 0, 1, ng, max(1, ng - 1), 2 if ng >= 2 else 1]) if ng else 0, 'gpu_occ': rng.choice([U, U, U, 8, 2, 6, 10]),
                  'lfs': rng.choice([0, 0, 30, 60]) if lfs else 0, 'mem': rng.choice([0, 0, 16, 40]) if mem else 0}
            if rng.random() < 0.04: rr['n_cores'] = rng.choice([0, nc + 1])
            n = rng.choice([1, 1, 2, 3, nn, nn * 2, nn * nc])
            ops.append(['find', hid, rr, n]); live.append(hid); hid += 1
    rng.shuffle(live)
    ops += [['release', h] for h in live]
    return spec, ops


def monitor(spec, ops, trace, props):
    bad = []
    init = [{'cores': list(n['cores']), 'gpus': list(n['gpus']), 'lfs': n['lfs'], 'mem': n['mem']} for n in spec['nodes']]
    for t in trace:
        held = t['held']
        # what is held per node / core
        use = [{'cores': {}, 'gpus': {}, 'lfs': 0, 'mem': 0} for _ in spec['nodes']]
        for h, slots in held.items():
            for s in slots:
                u = use[s['node']]
                for i, o in s['cores']: u['cores'][i] = u['cores'].get(i, 0) + o
                for i, o in s['gpus']:  u['gpus'][i] = u['gpus'].get(i, 0) + o
                u['lfs'] += s['lfs']; u['mem'] += s['mem']
        if 'C01' in props:
            for ni, u in enumerate(use):
                for kind in ('cores', 'gpus'):
                    for i, o in u[kind].items():
                        if o > U:
                            bad.append(('C01', 'nodelist:%s-held-beyond-one' % kind[:-1], 'node %d %s %d is held %d/16 by the slots granted and not released' % (ni, kind[:-1], i, o)))
                        if init[ni][kind][i] is None:
                            bad.append(('C01', 'nodelist:blocked-%s-granted' % kind[:-1], 'node %d %s %d is DOWN' % (ni, kind[:-1], i)))
                if u['lfs'] > init[ni]['lfs'] or u['mem'] > init[ni]['mem']:
                    pass
        if 'C03' in props:
            # while a request still holds (a share of) a core or GPU, that share is not offered to another request
            for ni, u in enumerate(use):
                for kind in ('cores', 'gpus'):
                    for i, o in u[kind].items():
                        if o > U and t['op'][0] == 'find':
                            bad.append(('C03', 'nodelist:share-still-held-offered-to-another-request',
                                        'node %d %s %d: the requests that have not released it hold %d/16 of it' % (ni, kind[:-1], i, o)))
        if 'C01' in props:
            for ni, u in enumerate(use):
                if u['lfs'] > init[ni]['lfs'] or u['mem'] > init[ni]['mem']:
                    bad.append(('C01', 'nodelist:lfs-or-mem-oversubscribed', 'node %d holds lfs %d / mem %d of %d / %d' % (ni, u['lfs'], u['mem'], init[ni]['lfs'], init[ni]['mem'])))
        if 'C03' in props and t['op'][0] == 'find' and t['answer'] is None and not t['held'] and t.get('fresh') is True:
            bad.append(('C03', 'nodelist:request-refused-on-a-pilot-that-holds-nothing', 'nothing is held; %d slots of %s are refused, a fresh pilot grants them'
                        % (t['op'][3], t['op'][2])))
        if 'C03' in props and t['op'][0] == 'probe':
            for pr in t['answer']:
                if pr['fresh'] and not pr['got']:
                    bad.append(('C03', 'nodelist:released-capacity-not-usable', 'everything is released; %d slots of %s are refused, a fresh pilot grants them'
                                % (pr['n'], pr['req'])))
        if 'C03' in props:
            # the node map shows exactly what is held
            for ni, u in enumerate(use):
                for kind in ('cores', 'gpus'):
                    for i, v in enumerate(t['after'][ni][kind]):
                        if v is not None and v != u[kind].get(i, 0):
                            bad.append(('C03', 'nodelist:node-map-differs-from-held', 'node %d %s %d shows %s/16, the slots held there sum to %d/16 (after %s)'
                                        % (ni, kind[:-1], i, v, u[kind].get(i, 0), t['op'][0])))
                            break
                if t['after'][ni]['lfs'] != init[ni]['lfs'] - u['lfs'] or t['after'][ni]['mem'] != init[ni]['mem'] - u['mem']:
                    bad.append(('C03', 'nodelist:lfs-mem-differ-from-held', 'node %d' % ni))
        if 'C02' in props and t['op'][0] == 'find' and isinstance(t['answer'], list):
            rr, n = t['op'][2], t['op'][3]
            if len(t['answer']) != n:
                bad.append(('C02', 'nodelist:slot-count-differs', '%d slots for %d requested' % (len(t['answer']), n)))
            for s in t['answer']:
                cores = [i for i, o in s['cores']]
                if len(cores) != rr['n_cores'] or len(set(cores)) != len(cores) or any(o != rr['core_occ'] for i, o in s['cores']) \
                   or len(s['gpus']) != rr['n_gpus'] or len(set(i for i, o in s['gpus'])) != len(s['gpus']) \
                   or any(o != rr['gpu_occ'] for i, o in s['gpus']) or s['lfs'] != rr['lfs'] or s['mem'] != rr['mem'] \
                   or not (0 <= s['node'] < len(spec['nodes'])):
                    bad.append(('C02', 'nodelist:slot-shape-differs', '%s for %s' % (s, rr)))
    return [b for b in bad if b[0] in props]


def run(ctx, prop):
    rp  = rpload.load()
    rng = ctx.rng
    ops_l, impl = [], []
    cases = [copy.deepcopy(c) for c in CORPUS] + [gen(rng) for _ in range(ctx.n(220, 6000))]
    for spec, ops in cases:
        r, trace = run_real(rp, spec, ops)
        ops_l.append({'op': 'nodelist', 'nodes': spec['nodes'], 'cpn': spec['cpn'], 'gpn': spec['gpn'], 'lfs_pn': spec['lfs_pn'],
                      'mem_pn': spec['mem_pn'], 'ops': ops})
        impl.append(r)
        ctx.case(ops_l[-1], nontrivial=any(isinstance(a, list) for a in r['answers']))
        seen = set()
        for p, sig, what in monitor(spec, ops, trace, [prop]):
            if sig in seen: continue
            seen.add(sig)
            ctx.fail(sig, what, {'script': None, 'nodelist': {'spec': spec, 'ops': ops}})
    common.compare(ctx, 'nodelist', ops_l, impl, what='real resource_config.NodeList (find_slots / release_slots sequences): answers, node occupations, cursor')


CORPUS = [
    # nothing is held; three slots are asked for where two fit (refused), then ONE smaller slot: it is granted (the original
    # refusal cache refused everything smaller than a failed request until something was released - on an empty pilot, forever)
    ({'nodes': [{'cores': [0, 0], 'gpus': [], 'lfs': 100, 'mem': 0}, {'cores': [0, 0], 'gpus': [], 'lfs': 100, 'mem': 0}],
      'cpn': 2, 'gpn': 0, 'lfs_pn': 100, 'mem_pn': 0},
     [['find', 0, {'n_cores': 1, 'core_occ': 16, 'n_gpus': 0, 'gpu_occ': 16, 'lfs': 60, 'mem': 0}, 3],
      ['find', 1, {'n_cores': 1, 'core_occ': 16, 'n_gpus': 0, 'gpu_occ': 16, 'lfs': 30, 'mem': 0}, 1],
      ['release', 0], ['release', 1]]),
    # a request that passes the static check but does not fit what is free collects slots on node 0 and fails on node 1
    ({'nodes': [{'cores': [0, 0, 0, 0], 'gpus': [], 'lfs': 0, 'mem': 0}, {'cores': [0, 0, 0, 0], 'gpus': [], 'lfs': 0, 'mem': 0}],
      'cpn': 4, 'gpn': 0, 'lfs_pn': 0, 'mem_pn': 0},
     [['find', 0, {'n_cores': 2, 'core_occ': 16, 'n_gpus': 0, 'gpu_occ': 16, 'lfs': 0, 'mem': 0}, 1],
      ['find', 1, {'n_cores': 2, 'core_occ': 16, 'n_gpus': 0, 'gpu_occ': 16, 'lfs': 0, 'mem': 0}, 4],
      ['release', 0],
      ['find', 2, {'n_cores': 1, 'core_occ': 16, 'n_gpus': 0, 'gpu_occ': 16, 'lfs': 0, 'mem': 0}, 4],
      ['find', 3, {'n_cores': 1, 'core_occ': 16, 'n_gpus': 0, 'gpu_occ': 16, 'lfs': 0, 'mem': 0}, 4],
      ['release', 2], ['release', 3]]),
    # the application supplies a slot of its own that names a GPU another task holds, while the core of the same
    # index is free again; then the pilot's ACTIVE update arrives once more and a further request is made
    ({'nodes': [{'cores': [0, 0, 0, 0], 'gpus': [0, 0], 'lfs': 0, 'mem': 0}], 'cpn': 4, 'gpn': 2, 'lfs_pn': 0, 'mem_pn': 0},
     [['find', 0, {'n_cores': 1, 'core_occ': 16, 'n_gpus': 0, 'gpu_occ': 16, 'lfs': 0, 'mem': 0}, 1],
      ['find', 1, {'n_cores': 1, 'core_occ': 16, 'n_gpus': 1, 'gpu_occ': 16, 'lfs': 0, 'mem': 0}, 1],
      ['release', 0],
      ['alloc', 2, 0, {'node': 0, 'cores': [[0, 16]], 'gpus': [[0, 16]], 'lfs': 0, 'mem': 0}],
      ['alloc', 3, 0, {'node': 0, 'cores': [[0, 16]], 'gpus': [[1, 16]], 'lfs': 0, 'mem': 0}],
      ['update'],
      ['find', 4, {'n_cores': 2, 'core_occ': 16, 'n_gpus': 0, 'gpu_occ': 16, 'lfs': 0, 'mem': 0}, 1],
      ['release', 1], ['release', 3], ['release', 4]]),
]


# -- two application threads on one node -----------------------------------------------------------------------------
def run_conc(rp, node_spec, pre, reqs, schedule):
    """one real Node (its lock replaced by a cooperative one: taking it is the only scheduling point); `pre` requests
    are placed first; then thread k makes the requests reqs[k] with the real Node.find_slot, interleaved as `schedule`
    says (thread indices; a thread that cannot go on is skipped), then everything runs to the end.
    Returns per thread the slots it was given, the final occupation of the node, and the schedule as carried out."""
    import coop
    from radical.pilot.resource_config import Node, RankRequirements
    def mk_rr(r):
        return RankRequirements(n_cores=r['n_cores'], core_occupation=r['core_occ'] / float(U), n_gpus=r['n_gpus'],
                                gpu_occupation=r['gpu_occ'] / float(U), lfs=r['lfs'], mem=r['mem'])
    node = Node({'name': 'node-0000', 'index': 0, 'cores': [None if c is None else c / float(U) for c in node_spec['cores']],
                 'gpus': [None if g is None else g / float(U) for g in node_spec['gpus']], 'lfs': node_spec['lfs'], 'mem': node_spec['mem']})
    pre_slots = [node.find_slot(mk_rr(r)) for r in pre]
    got = [[] for _ in reqs]
    def do(k, r):
        if 'release' in r:
            # give back what the i-th earlier request holds (if it was granted)
            sl = pre_slots[r['release']] if r['release'] < len(pre_slots) else None
            if sl is not None: node.deallocate_slot(sl)
            got[k].append('released' if sl is not None else 'nothing')
        else:
            s = node.find_slot(mk_rr(r)); got[k].append(slot_canon(s) if s else None)
    if isinstance(schedule, tuple):
        # one call after the other, in the order `schedule` names the threads (a merge of the threads' calls)
        nxt = [0] * len(reqs)
        for k in schedule:
            r = reqs[k][nxt[k]]; nxt[k] += 1
            do(k, r)
        return got, state_of(node), None
    lock = coop.CoopRLock()
    node.__lock__ = lock
    ctl = coop.Controller()
    def body(k):
        def fn():
            for r in reqs[k]: do(k, r)
        return fn
    # a change of what is free on the node made WITHOUT the node's lock is a point at which the other thread may run
    # (between the read and the write of `self.lfs += ...`); under the lock there is none
    from radical.pilot.resource_config import RO
    saved = (Node.__setattr__, RO.__setattr__)
    def guarded(orig):
        def setattr_(self, k, v):
            if k in ('lfs', 'mem', 'occupation') and getattr(coop._local, 'worker', None) is not None \
               and lock.owner is not coop._local.worker:
                coop.point('unlocked-write')
            return orig(self, k, v)
        return setattr_
    Node.__setattr__, RO.__setattr__ = guarded(saved[0]), guarded(saved[1])
    done = []
    try:
        for k in range(len(reqs)):
            ctl.spawn('t%d' % k, body(k), run_to_first_point=False)
        def enabled(k):
            w = ctl.workers['t%d' % k]
            if w.done: return False
            return not (w.parked == 'lock-wait' and lock.owner is not None and lock.owner is not w)
        for k in list(schedule) + [0, 1] * 12:
            if k < len(reqs) and enabled(k):
                ctl.grant('t%d' % k); done.append(k)
        errs = [repr(w.error) for w in ctl.workers.values() if w.error is not None]
        fin = all(w.done for w in ctl.workers.values())
    finally:
        ctl.close()
        Node.__setattr__, RO.__setattr__ = saved
    node.__lock__ = None
    return got, state_of(node), {'done': done, 'errors': errs, 'finished': fin}


def state_of(node):
    return {'cores': [occ(ro.occupation) for ro in node.cores], 'gpus': [occ(ro.occupation) for ro in node.gpus], 'lfs': node.lfs, 'mem': node.mem}


def merges(reqs):
    """every order of the calls that keeps each thread's own order"""
    import itertools
    n0, n1 = len(reqs[0]), len(reqs[1])
    out = []
    for pos in itertools.combinations(range(n0 + n1), n0):
        out.append(tuple(0 if i in pos else 1 for i in range(n0 + n1)))
    return out


def seq_outcomes(rp, spec, pre, reqs):
    return [run_conc(rp, spec, pre, reqs, m)[:2] for m in merges(reqs)]


def gen_conc(rng):
    nc, ng = rng.choice([2, 4]), rng.choice([0, 1, 2])
    lfs, mem = rng.choice([0, 100]), rng.choice([0, 64])
    spec = {'cores': [0] * nc, 'gpus': [0] * ng, 'lfs': lfs, 'mem': mem}
    if rng.random() < 0.2: spec['cores'][rng.randrange(nc)] = None
    def rr():
        return {'n_cores': rng.choice([1, 1, 2, nc]), 'core_occ': rng.choice([U, U, 8]), 'n_gpus': rng.choice([0, 1]) if ng else 0,
                'gpu_occ': rng.choice([U, 8, 10]), 'lfs': rng.choice([0, 60]) if lfs else 0, 'mem': rng.choice([0, 40]) if mem else 0}
    pre  = [rr() for _ in range(rng.choice([0, 0, 1, 2]))]
    def op():
        # a request, or the release of what an earlier request holds
        return {'release': rng.randrange(len(pre))} if pre and rng.random() < 0.35 else rr()
    reqs = [[op() for _ in range(rng.choice([1, 1, 2]))] for _ in range(2)]
    # (one slot is released at most once)
    seen = set()
    for rs in reqs:
        for i, r in enumerate(rs):
            if 'release' in r:
                if r['release'] in seen: rs[i] = rr()
                seen.add(r['release'])
    return spec, pre, reqs


def conc_monitor(spec, pre, reqs, got, final, info, seq):
    bad = []
    if info['errors'] or not info['finished']:
        bad.append(('nodelist:concurrent-find-slot-raised-or-hangs', '%s, finished: %s' % (info['errors'], info['finished'])))
        return bad
    for kind in ('cores', 'gpus'):
        for i, v in enumerate(final[kind]):
            if v is not None and v > U:
                bad.append(('nodelist:%s-held-beyond-one:two-threads' % kind[:-1], '%s %d is booked %d/16 after two threads placed requests on the node' % (kind[:-1], i, v)))
    if (final['lfs'] is not None and final['lfs'] < 0) or (final['mem'] is not None and final['mem'] < 0):
        bad.append(('nodelist:lfs-or-mem-oversubscribed:two-threads', 'lfs %s mem %s left' % (final['lfs'], final['mem'])))
    if not any(got == g and final == f for g, f in seq):
        bad.append(('nodelist:concurrent-find-slot-is-no-order-of-the-calls', 'the threads were given %s, the node shows %s; the calls one after the other '
                    '(in any order that keeps each thread\'s own) give %s' % (got, final, [g for g, f in seq])))
    return bad


def run_concurrent(ctx):
    """C01: Node.find_slot from two application threads - every interleaving of the lock acquisitions"""
    import itertools
    rp  = rpload.load()
    rng = ctx.rng
    nsched = 0
    cases = [copy.deepcopy(c) for c in CONC_CORPUS] + [gen_conc(rng) for _ in range(ctx.n(12, 400))]
    for spec, pre, reqs in cases:
        seq = seq_outcomes(rp, spec, pre, reqs)
        seen = set()
        for sched in itertools.product([0, 1], repeat=5):
            got, final, info = run_conc(rp, spec, pre, reqs, list(sched))
            key = tuple(info['done'])
            if key in seen: continue
            seen.add(key); nsched += 1
            ctx.case({'conc': [spec, pre, reqs, info['done']]}, nontrivial=got[0] != [None] and got[1] != [None])
            for sig, what in conc_monitor(spec, pre, reqs, got, final, info, seq):
                ctx.fail(sig, what, {'script': None, 'conc': {'spec': spec, 'pre': pre, 'reqs': reqs, 'schedule': info['done']}})
    ctx.obligation('two application threads on one node: every interleaving of the lock acquisitions of the real Node.find_slot gives what '
                   'the calls give one after the other in some order that keeps each thread\'s own (%d cases, %d distinct schedules)' % (len(cases), nsched), 'tie', nsched > 0, '')
    ctx.assume += ['two threads on one Node (the lock the property relies on is per node); the only scheduling points are the acquisitions of '
                   'the node lock - code between two acquisitions is atomic in the harness; NodeList.find_slots keeps its cursor without a '
                   'lock and is exercised sequentially only']


CONC_CORPUS = [
    # a release (100 of lfs come back) while another thread is granted lfs on the same node
    ({'cores': [0, 0, 0, 0], 'gpus': [], 'lfs': 100, 'mem': 64}, [{'n_cores': 1, 'core_occ': 16, 'n_gpus': 0, 'gpu_occ': 16, 'lfs': 60, 'mem': 40}],
     [[{'release': 0}], [{'n_cores': 1, 'core_occ': 16, 'n_gpus': 0, 'gpu_occ': 16, 'lfs': 30, 'mem': 16}]]),
    ({'cores': [0, 0], 'gpus': [0], 'lfs': 100, 'mem': 64}, [],
     [[{'n_cores': 2, 'core_occ': 16, 'n_gpus': 1, 'gpu_occ': 10, 'lfs': 60, 'mem': 40}],
      [{'n_cores': 2, 'core_occ': 16, 'n_gpus': 1, 'gpu_occ': 10, 'lfs': 60, 'mem': 40}]]),
]


def replay(ctx, data, prop):
    rp = rpload.load()
    if data['input'].get('conc'):
        c = data['input']['conc']
        seq = seq_outcomes(rp, c['spec'], c['pre'], c['reqs'])
        got, final, info = run_conc(rp, c['spec'], c['pre'], c['reqs'], c['schedule'])
        bad = conc_monitor(c['spec'], c['pre'], c['reqs'], got, final, info, seq)
        print(got, final, info); print(bad)
        return not bad
    d = data['input']['nodelist']
    r, trace = run_real(rp, d['spec'], d['ops'])
    bad = monitor(d['spec'], d['ops'], trace, [prop])
    print(r['answers']); print(bad[:5])
    return not bad
