"""C15 — Waiting on tasks and pilots returns when it should.

The real Task.wait / Pilot.wait / TaskManager.wait_tasks /
PilotManager.wait_pilots run under a virtual clock: time.sleep advances a tick
counter and moves the awaited (real) objects along scripted trajectories;
time.time returns the tick; a loop that is still polling `limit` ticks after
everything became stationary is observed as "spin".
Tie: differential against entityWait / waitTasks / waitPilots.
Monitor: return no later than one tick after all awaited entities were in a
requested state (or final), no later than timeout+1, never spinning when an
entity is stuck in a final state, returned states = actual states."""

import time
import itertools

import common
import rpload
import stubs

from props import c14


class Spin(Exception):
    pass


class Clock(object):
    def __init__(self, objs, trajs, limit):
        self.tick, self.objs, self.trajs, self.limit = 0, objs, trajs, limit
        self.apply()
    def at(self, i, k):
        tr = self.trajs[i]
        return tr[k] if k < len(tr) else tr[-1]
    def apply(self):
        for i, o in enumerate(self.objs):
            o._state = self.at(i, self.tick)
    # one tick = 0.125 virtual seconds (exact in binary): the polling sleep of 0.1 s takes one tick, a longer
    # sleep takes as many ticks as it lasts; the entities move along their trajectories tick by tick
    TICK = 0.125
    def sleep(self, dt):
        n = max(1, int(-(-float(dt) // self.TICK)))
        for _ in range(n):
            self.tick += 1
            if self.tick > self.limit:
                raise Spin()
        self.apply()
    def time(self):
        return self.tick * self.TICK


def with_clock(clock, fn):
    rs, rt = time.sleep, time.time
    time.sleep, time.time = clock.sleep, clock.time
    try:
        try:
            r = fn()
            return [clock.tick, r]
        except Spin:
            return 'spin'
    finally:
        time.sleep, time.time = rs, rt


def run_case(rp, op):
    kind  = op['op']
    to    = op['to']
    req   = op['req']
    limit = op['fuel'] - 1
    if kind == 'task_wait':
        tm = stubs.make_tmgr(rp)
        t  = stubs.make_task(rp, tm, 'task.000000')
        ck = Clock([t], [op['traj']], limit)
        return with_clock(ck, lambda: t.wait(state=req, timeout=(to * Clock.TICK) if to else None))
    if kind == 'pilot_wait':
        pm = c14.make_pmgr(rp)
        p  = c14.make_pilot(rp, pm, 'pilot.0000', 'NEW')
        ck = Clock([p], [op['traj']], limit)
        return with_clock(ck, lambda: p.wait(state=req, timeout=(to * Clock.TICK) if to else None))
    if kind == 'wait_tasks':
        tm = stubs.make_tmgr(rp)
        # (`same`: the request names an entity more than once - entry k of the request is entity same[k])
        same = op.get('same') or list(range(len(op['trajs'])))
        ents = sorted(set(same))
        ts = [stubs.make_task(rp, tm, 'task.%06d' % i) for i in ents]
        ck = Clock(ts, [op['trajs'][same.index(i)] for i in ents], limit)
        uids = [ts[ents.index(i)].uid for i in same]
        if op.get('one') and len(uids) == 1:
            # a single uid given as a string: the answer is that task's state, not a list
            r = with_clock(ck, lambda: tm.wait_tasks(uids=uids[0], state=req, timeout=(to * Clock.TICK) if to else None))
            return r if r == 'spin' else [r[0], [r[1]] if not isinstance(r[1], list) else r[1]]
        return with_clock(ck, lambda: tm.wait_tasks(uids=uids, state=req, timeout=(to * Clock.TICK) if to else None))
    if kind == 'wait_pilots':
        pm = c14.make_pmgr(rp)
        pm._rep = rpload.NullLog()
        same = op.get('same') or list(range(len(op['trajs'])))
        ents = sorted(set(same))
        ps = [c14.make_pilot(rp, pm, 'pilot.%04d' % i, 'NEW') for i in ents]
        ck = Clock(ps, [op['trajs'][same.index(i)] for i in ents], limit)
        uids = [ps[ents.index(i)].uid for i in same]
        if op.get('one') and len(uids) == 1:
            r = with_clock(ck, lambda: pm.wait_pilots(uids=uids[0], state=req, timeout=(to * Clock.TICK) if to else None))
            return r if r == 'spin' else [r[0], [r[1]] if not isinstance(r[1], list) else r[1]]
        return with_clock(ck, lambda: pm.wait_pilots(uids=uids, state=req, timeout=(to * Clock.TICK) if to else None))


def monitor(rp, op, res):
    kind  = op['op']
    FINAL = rp.states.FINAL
    to    = op['to']
    req   = op['req']
    single = kind in ('task_wait', 'pilot_wait')
    trajs = [op['traj']] if single else op['trajs']
    vals  = rp.states._task_state_values if 'task' in kind else rp.states._pilot_state_values
    states = FINAL if not req else (req if isinstance(req, list) else [req])
    at = lambda i, k: trajs[i][k] if k < len(trajs[i]) else trajs[i][-1]
    horizon = max(len(t) for t in trajs) + 1
    if kind == 'wait_tasks':
        cv  = min([vals[s] for s in states] + [vals['DONE']])
        sat = lambda s: s in FINAL or vals[s] >= cv
    else:
        sat = lambda s: s in states or s in FINAL
    firsts = []
    for i in range(len(trajs)):
        f = [k for k in range(horizon) if sat(at(i, k))]
        firsts.append(f[0] if f else None)
    jstar = None if any(f is None for f in firsts) else max(firsts)
    tag = kind + ':'
    if res == 'spin':
        if jstar is not None:
            stuck = all(at(i, horizon) in FINAL for i in range(len(trajs)))
            return (tag + ('never-returns-after-final' if stuck else 'never-returns-after-awaited-state'),
                    'no return although all awaited entities were satisfied at tick %d' % jstar)
        if to:
            return (tag + 'timeout-ignored', 'no return with timeout %d' % to)
        return None
    tick, ret = res
    # honest
    actual = [at(i, tick) for i in range(len(trajs))]
    if single:
        if ret != actual[0]:
            return (tag + 'returned-state-not-actual', 'returned %r, actual %r at tick %d' % (ret, actual[0], tick))
    else:
        if list(ret) != actual:
            return (tag + 'returned-state-not-actual', 'returned %r, actual %r at tick %d' % (ret, actual, tick))
    # not late
    bounds = []
    if jstar is not None: bounds.append(jstar + 1)
    if to: bounds.append(to + 1)
    if bounds and tick > min(bounds):
        return (tag + 'returns-late', 'returned at tick %d, due by tick %d' % (tick, min(bounds)))
    # not early without reason
    if not (to and tick >= to):
        if not all(any(sat(at(i, k)) for k in range(tick + 1)) for i in range(len(trajs))):
            return (tag + 'returns-early', 'returned at tick %d before the awaited states were reached' % tick)
    return None


def reachable_traj(rng, sts, FINAL, maxlen):
    """a trajectory the state models can produce: values never decrease, final is sticky"""
    nonfinal = [s for s in sts if s not in FINAL]
    i = rng.randrange(len(nonfinal))
    tr = []
    for _ in range(rng.randint(1, maxlen)):
        if tr and tr[-1] in FINAL:
            tr.append(tr[-1]); continue
        r = rng.random()
        if r < 0.15:
            tr.append(rng.choice(FINAL))
        else:
            i = min(len(nonfinal) - 1, i + rng.choice([0, 0, 1, 1, 2, 3]))
            if i == len(nonfinal) - 1 and rng.random() < 0.5:
                tr.append('DONE')
            else:
                tr.append(nonfinal[i])
    return tr


CORPUS = [
    # F11 (fixed): default Task.wait never returned for a task that was not yet final
    {'op': 'task_wait', 'req': None, 'to': 0, 'traj': ['AGENT_EXECUTING', 'AGENT_EXECUTING', 'DONE']},
    # F12 (fixed): awaited state never reached, entity ends differently -> spun forever
    {'op': 'task_wait', 'req': 'DONE', 'to': 0, 'traj': ['AGENT_EXECUTING', 'FAILED']},
    {'op': 'pilot_wait', 'req': 'PMGR_ACTIVE', 'to': 0, 'traj': ['PMGR_LAUNCHING', 'FAILED']},
    # F12 (fixed): Pilot.wait returned None for an already-final awaited state
    {'op': 'pilot_wait', 'req': 'DONE', 'to': 0, 'traj': ['DONE']},
    {'op': 'pilot_wait', 'req': ['DONE', 'FAILED'], 'to': 3, 'traj': ['FAILED']},
]


def run(ctx):
    rp   = rpload.load()
    FIN  = rp.states.FINAL
    tsts = [s for s in rp.states._task_state_values if s is not None]
    psts = [s for s in rp.states._pilot_state_values if s is not None]
    rng  = ctx.rng
    ops  = [dict(o) for o in CORPUS]

    def reqs(sts):
        r = [None, [], list(FIN)]
        r += [s for s in sts]
        for _ in range(6):
            r.append(rng.sample(sts, rng.randint(2, 3)))
        return r

    # exhaustive small: every single requested pilot state x all trajectories of length <= 3 over
    # the pilot alphabet restricted to forward moves x timeouts
    fw = lambda tr, vals: all(vals[a] <= vals[b] and (a not in FIN or a == b) for a, b in zip(tr, tr[1:]))
    pv = rp.states._pilot_state_values
    for n in (1, 2, 3):
        for tr in itertools.product(psts, repeat=n):
            if not fw(tr, pv): continue
            for req in [None] + psts:
                for to in (0, 2):
                    ops.append({'op': 'pilot_wait', 'req': req, 'to': to, 'traj': list(tr)})
    # sampled
    for _ in range(ctx.n(4000, 60000)):
        kind = rng.choice(['task_wait', 'pilot_wait', 'wait_tasks', 'wait_pilots'])
        sts  = tsts if 'task' in kind else psts
        req  = rng.choice(reqs(sts))
        to   = rng.choice([0, 0, 1, 2, 3, 5, 9])
        if rng.random() < 0.04:
            # a long wait that has to run into its timeout: 11 - 32 virtual seconds (88 - 256 ticks)
            to = rng.choice([88, 100, 121, 200, 256])
        if kind in ('task_wait', 'pilot_wait'):
            ops.append({'op': kind, 'req': req, 'to': to, 'traj': reachable_traj(rng, sts, FIN, 7)})
        else:
            ops.append({'op': kind, 'req': req, 'to': to,
                        'trajs': [reachable_traj(rng, sts, FIN, 7) for _ in range(rng.choice([1, 1, 2, 3, 4]))]})
            if len(ops[-1]['trajs']) == 1 and rng.random() < 0.6:
                ops[-1]['one'] = True
            elif rng.random() < 0.15:
                # the list of uids names an entity twice: one answer per entry, the same for both
                trs = ops[-1]['trajs']
                k = rng.randrange(len(trs))
                ops[-1]['same'] = list(range(len(trs))) + [k]
                ops[-1]['trajs'] = trs + [list(trs[k])]
    impl = []
    dist = {}
    for op in ops:
        trs = [op['traj']] if 'traj' in op else op['trajs']
        op['fuel'] = max(len(t) for t in trs) + op['to'] + 5
        res = run_case(rp, op)
        impl.append(res)
        dist[op['op']] = dist.get(op['op'], 0) + 1
        if res == 'spin': dist['spin'] = dist.get('spin', 0) + 1
        ctx.case(op, nontrivial=(res != 'spin' and res[0] > 0))
        bad = monitor(rp, op, res)
        if bad:
            ctx.fail(bad[0], bad[1], op, observed=res)
    for o, r in list(zip(ops, impl))[-3:]:
        ctx.sample({'op': o, 'returned_[tick,value]': r}, limit=3)
    ctx.extra['distribution'] = dist
    common.compare(ctx, 'wait', ops, impl, what='Task.wait / Pilot.wait / wait_tasks / wait_pilots under a virtual clock',
                   canon=lambda r: r if r == 'spin' else [r[0], list(r[1]) if isinstance(r[1], (list, tuple)) else r[1]])
    ctx.rule = ('exhaustive: Pilot.wait for every request in {default, each pilot state} x every forward trajectory of length <=3 '
                'x timeout in {none, 2 ticks}; sampled: the four wait calls x request forms {None, [], FINAL, each state, '
                'random 2-3 state lists} x reachable trajectories of length <=7 for 1-4 entities x timeouts; '
                'non-trivial = the call returned after at least one poll')
    ctx.assume += ['state changes are observed at polling ticks (one time.sleep(0.1) = one tick); a state entered and left '
                   'between two polls is not seen by the exact-membership loops (Task.wait, Pilot.wait, wait_pilots)',
                   '_terminate is not set during the wait',
                   'trajectories are those the state models (C06/C14) can produce: values never decrease, final is sticky']
    ctx.trusted += ['harness/props/c15.py: virtual clock replaces time.sleep/time.time in the harness process']


def replay(ctx, data):
    rp  = rpload.load()
    op  = data['input']
    res = run_case(rp, op)
    bad = monitor(rp, op, res)
    print('observed [tick, value]:', res, bad)
    return not bad
