"""JSRUN flavour of the agent scheduler (C01): the REAL ContinuousJsrun (object.__new__) with an
injected node list; `_try_allocation` and `unschedule_task` are driven over histories of arrivals
and releases, compared step by step with the Lean model (RPVerif.Model.JsrunSched), and watched by
a monitor that states the property for resource sets: no core or GPU held twice, nothing blocked
handed out, lfs/mem within the node, and the shares of the ranks of a resource set sum to at most
the whole GPUs of that set."""

import copy
import threading as mt
from collections import defaultdict

import rpload
import common
from schedlib import U, occ_of


def make(rp, cfg, nodes):
    from radical.pilot.agent.scheduler.continuous_jsrun import ContinuousJsrun
    s = object.__new__(ContinuousJsrun)
    s._uid, s._log, s._prof = 'agent.scheduling.0', rpload.NullLog(), rpload.NullLog()
    s._log._debug_level = 0
    s.nodes = [{'name': 'node%d' % n['index'], 'index': n['index'],
                'cores': [occ_of(rp, c) for c in n['cores']], 'gpus': [occ_of(rp, g) for g in n['gpus']],
                'lfs': n['lfs'], 'mem': n['mem']} for n in nodes]
    class _Info(object): pass
    info = _Info()
    info.cores_per_node, info.gpus_per_node = cfg['cpn'], cfg['gpn']
    info.lfs_per_node, info.mem_per_node = cfg['lfs'], cfg['mem']
    class _RM(object): pass
    s._rm = _RM(); s._rm.info = info
    s._colo_history, s._tagged_nodes = dict(), set()
    s._scattered, s._node_offset = cfg['scattered'], 0
    s._partition_ids = []
    s._active_cnt = 0
    s.slot_status = lambda *a, **k: None
    return s


def task_of(r):
    td = {'uid': 'task.%06d' % r['uid'], 'ranks': r['ranks'], 'cores_per_rank': r['cpr'],
          'gpus_per_rank': r['gpr'] / float(U), 'lfs_per_rank': r['lfs'], 'mem_per_rank': r['mem'],
          'tags': {}, 'partition': 0}
    if r.get('colo') is not None: td['tags']['colocate'] = r['colo']
    if r.get('excl'):             td['tags']['exclusive'] = True
    return {'uid': r['uid'], 'description': td}


def canon_slots(slots):
    return [[sl['node_index'], [list(c) for c in sl['cores']], list(sl['gpus'][0]) if sl['gpus'] else [],
             sl['lfs'], sl['mem']] for sl in slots]


def snap(rp, s):
    vals = {rp.constants.FREE: 0, rp.constants.BUSY: 1, None: None}
    return [[n['index'], [vals[c] for c in n['cores']], [vals[g] for g in n['gpus']], n['lfs'], n['mem']] for n in s.nodes]


def run_real(rp, case):
    s = make(rp, case['cfg'], case['nodes'])
    held, out = {}, []
    for op in case['ops']:
        if op[0] == 'alloc':
            t = task_of(op[1])
            try:
                ok = s._try_allocation(t)
                if ok:
                    # every rank of a set sees the same GPUs
                    for sl in t['slots']:
                        assert all(g == sl['gpus'][0] for g in sl['gpus']), sl
                    held[op[1]['uid']] = t
                    o = canon_slots(t['slots'])
                else:
                    o = 'wait'
            except Exception as e:
                o = type(e).__name__
        else:
            t = held.pop(op[1], None)
            if t is None:
                o = 'unknown'
            else:
                try:
                    s.unschedule_task(t); s._active_cnt -= 1
                    o = 'released'
                except Exception as e:
                    o = type(e).__name__
        out.append({'out': o, 'nodes': snap(rp, s), 'offset': s._node_offset, 'active': s._active_cnt})
    return out


def monitor(case, out):
    """states C01 for resource sets, from the requests and the granted placements alone"""
    cfg = case['cfg']
    init = {n['index']: n for n in case['nodes']}
    req, held = {}, {}
    for op, o in zip(case['ops'], out):
        if op[0] == 'alloc':
            r = op[1]
            if isinstance(o['out'], list):
                sets = o['out']
                nranks = sum(len(x[1]) for x in sets)
                if nranks != r['ranks']:
                    return ('jsrun:ranks-placed-differ-from-ranks-requested', 'task %d: %d ranks requested, %d placed' % (r['uid'], r['ranks'], nranks))
                for x in sets:
                    n = init.get(x[0])
                    if n is None:
                        return ('jsrun:unknown-node', 'task %d on node %s' % (r['uid'], x[0]))
                    cores = [c for rk in x[1] for c in rk]
                    for rk in x[1]:
                        if len(rk) != max(1, r['cpr']):
                            return ('jsrun:rank-has-wrong-core-count', 'task %d rank cores %s, wanted %d' % (r['uid'], rk, r['cpr']))
                    if len(set(cores)) != len(cores) or len(set(x[2])) != len(x[2]):
                        return ('jsrun:index-twice-in-one-set', 'task %d set %s' % (r['uid'], x))
                    for c in cores:
                        if c >= len(n['cores']) or n['cores'][c] is None:
                            return ('jsrun:blocked-core-granted', 'task %d holds core %d on node %d' % (r['uid'], c, x[0]))
                    for g in x[2]:
                        if g >= len(n['gpus']) or n['gpus'][g] is None:
                            return ('jsrun:blocked-gpu-granted', 'task %d holds GPU %d on node %d' % (r['uid'], g, x[0]))
                    # the ranks of the set share its GPUs: their shares together must fit
                    if len(x[1]) * r['gpr'] > len(x[2]) * U:
                        return ('jsrun:gpu-shares-of-a-resource-set-exceed-its-gpus',
                                'task %d: %d ranks x %d/%d GPU on %d GPU(s) %s of node %d' % (r['uid'], len(x[1]), r['gpr'], U, len(x[2]), x[2], x[0]))
                    if x[3] < len(x[1]) * r['lfs'] or x[4] < len(x[1]) * r['mem']:
                        return ('jsrun:set-holds-less-lfs-or-mem-than-its-ranks-need', 'task %d set %s' % (r['uid'], x))
                held[r['uid']] = sets
                req[r['uid']] = r
        elif o['out'] == 'released':
            held.pop(op[1], None)
        # disjointness and node capacity over everything held now
        usedc, usedg, lfs, mem = {}, {}, defaultdict(int), defaultdict(int)
        for uid, sets in held.items():
            for x in sets:
                for c in [c for rk in x[1] for c in rk]:
                    if (x[0], c) in usedc:
                        return ('jsrun:core-held-twice', 'core %d of node %d held by tasks %d and %d' % (c, x[0], usedc[(x[0], c)], uid))
                    usedc[(x[0], c)] = uid
                for g in x[2]:
                    if (x[0], g) in usedg:
                        return ('jsrun:gpu-held-twice', 'GPU %d of node %d held by tasks %d and %d' % (g, x[0], usedg[(x[0], g)], uid))
                    usedg[(x[0], g)] = uid
                lfs[x[0]] += x[3]; mem[x[0]] += x[4]
        for i, n in init.items():
            if lfs[i] > n['lfs'] or mem[i] > n['mem']:
                return ('jsrun:lfs-or-mem-over-node', 'node %d: lfs %d/%d mem %d/%d' % (i, lfs[i], n['lfs'], mem[i], n['mem']))
    return None


def gen(rng):
    nn = rng.randint(1, 4)
    cpn, gpn = rng.choice([2, 4, 6, 8]), rng.choice([0, 1, 2, 4, 6])
    lfsn, memn = rng.choice([0, 100, 1000]), rng.choice([0, 100, 1000])
    nodes = []
    for i in range(nn):
        cores = [0] * cpn; gpus = [0] * gpn
        if rng.random() < 0.4:
            for c in rng.sample(range(cpn), rng.randint(1, max(1, cpn // 3))): cores[c] = None
        if gpn and rng.random() < 0.4:
            for g in rng.sample(range(gpn), rng.randint(1, max(1, gpn // 3))): gpus[g] = None
        nodes.append({'index': i if rng.random() < 0.8 else i + 10, 'cores': cores, 'gpus': gpus, 'lfs': lfsn, 'mem': memn})
    cfg = {'cpn': cpn, 'gpn': gpn, 'lfs': lfsn, 'mem': memn, 'scattered': rng.random() < 0.5}
    ops, live, uid = [], [], 0
    for _ in range(rng.randint(4, 24)):
        if live and rng.random() < 0.35:
            u = rng.choice(live); live.remove(u); ops.append(['rel', u])
        else:
            k = rng.random()
            if k < 0.55 and gpn:
                gpr = rng.choice([1, 2, 4, 4, 5, 6, 8, 8, 10, 12, 3, 24, 20, 40])
            elif k < 0.8 and gpn:
                gpr = rng.choice([U, U, 2 * U])
            else:
                gpr = 0
            r = {'uid': uid, 'ranks': rng.choice([1, 1, 2, 3, 4, 5, 6, 7, 8, 10]), 'cpr': rng.choice([0, 1, 1, 1, 2, 3]),
                 'gpr': gpr, 'lfs': rng.choice([0, 0, 10, 60]) if lfsn else 0, 'mem': rng.choice([0, 0, 10, 60]) if memn else 0}
            ops.append(['alloc', r]); live.append(uid); uid += 1
    return {'cfg': cfg, 'nodes': nodes, 'ops': ops}


def model_op(case):
    return {'op': 'jsrunsched', 'cfg': case['cfg'], 'nodes': case['nodes'], 'ops': case['ops']}


def canon_model(m):
    return m


CORPUS = [
    # 5 ranks of half a GPU: one resource set of 5 ranks must own 3 GPUs
    {'cfg': {'cpn': 8, 'gpn': 4, 'lfs': 0, 'mem': 0, 'scattered': False},
     'nodes': [{'index': 0, 'cores': [0] * 8, 'gpus': [0, None, 0, 0], 'lfs': 0, 'mem': 0},
               {'index': 1, 'cores': [None] + [0] * 7, 'gpus': [0] * 4, 'lfs': 0, 'mem': 0}],
     'ops': [['alloc', {'uid': 0, 'ranks': 1, 'cpr': 1, 'gpr': 0, 'lfs': 0, 'mem': 0}],
             ['alloc', {'uid': 1, 'ranks': 5, 'cpr': 1, 'gpr': 8, 'lfs': 0, 'mem': 0}],
             ['alloc', {'uid': 2, 'ranks': 3, 'cpr': 1, 'gpr': 6, 'lfs': 0, 'mem': 0}],
             ['rel', 1],
             ['alloc', {'uid': 3, 'ranks': 5, 'cpr': 1, 'gpr': 4, 'lfs': 0, 'mem': 0}]]},
]


def run(ctx, prop):
    rp = rpload.load()
    cases = list(CORPUS) + [gen(ctx.rng) for _ in range(ctx.n(400, 12000))]
    ops, impl = [], []
    kinds = {}
    for c in cases:
        out = run_real(rp, c)
        ops.append(model_op(c)); impl.append(out)
        placed = sum(1 for o in out if isinstance(o['out'], list))
        frac = any(op[0] == 'alloc' and op[1]['gpr'] % U for op in c['ops'])
        for o in out:
            k = 'placed' if isinstance(o['out'], list) else o['out']
            kinds[k] = kinds.get(k, 0) + 1
        ctx.case({'jsrun': ops[-1]}, nontrivial=placed > 1 and frac)
        bad = monitor(c, out)
        if bad:
            ctx.fail(bad[0], bad[1], {'jsrun': c}, observed=[o['out'] for o in out])
    ctx.extra['jsrun_outcomes'] = kinds
    common.compare(ctx, 'jsrunsched', ops, impl,
                   what='real ContinuousJsrun._try_allocation / unschedule_task histories: placements, node map, offset, counter per step')
    ctx.trusted += ['harness/props/jsrunsched.py (real ContinuousJsrun via object.__new__, untagged tasks)']
    ctx.assume += ['JSRUN scheduler: tasks without colocate/exclusive tags and partitions (the tag bookkeeping is covered for Continuous only)']


def replay(ctx, data, prop):
    rp = rpload.load()
    c = data['input']['jsrun']
    out = run_real(rp, c)
    bad = monitor(c, out)
    print([o['out'] for o in out], bad)
    return not bad
