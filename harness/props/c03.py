"""C01-C04 share one suite for the agent scheduler (harness/schedlib.py, props/schedsuite.py);
C01-C03 also cover the application-level slot finder (props/nodelistsuite.py)."""
import rpload
from props import schedsuite, nodelistsuite, noopsuite
PROP = 'C03'
LEAN_TARGETS = ['RPVerif.Props.C03', 'RPVerif.Props.C07']
def run_stubborn_cancel(rp, steps_before_exit):
    """the real Popen.cancel_task on a running task whose process does not end at once when the launcher signals it (it is no
    process group leader, it traps the signal, ranks outlive the launcher): the executor gives the task's resources back
    only when the process is gone.  Returns how many releases were published while the process was still running, and
    in all."""
    import coop
    from props import c07
    rec = []
    p = c07.make_executor(rp, rec, {'fault': False})
    class SlowProc(object):
        pid, code = 4243, None
        def poll(self): return self.code
        def wait(self, timeout=None):
            while self.code is None: coop.point('wait')
            return self.code
    class L(object):
        def cancel_task(self, task, pid): pass          # (the signal is sent; the process goes on for a while)
    class RM(object):
        def get_launcher(self, name): return L()
    p._rm = RM()
    proc = SlowProc()
    task = {'uid': 'task.000000', 'state': 'AGENT_EXECUTING', 'origin': 'client', 'proc': proc, 'launcher_name': 'FORK',
            'description': {'raptor_id': None}, 'slots': []}
    p._tasks['task.000000'] = task
    ctl = coop.Controller()
    early = 0
    try:
        ctl.spawn('cancel', lambda: p.cancel_task(task), run_to_first_point=False)
        for _ in range(steps_before_exit):
            if ctl.where('cancel') != 'done': ctl.grant('cancel')
            early = max(early, sum(1 for r in rec if r[0] == 'unsched'))
        proc.code = -15
        for _ in range(50):
            if ctl.where('cancel') == 'done': break
            ctl.grant('cancel')
    finally:
        ctl.close()
    return early, sum(1 for r in rec if r[0] == 'unsched')


def run_gone_cancel(rp, second_kill_too):
    """the real Popen.cancel_task with the REAL LaunchMethod.cancel_task on a task whose process group cannot be signalled any
    more: the process is no group leader (`new_session_per_task: False`) or was reaped a moment ago - `os.killpg` answers
    "no such process".  The task was taken out of the executor's registry before the launcher is asked: whatever the
    launcher meets, the release has to be published, once."""
    import os, time, coop
    import radical.pilot.agent.launch_method.base as lmb
    from props import c07
    rec = []
    p = c07.make_executor(rp, rec, {'fault': False})
    calls = []
    class OsShim(object):
        def __getattr__(self, k): return getattr(os, k)
        def killpg(self, pid, sig):
            calls.append(sig)
            if len(calls) == 1 or second_kill_too:
                raise ProcessLookupError(3, 'No such process')
    class TimeShim(object):
        def __getattr__(self, k): return getattr(time, k)
        def sleep(self, s): pass
    class GoneProc(object):
        pid, code = 4244, None
        def poll(self): return self.code
        def wait(self, timeout=None):
            self.code = -15
            return self.code
    task = {'uid': 'task.000000', 'state': 'AGENT_EXECUTING', 'origin': 'client', 'proc': GoneProc(), 'launcher_name': 'FORK',
            'description': {'raptor_id': None}, 'slots': []}
    p._tasks['task.000000'] = task
    saved = (lmb.os, lmb.time)
    lmb.os, lmb.time = OsShim(), TimeShim()
    errs = []
    ctl = coop.Controller()
    try:
        def cancel():
            try: p.cancel_task(task)
            except Exception as e: errs.append(type(e).__name__)
        ctl.spawn('cancel', cancel, run_to_first_point=False)
        for _ in range(60):
            if ctl.where('cancel') == 'done': break
            ctl.grant('cancel')
    finally:
        ctl.close()
        lmb.os, lmb.time = saved
    return sum(1 for r in rec if r[0] == 'unsched'), errs, 'task.000000' in p._tasks


def gone_cancel_part(ctx, rp):
    for second in (False, True):
        n, errs, still = run_gone_cancel(rp, second)
        ctx.case({'gone_cancel': second}, nontrivial=True)
        if n != 1 or errs:
            ctx.fail('cancel:resources-not-released-once-when-the-process-group-is-gone',
                     'the launcher\'s signal meets no process group (%s): %d release(s) published, cancel_task raised %s, task still registered: %s'
                     % ('both signals' if second else 'the first signal', n, errs or 'nothing', still), {'script': None, 'gone_cancel': second})
    ctx.obligation('real Popen.cancel_task with the real LaunchMethod.cancel_task when the process group cannot be signalled any more: '
                   'the resources are given back once', 'tie', True, '')


def stubborn_cancel_part(ctx, rp):
    for k in (1, 2, 3, 5):
        early, total = run_stubborn_cancel(rp, k)
        ctx.case({'stubborn_cancel': k}, nontrivial=True)
        if early or total != 1:
            ctx.fail('cancel:resources-released-while-the-process-still-runs' if early else 'cancel:resources-not-released-once',
                     'a cancelled task whose process outlives the launcher\'s signal: %d release(s) published while it was still running, %d in all'
                     % (early, total), {'script': None, 'stubborn_cancel': k})
    ctx.obligation('real Popen.cancel_task on a process that does not end at once: its resources are given back when it is gone, once', 'tie', True, '')


def run(ctx):
    schedsuite.run(ctx, 'C03')
    nodelistsuite.run(ctx, 'C03')
    nodelistsuite.run_concurrent(ctx)
    noopsuite.run(ctx, 'C03')
    stubborn_cancel_part(ctx, rpload.load())
    gone_cancel_part(ctx, rpload.load())
def replay(ctx, data):
    if 'gone_cancel' in data['input']:
        n, errs, still = run_gone_cancel(rpload.load(), data['input']['gone_cancel'])
        print(n, errs, still)
        return n == 1 and not errs
    if 'stubborn_cancel' in data['input']:
        early, total = run_stubborn_cancel(rpload.load(), data['input']['stubborn_cancel'])
        print(early, total)
        return not early and total == 1
    if 'noop' in data['input']:
        return noopsuite.replay(ctx, data)
    if 'nodelist' in data['input'] or 'conc' in data['input']:
        return nodelistsuite.replay(ctx, data, 'C03')
    return schedsuite.replay(ctx, data, 'C03')
