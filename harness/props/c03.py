"""C03-C04 share one suite (see harness/schedlib.py and props/schedsuite.py)."""
from props import schedsuite
PROP = 'C03'
LEAN_TARGETS = ['RPVerif.Props.C03']
def run(ctx): schedsuite.run(ctx, 'C03')
def replay(ctx, data): return schedsuite.replay(ctx, data, 'C03')
