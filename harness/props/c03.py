"""C01-C04 share one suite for the agent scheduler (harness/schedlib.py, props/schedsuite.py);
C01-C03 also cover the application-level slot finder (props/nodelistsuite.py)."""
from props import schedsuite, nodelistsuite, noopsuite
PROP = 'C03'
LEAN_TARGETS = ['RPVerif.Props.C03', 'RPVerif.Props.C07']
def run(ctx):
    schedsuite.run(ctx, 'C03')
    nodelistsuite.run(ctx, 'C03')
    nodelistsuite.run_concurrent(ctx)
    noopsuite.run(ctx, 'C03')
def replay(ctx, data):
    if 'noop' in data['input']:
        return noopsuite.replay(ctx, data)
    if 'nodelist' in data['input'] or 'conc' in data['input']:
        return nodelistsuite.replay(ctx, data, 'C03')
    return schedsuite.replay(ctx, data, 'C03')
