"""C01-C04 share one suite for the agent scheduler (harness/schedlib.py, props/schedsuite.py);
C01-C03 also cover the application-level slot finder (props/nodelistsuite.py)."""
import rpload
from props import schedsuite, nodelistsuite, noopsuite
PROP = 'C03'
LEAN_TARGETS = ['RPVerif.Props.C03', 'RPVerif.Props.C07']
def run_stubborn_cancel(rp, steps_before_exit):
    """the real Popen.cancel_task on a running task whose process does not end at once when the launcher signals it (it is no
    process group leader, it traps the signal, ranks outlive the launcher): the executor gives the task's resources back
    only when the process is gone.  Returns how many releases were published while the process was still running, and
    in all."""
    import coop
    from props import c07
    rec = []
    p = c07.make_executor(rp, rec, {'fault': False})
    class SlowProc(object):
        pid, code = 4243, None
        def poll(self): return self.code
        def wait(self, timeout=None):
            while self.code is None: coop.point('wait')
            return self.code
    class L(object):
        def cancel_task(self, task, pid): pass          # (the signal is sent; the process goes on for a while)
    class RM(object):
        def get_launcher(self, name): return L()
    p._rm = RM()
    proc = SlowProc()
    task = {'uid': 'task.000000', 'state': 'AGENT_EXECUTING', 'origin': 'client', 'proc': proc, 'launcher_name': 'FORK',
            'description': {'raptor_id': None}, 'slots': []}
    p._tasks['task.000000'] = task
    ctl = coop.Controller()
    early = 0
    try:
        ctl.spawn('cancel', lambda: p.cancel_task(task), run_to_first_point=False)
        for _ in range(steps_before_exit):
            if ctl.where('cancel') != 'done': ctl.grant('cancel')
            early = max(early, sum(1 for r in rec if r[0] == 'unsched'))
        proc.code = -15
        for _ in range(50):
            if ctl.where('cancel') == 'done': break
            ctl.grant('cancel')
    finally:
        ctl.close()
    return early, sum(1 for r in rec if r[0] == 'unsched')


def stubborn_cancel_part(ctx, rp):
    for k in (1, 2, 3, 5):
        early, total = run_stubborn_cancel(rp, k)
        ctx.case({'stubborn_cancel': k}, nontrivial=True)
        if early or total != 1:
            ctx.fail('cancel:resources-released-while-the-process-still-runs' if early else 'cancel:resources-not-released-once',
                     'a cancelled task whose process outlives the launcher\'s signal: %d release(s) published while it was still running, %d in all'
                     % (early, total), {'script': None, 'stubborn_cancel': k})
    ctx.obligation('real Popen.cancel_task on a process that does not end at once: its resources are given back when it is gone, once', 'tie', True, '')


def run(ctx):
    schedsuite.run(ctx, 'C03')
    nodelistsuite.run(ctx, 'C03')
    nodelistsuite.run_concurrent(ctx)
    noopsuite.run(ctx, 'C03')
    stubborn_cancel_part(ctx, rpload.load())
def replay(ctx, data):
    if 'stubborn_cancel' in data['input']:
        early, total = run_stubborn_cancel(rpload.load(), data['input']['stubborn_cancel'])
        print(early, total)
        return not early and total == 1
    if 'noop' in data['input']:
        return noopsuite.replay(ctx, data)
    if 'nodelist' in data['input'] or 'conc' in data['input']:
        return nodelistsuite.replay(ctx, data, 'C03')
    return schedsuite.replay(ctx, data, 'C03')
