"""The executor's timeout watcher (C05, C07): the REAL AgentExecutingComponent.handle_timeout,
control_cb('task_startup_done') and _to_watcher on a Popen object (object.__new__), with a virtual
clock (the `time` module seen by agent/executing/base.py is replaced while the suite runs) and the
watcher loop running in its own thread that is released for exactly one pass at a time.

Monitor (states C05's clause 'CANCELED only if a timeout was requested' from the task descriptions
and the history alone): a task is cancelled by the watcher only if a deadline it asked for has passed -
its startup timeout while no startup was reported, its execution timeout counted from the reported
startup (or from the launch when no startup timeout was given); a task that asked for no timeout, or
whose startup was reported in time and that has no execution timeout, is never cancelled."""

import threading as mt

import rpload


class Clock(object):
    def __init__(self): self.now = 1.0
    def time(self): return self.now
    def sleep(self, s): pass


class PassGate(object):
    """stands in for `self._term`: every `is_set()` of the watcher loop ends one pass and waits for the next"""
    def __init__(self):
        self.go, self.idle = mt.Semaphore(0), mt.Semaphore(0)
        self.stop = False
    def is_set(self):
        self.idle.release()
        self.go.acquire()
        return self.stop


def run_real(rp, events, descr):
    """events: [t, 'reg', uid] | [t, 'done', uid] | [t, 'pass'];  descr: uid -> (startup_timeout, timeout)"""
    import radical.pilot.agent.executing.base as base
    from radical.pilot.agent.executing.popen import Popen
    clock = Clock()
    orig_time = base.time
    base.time = clock
    try:
        p = object.__new__(Popen)
        p._log, p._prof = rpload.NullLog(), rpload.NullLog()
        class HookLock(object):
            """`_to_lock`; when the watcher thread leaves its critical section a registration that was waiting for the
            lock on another thread gets it at once (`at_release` is that registration)"""
            def __init__(self): self.lock, self.at_release, self.watcher = mt.Lock(), None, None
            def __enter__(self): self.lock.acquire(); return self
            def __exit__(self, *a):
                self.lock.release()
                if self.at_release and mt.current_thread() is self.watcher:
                    fn, self.at_release = self.at_release, None
                    fn()
        p._to_tasks, p._to_lock = [], HookLock()
        gate = PassGate()
        p._term = gate
        tasks = {u: {'uid': 'task.%06d' % u, 'description': {'startup_timeout': float(d[0]), 'timeout': float(d[1])}}
                 for u, d in descr.items()}
        alive = set(descr)
        canceled = []
        p.get_task = lambda tid: next((t for u, t in tasks.items() if t['uid'] == tid and u in alive), None)
        def cancel_task(task):
            u = int(task['uid'].split('.')[1])
            canceled.append(u)
            alive.discard(u)            # Popen.cancel_task takes the task out of the executor's _tasks
        p.cancel_task = cancel_task
        th = mt.Thread(target=p._to_watcher, daemon=True)
        p._to_lock.watcher = th
        th.start()
        gate.idle.acquire()                 # the loop is at its first check
        out = []
        for ev in events:
            clock.now = float(ev[0])
            if ev[1] == 'reg':
                p.handle_timeout(tasks[ev[2]]); out.append([])
            elif ev[1] == 'done':
                p.control_cb('control', {'cmd': 'task_startup_done', 'arg': {'uid': tasks[ev[2]]['uid']}}); out.append([])
            else:
                del canceled[:]
                if ev[1] == 'pass_reg':
                    # the task is launched while the watcher takes in what was handed to it: handle_timeout gets the
                    # lock the moment the watcher releases it
                    p._to_lock.at_release = lambda u=ev[2]: p.handle_timeout(tasks[u])
                gate.go.release()           # one pass
                gate.idle.acquire()
                out.append(list(canceled))
                if ev[1] == 'pass_reg': out.append([])
        gate.stop = True
        gate.go.release()
        th.join(5)
        return out
    finally:
        base.time = orig_time


def gen(rng):
    n = rng.randint(1, 4)
    descr = {u: (rng.choice([0, 0, 3, 5]), rng.choice([0, 0, 4, 8])) for u in range(n)}
    t, events, regd, doned = 1, [], set(), {}
    for _ in range(rng.randint(3, 14)):
        t += rng.choice([0, 1, 1, 2, 3, 6])
        r = rng.random()
        cand = [u for u in range(n) if u not in regd]
        if r < 0.3 and cand:
            u = rng.choice(cand); regd.add(u)
            events.append([t, 'pass_reg', u] if rng.random() < 0.4 else [t, 'reg', u])
        elif r < 0.5 and regd:
            # a task reports its startup once it runs (after it was launched, i.e. after handle_timeout); repeated
            # reports are possible (several ranks)
            u = rng.choice(sorted(regd)); events.append([t, 'done', u])
        else:
            events.append([t, 'pass'])
    events.append([t + 1, 'pass']); events.append([t + 20, 'pass'])
    return {'descr': {str(u): list(d) for u, d in descr.items()}, 'events': events}


def model_op(case):
    evs = []
    for ev in case['events']:
        if ev[1] == 'pass_reg':
            # for the model: a pass, then the registration (it is what the next pass takes in)
            d = case['descr'][str(ev[2])]; evs.append([ev[0], 'pass']); evs.append([ev[0], 'reg', ev[2], d[0], d[1]])
        elif ev[1] == 'reg':
            d = case['descr'][str(ev[2])]; evs.append([ev[0], 'reg', ev[2], d[0], d[1]])
        elif ev[1] == 'done':
            d = case['descr'][str(ev[2])]; evs.append([ev[0], 'done', ev[2], d[1]])
        else:
            evs.append([ev[0], 'pass'])
    return {'op': 'timeout', 'events': evs}


def expand(events):
    """a registration that gets the lock when the watcher releases it is, for what follows, a pass and then a registration"""
    out = []
    for ev in events:
        if ev[1] == 'pass_reg': out += [[ev[0], 'pass'], [ev[0], 'reg', ev[2]]]
        else: out.append(ev)
    return out


def monitor(case, out):
    descr = {int(u): d for u, d in case['descr'].items()}
    deadline = {}          # uid -> active deadline (None: no deadline)
    gone = set()
    for ev, o in zip(expand(case['events']), out):
        t = ev[0]
        if ev[1] == 'reg':
            st, et = descr[ev[2]]
            deadline[ev[2]] = t + st if st else (t + et if et else None)
        elif ev[1] == 'done':
            if ev[2] in gone: continue
            st, et = descr[ev[2]]
            deadline[ev[2]] = t + et if et else None
        else:
            for u in o:
                d = deadline.get(u)
                if u in gone:
                    return ('timeout-watcher:task-cancelled-twice', 'task %d cancelled again at t=%d' % (u, t))
                if d is None or not t > d:
                    st, et = descr[u]
                    return ('timeout-watcher:cancelled-without-an-expired-timeout',
                            'task %d (startup_timeout %s, timeout %s) cancelled at t=%d; its deadline then: %s'
                            % (u, st, et, t, d))
                gone.add(u)
            # a run-time limit that has passed is enforced at this pass
            late = [u for u, d in deadline.items() if d is not None and t > d and u not in gone]
            if late:
                return ('timeout-watcher:expired-timeout-not-enforced',
                        'pass at t=%d: tasks %s are past their deadlines %s and were not cancelled' % (t, late, [deadline[u] for u in late]))
    return None


def run(ctx, prop):
    import common
    rp = rpload.load()
    corpus = [{'descr': {'0': [3, 0]}, 'events': [[1, 'reg', 0], [2, 'done', 0], [9, 'pass'], [50, 'pass']]},
              {'descr': {'0': [3, 0], '1': [0, 0]}, 'events': [[1, 'reg', 0], [1, 'reg', 1], [2, 'done', 1], [5, 'pass'], [9, 'pass']]}]
    cases = corpus + [gen(ctx.rng) for _ in range(ctx.n(300, 8000))]
    ops, impl = [], []
    ncancel = 0
    for c in cases:
        out = run_real(rp, c['events'], {int(u): d for u, d in c['descr'].items()})
        ops.append(model_op(c)); impl.append(out)
        ncancel += sum(len(o) for o in out)
        ctx.case({'timeout_watcher': c}, nontrivial=any(e[1] == 'done' for e in c['events']) and any(out))
        bad = monitor(c, out)
        if bad:
            ctx.fail(bad[0], bad[1], {'timeout_watcher': c}, observed=out)
    ctx.extra['watcher_cancellations'] = ncancel
    common.compare(ctx, 'timeout', ops, impl, canon=lambda r: r['cancels'] if isinstance(r, dict) else r,
                   what='real handle_timeout / task_startup_done / _to_watcher passes on a virtual clock: cancel_task calls per pass')
    ctx.trusted += ['harness/props/timeoutsuite.py (virtual clock in agent/executing/base.py, one watcher pass at a time)']
    ctx.assume += ['a task reports its startup only after handle_timeout registered it (the process is spawned first); '
                   'cancel_task takes the task out of the executor (get_task then finds nothing)']


def replay(ctx, data, prop):
    rp = rpload.load()
    c = data['input']['timeout_watcher']
    out = run_real(rp, c['events'], {int(u): d for u, d in c['descr'].items()})
    bad = monitor(c, out)
    print(out, bad)
    return not bad
