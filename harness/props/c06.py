"""C06 — Applications observe the linear task state model.

Tie:  exhaustive for _task_state_progress (all ordered pairs of states),
      Task._update (all current x target x reconnect), _task_state_collapse
      (all sublists up to length 3 over the table + random longer ones);
      sampled for TaskManager._update_tasks with real Task objects and a
      recording TASK_STATE callback.
Monitor (on the REAL code's observations, independent of the model): callbacks
      per task form a chain of single steps / FAILED / CANCELED, no callback
      after a final state, final state unchanged, and removing one dict from a
      batch does not change what the other tasks see.
"""

import copy
import itertools

import common
import rpload
import stubs


def states_of(rp):
    vals = rp.states._task_state_values
    return [s for s in vals if s is not None]


def exc_name(e):
    n = type(e).__name__
    return n if n in ('ValueError', 'RuntimeError', 'AssertionError', 'TypeError',
                      'KeyError') else 'other'


# ------------------------------------------------------------------------------
def app_callbacks(rp, tm, extra, seen):
    """application callbacks that use the registry while a notification is being delivered (legal: the
    registry lock is re-entrant): a one-shot callback takes itself out once it saw what it waited for, a
    callback registers a follow-up callback.  extra: [{'kind': 'oneshot'|'adder', 'uid': None|i, 'on': state|'final'}]"""
    FINAL = rp.states.FINAL
    keep = []
    for i, x in enumerate(extra or []):
        uid = None if x.get('uid') is None else 'task.%06d' % x['uid']
        if uid is not None and uid not in tm._tasks: continue
        hit = lambda state, x=x: state in FINAL if x['on'] == 'final' else state == x['on']
        def cb(task, state, x=x, i=i, uid=uid, hit=hit):
            seen.append([i, int(task.uid.split('.')[1]), state])
            if not hit(state) or x.get('spent'): return
            x['spent'] = True
            if x['kind'] == 'raiser':
                # a fault in one application callback: it is logged, the callbacks behind it are still told
                raise KeyError('application callback failed')
            if x['kind'] == 'oneshot':
                tm.unregister_callback(cb=keep[x['slot']], uid=uid)
            else:
                follow = lambda task, state: seen.append([100 + i, int(task.uid.split('.')[1]), state])
                keep.append(follow)
                tm.register_callback(follow, uid=uid)
        x['slot'] = len(keep); x['spent'] = False
        keep.append(cb)
        tm.register_callback(cb, uid=uid)
    return keep


def run_history(rp, tasks, batches, extra=None, pilot_dies=None, waits=None):
    """real TaskManager._update_tasks on real Task objects; with `pilot_dies` (a final pilot state) all tasks are bound
    to one pilot which ends in that state after the last batch (real TaskManager._pilot_state_cb)"""
    tm  = stubs.make_tmgr(rp)
    if not hasattr(tm, '_terminate'):
        import threading
        tm._terminate = threading.Event()
    cbs = []
    for t in tasks:
        stubs.make_task(rp, tm, 'task.%06d' % t['uid'], t['state'], pilot='pilot.0000' if pilot_dies else None)
    tm._callbacks[rp.constants.TASK_STATE]['*'] = {
        'rec': {'cb': lambda task, state: cbs.append([int(task.uid.split('.')[1]), state]),
                'cb_data': None}}
    seen = []
    keep = app_callbacks(rp, tm, copy.deepcopy(extra), seen)
    # a second recording callback, registered after the application's callbacks (it is called behind them)
    late, late_own = [], {}
    if extra is not None:
        tm.register_callback(lambda task, state: late.append([int(task.uid.split('.')[1]), state]))
        # ... and one per task, registered for that task only (Task.register_callback): told every state of its task, up
        # to and including the final one
        for t in tasks:
            late_own[t['uid']] = []
            tm.register_callback((lambda task, state, u=t['uid']: late_own[u].append(state)), uid='task.%06d' % t['uid'])
    errs = []
    for bi, b in enumerate(batches):
        # `waits`: before batch bi the application waits (briefly) for a task to reach a state - Task.wait with a
        # non-final state is an ordinary API call and changes nothing about how notifications are handled
        for at, uid, st in (waits or []):
            if at == bi:
                try: tm._tasks['task.%06d' % uid].wait(state=st, timeout=0.001)
                except Exception as e: errs.append('wait:' + exc_name(e))
        dicts = [{'uid': 'task.%06d' % u['uid'], 'state': u['state'], 'type': 'task'}
                 for u in b]
        try:
            # (the way a notification batch enters the task manager: the subscriber callback of the state channel)
            if tm._state_sub_cb('state', {'cmd': 'update', 'arg': dicts}) is not True:
                errs.append('subscriber-callback-asks-to-be-unregistered')
        except Exception as e:
            errs.append(exc_name(e))
    out_tasks = [{'uid': t['uid'], 'state': tm._tasks['task.%06d' % t['uid']].state,
                  'pilot': None, 'detail': None} for t in tasks]
    if pilot_dies:
        from props import c13
        try:
            tm._pilot_state_cb(c13.PilotStub(0, pilot_dies))
        except Exception as e:
            errs.append(exc_name(e))
        after = [tm._tasks['task.%06d' % t['uid']].state for t in tasks]
        return {'tasks': out_tasks, 'cbs': cbs, 'after_pilot_end': after}, errs
    if extra is not None and late != cbs:
        return {'tasks': out_tasks, 'cbs': cbs, 'callback_registered_last_saw': late}, errs
    if extra is not None:
        for u, own in late_own.items():
            if own != [s_ for uu, s_ in cbs if uu == u]:
                return {'tasks': out_tasks, 'cbs': cbs, 'callback_of_task_%d_saw' % u: own}, errs
    return {'tasks': out_tasks, 'cbs': cbs}, errs


def monitor(rp, tasks, batches, res, errs):
    """C06 on the implementation's observations; returns (signature, what) or None"""
    vals  = rp.states._task_state_values
    FINAL = rp.states.FINAL
    if errs:
        return ('exception-escapes-update_tasks:%s' % errs[0],
                'an exception (%s) escaped _update_tasks; rest of the batch lost' % errs[0])
    cur = {t['uid']: t['state'] for t in tasks}
    for uid, s in res['cbs']:
        c = cur[uid]
        if c in FINAL:
            return ('callback-after-final', 'task %d: callback %s after final %s' % (uid, s, c))
        if s not in ('FAILED', 'CANCELED') and vals[s] != vals[c] + 1:
            return ('non-consecutive-callback', 'task %d: %s -> %s' % (uid, c, s))
        cur[uid] = s
    for t in res['tasks']:
        if cur[t['uid']] != t['state']:
            return ('state-differs-from-last-callback',
                    'task %d: state %s, last callback %s' % (t['uid'], t['state'], cur[t['uid']]))
    for t0 in tasks:
        if t0['state'] in FINAL:
            t1 = [x for x in res['tasks'] if x['uid'] == t0['uid']][0]
            if t1['state'] != t0['state']:
                return ('final-state-left', 'task %d: %s -> %s' % (t0['uid'], t0['state'], t1['state']))
    # no notification is ignored: a task is as far as the most advanced notification that named it, and final once a
    # final state was reported for it - wherever in its batch that notification stood
    for t0 in tasks:
        top, fin = vals[t0['state']] if t0['state'] not in FINAL else None, t0['state'] in FINAL
        for b in batches:
            for u in b:
                if u['uid'] != t0['uid'] or fin: continue
                if u['state'] in FINAL: fin = True
                else: top = max(top, vals[u['state']])
        t1 = [x for x in res['tasks'] if x['uid'] == t0['uid']][0]
        if fin and t1['state'] not in FINAL:
            return ('reported-final-state-not-observed', 'task %d was reported final, the application sees %s' % (t0['uid'], t1['state']))
        if not fin and (t1['state'] in FINAL or vals[t1['state']] != top):
            return ('most-advanced-notification-not-observed', 'task %d: notifications reach state value %s, the application sees %s'
                    % (t0['uid'], top, t1['state']))
    return None


def gen_history(rng, sts):
    ntasks = rng.randint(1, 5)
    tasks  = []
    for i in range(ntasks):
        r = rng.random()
        if   r < 0.5: st = 'NEW'
        elif r < 0.8: st = rng.choice(sts)
        else        : st = rng.choice(['DONE', 'FAILED', 'CANCELED'])
        tasks.append({'uid': i, 'state': st})
    batches = []
    for _ in range(rng.randint(1, 4)):
        b = []
        for _ in range(rng.randint(1, 8)):
            uid = rng.randint(0, ntasks) if rng.random() < 0.9 else 99   # unknown uid sometimes
            r = rng.random()
            if   r < 0.6: st = rng.choice(sts)
            elif r < 0.9: st = rng.choice(['DONE', 'FAILED', 'CANCELED'])
            else        : st = b[-1]['state'] if b else 'NEW'            # duplicate
            b.append({'uid': uid, 'state': st})
        batches.append(b)
    return tasks, batches


CORPUS = [
    # F8 (fixed): contradictory final state used to raise out of the batch loop
    ([{'uid': 0, 'state': 'DONE'}, {'uid': 1, 'state': 'NEW'}],
     [[{'uid': 0, 'state': 'FAILED'}, {'uid': 1, 'state': 'TMGR_SCHEDULING'}]]),
    ([{'uid': 0, 'state': 'FAILED'}, {'uid': 1, 'state': 'AGENT_EXECUTING'}],
     [[{'uid': 1, 'state': 'AGENT_EXECUTING'}, {'uid': 0, 'state': 'CANCELED'},
       {'uid': 1, 'state': 'DONE'}]]),
    ([{'uid': 0, 'state': 'CANCELED'}], [[{'uid': 0, 'state': 'DONE'}, {'uid': 0, 'state': 'NEW'}]]),
]


def run(ctx):
    rp  = rpload.load()
    rps = rp.states
    sts = states_of(rp)

    # -- exhaustive: progress --------------------------------------------------
    ops, impl = [], []
    for c in sts:
        for t in sts:
            ops.append({'op': 'prog', 'kind': 'task', 'cur': c, 'tgt': t})
            try:
                r = rps._task_state_progress('u', c, t)
                impl.append(['ok', r[0], list(r[1])])
            except Exception as e:
                impl.append(['err', exc_name(e)])
            ctx.case(ops[-1])
    common.compare(ctx, 'states', ops, impl, what='_task_state_progress exhaustive')

    # -- exhaustive: Task._update ------------------------------------------------
    tm = stubs.make_tmgr(rp)
    ops, impl = [], []
    for c in sts:
        for t in sts:
            for rc in (False, True):
                task = stubs.make_task(rp, tm, 'task.000000', c)
                ops.append({'op': 'tupdate', 'cur': c, 'tgt': t, 'reconnect': rc})
                try:
                    task._update({'uid': task.uid, 'state': t}, reconnect=rc)
                    impl.append(['ok', task.state])
                except Exception as e:
                    impl.append(['err', exc_name(e)])
                ctx.case(ops[-1])
                # the facade itself keeps DONE and FAILED: whoever calls _update (the notification path, or the
                # pilot-died path racing with it) cannot move a finished task to another state
                if c in ('DONE', 'FAILED') and task.state != c:
                    ctx.fail('task-object:final-state-left', 'Task._update(%s) on a %s task: now %s' % (t, c, task.state),
                             {'kind': 'tupdate', 'cur': c, 'tgt': t, 'reconnect': rc})
    common.compare(ctx, 'states', ops, impl, what='Task._update exhaustive')

    # -- collapse ---------------------------------------------------------------
    ops, impl = [], []
    lists = [list(x) for n in (0, 1, 2) for x in itertools.product(sts, repeat=n)]
    for _ in range(ctx.n(300, 5000)):
        lists.append([ctx.rng.choice(sts) for _ in range(ctx.rng.randint(3, 9))])
    for l in lists:
        ops.append({'op': 'collapse', 'kind': 'task', 'states': l})
        impl.append(rps._task_state_collapse(l))
        ctx.case(ops[-1], nontrivial=len(l) > 1)
    common.compare(ctx, 'states', ops, impl, what='_task_state_collapse')

    # -- sampled: _update_tasks histories ----------------------------------------
    ops, impl = [], []
    hist = list(CORPUS)
    for _ in range(ctx.n(1500, 40000)):
        hist.append(gen_history(ctx.rng, sts))
    # one notification message may carry a great many updates (a large bag of tasks moving in step): more than a
    # thousand dicts in one batch, several per task
    for ntask, nsteps in ((260, 5), (700, 2)):
        big_tasks = [{'uid': i, 'state': 'NEW'} for i in range(ntask)]
        order = [s for s in sts if s != 'NEW'][:nsteps]
        big = [{'uid': i, 'state': st} for st in order for i in range(ntask)]
        hist.append((big_tasks, [big, [{'uid': 0, 'state': 'DONE'}, {'uid': 1, 'state': order[-1]}]]))
    kinds = {'raised': 0, 'with_final_contradiction': 0, 'unknown_uid': 0}
    for tasks, batches in hist:
        res, errs = run_history(rp, tasks, batches)
        op = {'op': 'batches', 'tasks': tasks, 'batches': batches}
        ops.append(op)
        impl.append(res)
        ctx.case(op, nontrivial=bool(res['cbs']))
        ctx.sample({'tasks': tasks, 'batches': batches, 'observed': res}, limit=2)
        if errs: kinds['raised'] += 1
        if any(u['uid'] == 99 for b in batches for u in b): kinds['unknown_uid'] += 1
        bad = monitor(rp, tasks, batches, res, errs)
        if bad:
            ctx.fail(bad[0], bad[1], {'tasks': tasks, 'batches': batches}, observed=res)
            continue
        # application callbacks that take themselves out of / add to the registry during delivery change nothing
        # for the other callbacks
        if res['cbs'] and ctx.rng.random() < 0.4:
            extra = []
            for _ in range(ctx.rng.randint(1, 3)):
                extra.append({'kind': ctx.rng.choice(['oneshot', 'oneshot', 'adder', 'raiser']),
                              'uid': ctx.rng.choice([None, None, ctx.rng.choice(tasks)['uid']]),
                              'on': ctx.rng.choice(['final', 'final', res['cbs'][0][1], ctx.rng.choice(res['cbs'])[1]])})
            res3, errs3 = run_history(rp, tasks, batches, extra)
            kinds['with_registry_using_callbacks'] = kinds.get('with_registry_using_callbacks', 0) + 1
            if res3 != res or errs3:
                ctx.fail('callback-using-the-registry-disturbs-delivery',
                         'with application callbacks %s the recording callback saw %s (exceptions escaping: %s), without them %s'
                         % (extra, res3['cbs'], errs3, res['cbs']),
                         {'tasks': tasks, 'batches': batches, 'extra': extra}, observed=res3, expected=res)
                continue
        # the application waiting for states in between changes nothing
        if batches and kinds.get('with_waits', 0) < ctx.n(25, 300) and ctx.rng.random() < 0.3:
            nf = [s_ for s_ in states_of(rp) if s_ not in rp.states.FINAL and s_ != 'NEW']
            waits = [(ctx.rng.randrange(len(batches)), ctx.rng.choice(tasks)['uid'], ctx.rng.choice([ctx.rng.choice(nf), [ctx.rng.choice(nf)], 'DONE']))
                     for _ in range(ctx.rng.randint(1, 2))]
            res5, errs5 = run_history(rp, tasks, batches, waits=waits)
            kinds['with_waits'] = kinds.get('with_waits', 0) + 1
            if res5 != res or errs5 != errs:
                ctx.fail('waiting-for-a-state-changes-how-notifications-are-handled',
                         'with the application calling Task.wait %s between the batches the tasks end %s with callbacks %s (%s); without: %s, %s'
                         % (waits, [t['state'] for t in res5['tasks']], res5['cbs'], errs5, [t['state'] for t in res['tasks']], res['cbs']),
                         {'tasks': tasks, 'batches': batches, 'waits': waits}, observed=res5, expected=res)
                continue
        # once final, always that final state - also when the pilot of the task ends afterwards (the task manager
        # then fails what is left of that pilot's tasks through Task._update, not through a notification)
        if ctx.rng.random() < 0.35:
            ps = ctx.rng.choice(['FAILED', 'CANCELED', 'DONE'])
            res4, errs4 = run_history(rp, tasks, batches, pilot_dies=ps)
            kinds['with_pilot_ending'] = kinds.get('with_pilot_ending', 0) + 1
            FINAL = rp.states.FINAL
            for t, after in zip(res4['tasks'], res4['after_pilot_end']):
                want = t['state'] if t['state'] in FINAL else 'FAILED'
                if after != want or errs4:
                    ctx.fail('final-state-left-when-the-pilot-ended' if t['state'] in FINAL else 'task-of-dead-pilot-not-failed',
                             'task %d was %s; after its pilot ended %s it is %s %s' % (t['uid'], t['state'], ps, after, errs4),
                             {'tasks': tasks, 'batches': batches, 'pilot_dies': ps}, observed=res4)
                    break
        # batch independence on the real code: drop one dict, others unchanged
        if batches and ctx.rng.random() < 0.5:
            bi = ctx.rng.randrange(len(batches))
            if batches[bi]:
                di = ctx.rng.randrange(len(batches[bi]))
                d  = batches[bi][di]
                b2 = copy.deepcopy(batches)
                del b2[bi][di]
                res2, errs2 = run_history(rp, tasks, b2)
                f = lambda r: ([t for t in r['tasks'] if t['uid'] != d['uid']],
                               [c for c in r['cbs'] if c[0] != d['uid']])
                if f(res) != f(res2) or errs2:
                    ctx.fail('batch-dependence',
                             'removing the dict %s from a batch changed other tasks' % d,
                             {'tasks': tasks, 'batches': batches, 'removed': [bi, di]},
                             observed=f(res), expected=f(res2))
    ctx.extra['distribution'] = kinds
    common.compare(ctx, 'states', ops, impl, what='TaskManager._update_tasks histories',
                   canon=lambda r: {'tasks': [(t['uid'], t['state']) for t in r.get('tasks', [])],
                                    'cbs': [list(c) for c in r.get('cbs', [])]} if isinstance(r, dict) else r)
    ctx.exhaustive = False
    ctx.rule = ('exhaustive: all ordered state pairs for _task_state_progress and (x reconnect) for '
                'Task._update; sampled: histories of 1-4 batches x 1-8 dicts over 1-5 real Task '
                'objects (duplicates, reordering, gaps, contradictory finals, unknown uids); '
                'non-trivial = at least one callback fired; distinct = distinct canonical op')
    ctx.assume += ['callbacks are delivered synchronously by _task_cb (no bulk mode)',
                   'state names outside the table are not notification inputs']
    ctx.trusted += ['harness/props/c06.py (differential run of the real TaskManager/Task against rpmodel states)',
                    'translator: Gen/States.lean from states.py (checked by theorem taskTable_ok)']


def replay(ctx, data):
    rp = rpload.load()
    inp = data['input']
    if inp.get('kind') == 'tupdate':
        tm = stubs.make_tmgr(rp)
        task = stubs.make_task(rp, tm, 'task.000000', inp['cur'])
        try: task._update({'uid': task.uid, 'state': inp['tgt']}, reconnect=inp['reconnect'])
        except Exception as e: print('raised', e)
        print('observed:', task.state)
        return task.state == inp['cur']
    res, errs = run_history(rp, inp['tasks'], inp['batches'])
    bad = monitor(rp, inp['tasks'], inp['batches'], res, errs)
    print('observed:', res, errs, bad)
    if not bad and 'pilot_dies' in inp:
        res4, errs4 = run_history(rp, inp['tasks'], inp['batches'], pilot_dies=inp['pilot_dies'])
        FINAL = rp.states.FINAL
        print('after the pilot ended %s:' % inp['pilot_dies'], res4['after_pilot_end'], errs4)
        return not errs4 and all(a == (t['state'] if t['state'] in FINAL else 'FAILED') for t, a in zip(res4['tasks'], res4['after_pilot_end']))
    if not bad and 'waits' in inp:
        res5, errs5 = run_history(rp, inp['tasks'], inp['batches'], waits=[tuple(w) for w in inp['waits']])
        print('with waits %s:' % inp['waits'], res5, errs5)
        return res5 == res and errs5 == errs
    if not bad and 'extra' in inp:
        res3, errs3 = run_history(rp, inp['tasks'], inp['batches'], inp['extra'])
        print('with application callbacks %s:' % inp['extra'], res3, errs3)
        return res3 == res and not errs3
    if not bad and 'removed' in inp:
        bi, di = inp['removed']
        d  = inp['batches'][bi][di]
        b2 = copy.deepcopy(inp['batches']); del b2[bi][di]
        res2, errs2 = run_history(rp, inp['tasks'], b2)
        f = lambda r: ([t for t in r['tasks'] if t['uid'] != d['uid']],
                       [c for c in r['cbs'] if c[0] != d['uid']])
        return f(res) == f(res2) and not errs2
    return not bad
