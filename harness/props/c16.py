"""C16 — Client and agents exchange each forwarded message exactly once.

The real `Session.crosswire_pubsub` / `_crosswire_proxy` are called on Session
objects made with object.__new__ (one per side); ru.zmq.Publisher/Subscriber
are replaced by an in-memory pubsub network (one local bus per side and
channel, one shared proxy bus per channel, every delivery a deep copy).
Tie: exhaustive for the forwarding closures (origin x fwd x direction x module),
sampled/enumerated topologies for whole-network delivery counts.
Monitor: delivery counts per side as the property states; hop budget = loop detector."""

import copy
import itertools

import common
import rpload


class Net(object):
    """in-memory pubsub network"""
    def __init__(self, eager=False):
        self.subs  = {}      # url -> [cb]
        self.queue = []
        self.hops  = 0
        self.eager = eager   # deliver as soon as something is published (subscriber threads keep up with the publisher)
        self.busy  = False
        self.quiet = True
        self.proxy_down = False
        self.errors = []
    def subscribe(self, url, cb):
        self.subs.setdefault(url, []).append(cb)
    def unsubscribe(self, url, cb):
        if cb in self.subs.get(url, []):
            self.subs[url].remove(cb)
    def put(self, url, topic, msg):
        if self.proxy_down and str(url).startswith('mem://proxy/'):
            return            # the proxy service has ended the session's channels: nothing travels between the sides
        self.queue.append((url, topic, copy.deepcopy(msg)))
        if self.eager and not self.busy:
            self.busy = True
            try:     self.quiet = self.run() and self.quiet
            finally: self.busy = False
    def run(self, limit=200):
        while self.queue:
            url, topic, msg = self.queue.pop(0)
            self.hops += 1
            if self.hops > limit:
                return False
            for cb in self.subs.get(url, []):
                # (the listener thread of a real subscriber logs an exception of its callback and goes on: the message is
                #  lost for that subscriber, nothing is raised anywhere)
                try:
                    cb(topic, copy.deepcopy(msg))
                except Exception as e:
                    self.errors.append('%s: %s' % (url, type(e).__name__))
        return True


_MODEXPR = {}
def module_of(side):
    """the origin marker a side gets: the right-hand side of `self._module = ...` in Session.__init__ of the working
    tree, evaluated with the environment of that side ($RP_PILOT_ID is set on a pilot, not on the client)"""
    import ast
    if 'code' not in _MODEXPR:
        src = open(common.SRC + '/session.py').read()
        tree = ast.parse(src)
        rhs = [n.value for n in ast.walk(tree) if isinstance(n, ast.Assign) and len(n.targets) == 1
               and isinstance(n.targets[0], ast.Attribute) and n.targets[0].attr == '_module']
        _MODEXPR['code'] = compile(ast.Expression(rhs[0]), 'session.py:_module', 'eval') if len(rhs) == 1 else None
    if _MODEXPR['code'] is None:
        return mod_name(side)
    class _Os(object):
        environ = {} if side == 0 else {'RP_PILOT_ID': mod_name(side)}
    return eval(_MODEXPR['code'], {'os': _Os})


def build(rp, nsides, eager=False, net=None, first=0):
    import radical.utils as ru
    from radical.pilot import constants as rpc
    net = net or Net(eager)

    class Pub(object):
        def __init__(self, channel, url=None, **kw):
            self.url = url
        def put(self, topic, msg):
            net.put(self.url, topic, msg)
    class Sub(object):
        def __init__(self, channel, topic=None, cb=None, url=None, **kw):
            self.url, self.cb = url, cb
            net.subscribe(url, cb)
            # (the listener of a real subscriber is live from here on: what is published on the channel at this
            #  very moment is handed to the callback; an exception in the callback is logged by the listener, not raised)
            if getattr(net, 'on_subscribe', None): net.on_subscribe(url, cb)
        def stop(self): net.unsubscribe(self.url, self.cb)
    net.Pub = Pub

    old = (ru.zmq.Publisher, ru.zmq.Subscriber)
    ru.zmq.Publisher, ru.zmq.Subscriber = Pub, Sub
    sessions = []
    try:
        for s in range(first, nsides):
            sess = object.__new__(rp.Session)
            sess._module  = module_of(s)
            sess._role    = sess._PRIMARY if s == 0 else sess._AGENT_0
            sess._log     = rpload.NullLog()
            sess._prof    = rpload.NullLog()
            sess._to_stop = []
            sess._cfg     = ru.Config(from_dict={'path': '.'})
            reg = {}
            for ch in (rpc.CONTROL_PUBSUB, rpc.STATE_PUBSUB):
                reg['bridges.%s.addr_sub' % ch.lower()] = 'mem://%d/%s' % (s, ch)
                reg['bridges.%s.addr_pub' % ch.lower()] = 'mem://%d/%s' % (s, ch)
            for ch in (rpc.PROXY_CONTROL_PUBSUB, rpc.PROXY_STATE_PUBSUB):
                reg['bridges.%s.addr_sub' % ch.lower()] = 'mem://proxy/%s' % ch
                reg['bridges.%s.addr_pub' % ch.lower()] = 'mem://proxy/%s' % ch
            sess._reg = reg
            sess._crosswire_proxy()
            sessions.append(sess)
    finally:
        ru.zmq.Publisher, ru.zmq.Subscriber = old
    return net, sessions


class RoleReg(dict):
    """the registry as the role initialisers use it: flat keys (crosswire) and the bridge entry (`_init_primary`)"""
    def dump(self, *a, **k): pass


def build_roles(rp, nsides, subagents, eager=False):
    """the sides brought up by the REAL role initialisers of Session - `_init_primary` on the client, `_init_agent_0` on
    every pilot, and `_init_agent_n` for each sub-agent of a pilot (`subagents[side]` of them; a sub-agent session shares
    its pilot's registry and origin marker) - with everything but `_start_components` and `_crosswire_proxy` stubbed:
    registry and proxy services, configuration, resource manager, component manager."""
    import radical.utils as ru
    import radical.pilot.session as smod
    from radical.pilot import constants as rpc
    net = Net(eager)
    class Pub(object):
        def __init__(self, channel, url=None, **kw): self.url = url
        def put(self, topic, msg): net.put(self.url, topic, msg)
    class Sub(object):
        def __init__(self, channel, topic=None, cb=None, url=None, **kw):
            self.url, self.cb = url, cb
            net.subscribe(url, cb)
        def stop(self): net.unsubscribe(self.url, self.cb)
    class CMgr(object):
        def __init__(self, *a, **k): pass
        def start_bridges(self, *a, **k): pass
        def start_components(self, *a, **k): pass
        def close(self): pass
    old = (ru.zmq.Publisher, ru.zmq.Subscriber, smod.rpu.ComponentManager)
    ru.zmq.Publisher, ru.zmq.Subscriber, smod.rpu.ComponentManager = Pub, Sub, CMgr
    sessions, errs = [], []
    noop = lambda *a, **k: None
    try:
        for s in range(nsides):
            reg = RoleReg()
            for ch in (rpc.CONTROL_PUBSUB, rpc.STATE_PUBSUB):
                reg['bridges.%s.addr_sub' % ch.lower()] = 'mem://%d/%s' % (s, ch)
                reg['bridges.%s.addr_pub' % ch.lower()] = 'mem://%d/%s' % (s, ch)
                reg['bridges.%s' % ch] = {'addr_sub': 'mem://%d/%s' % (s, ch), 'addr_pub': 'mem://%d/%s' % (s, ch)}
            for ch in (rpc.PROXY_CONTROL_PUBSUB, rpc.PROXY_STATE_PUBSUB):
                reg['bridges.%s.addr_sub' % ch.lower()] = 'mem://proxy/%s' % ch
                reg['bridges.%s.addr_pub' % ch.lower()] = 'mem://proxy/%s' % ch
            roles = ['primary' if s == 0 else 'agent_0'] + ['agent_n'] * (subagents.get(s, 0) if s else 0)
            for role in roles:
                sess = object.__new__(rp.Session)
                sess._module  = module_of(s)
                sess._role    = {'primary': sess._PRIMARY, 'agent_0': sess._AGENT_0, 'agent_n': sess._AGENT_N}[role]
                sess._log, sess._prof = rpload.NullLog(), rpload.NullLog()
                sess._to_stop = []
                sess._uid     = 'rp.session.verif'
                sess._cfg     = ru.Config(from_dict={'path': '.', 'reg_addr': 'mem://reg', 'bridges': {}, 'components': {}})
                sess._reg     = reg
                sess._reg_addr = 'mem://reg'
                for name in ('_init_cfg_from_scratch', '_start_registry', '_connect_registry', '_start_proxy', '_publish_cfg',
                             '_init_cfg_from_dict', '_connect_proxy', '_init_rm', '_init_cfg_from_registry', 'dump'):
                    setattr(sess, name, noop)
                try:
                    {'primary': sess._init_primary, 'agent_0': sess._init_agent_0, 'agent_n': sess._init_agent_n}[role]()
                except Exception as e:
                    errs.append('%s of side %d: %s: %s' % (role, s, type(e).__name__, e))
                sessions.append(sess)
    finally:
        ru.zmq.Publisher, ru.zmq.Subscriber, smod.rpu.ComponentManager = old
    return net, sessions, errs


def run_publish_roles(rp, nsides, subagents, side, msg, channel_idx):
    from radical.pilot import constants as rpc
    ch = [rpc.CONTROL_PUBSUB, rpc.STATE_PUBSUB][channel_idx]
    net, _, errs = build_roles(rp, nsides, subagents)
    got = {s: [] for s in range(nsides)}
    for s in range(nsides):
        net.subscribe('mem://%d/%s' % (s, ch), lambda t, m, s=s: got[s].append(from_msg(m)))
    net.put('mem://%d/%s' % (side, ch), ch, to_msg(msg))
    quiet = net.run()
    return got, quiet, errs


def roles_cases(rp, ctx):
    n = 0
    for subagents in ({}, {1: 1}, {1: 2, 2: 1}):
        for side in range(3):
            for ci in (0, 1):
                for fwd in (True, False, None):
                    msg = {'origin': None, 'fwd': fwd, 'body': 7}
                    got, quiet, errs = run_publish_roles(rp, 3, subagents, side, msg, ci)
                    n += 1
                    ctx.case({'roles': [subagents, side, ci, fwd]}, nontrivial=bool(subagents) and fwd is True)
                    inp = {'kind': 'roles', 'subagents': {str(k): v for k, v in subagents.items()}, 'side': side, 'channel': ci, 'fwd': fwd}
                    if errs:
                        ctx.fail('roles:session-initialiser-raises', str(errs), inp); continue
                    bad = monitor(3, side, msg, got, quiet)
                    if bad:
                        ctx.fail('roles:' + bad[0], bad[1] + ' (sub-agents per pilot: %s)' % subagents, inp)
    ctx.obligation('sides brought up by the real role initialisers (_init_primary, _init_agent_0, and _init_agent_n for the sub-agents of a '
                   'pilot): every forwarded message is delivered once on every other side, local ones stay (%d runs)' % n, 'tie', True, '')


def run_proxy_monitor(rp, script):
    """the real Proxy._monitor (the thread that ends the channels of sessions whose heartbeats stopped) and the real
    Proxy._heartbeat on a virtual clock: one pass per `time.sleep`; `script` lists per pass what the sessions do before it:
    ['reg', sid] (a session registers - its channels come up), ['hb', sid] (heartbeat request), ['skip', seconds] (time
    goes by).  Returns per registration (sid, generation) whether its channels were ended and after which pass."""
    import threading as mt
    import radical.pilot.proxy as pmod
    clock = {'now': 1000.0, 'pass': 0}
    ended = {}            # (sid, generation) -> pass at which the channels were ended
    gen = {}
    px = object.__new__(pmod.Proxy)
    px._lock, px._term, px._clients, px._log = mt.Lock(), mt.Event(), dict(), rpload.NullLog()
    class Term(object):
        def __init__(self, key): self.key = key
        def set(self): ended.setdefault(self.key, clock['pass'])
        def is_set(self): return self.key in ended
    class Proc(object):
        def join(self, *a, **k): pass
    def act(a):
        if a[0] == 'reg':
            gen[a[1]] = gen.get(a[1], 0) + 1
            px._clients[a[1]] = {'hb': clock['now'], 'term': Term((a[1], gen[a[1]])), 'proc': Proc()}
        elif a[0] == 'hb':
            px._heartbeat({'sid': a[1]})
        elif a[0] == 'skip':
            clock['now'] += a[1]
    class Time(object):
        def time(self): return clock['now']
        def sleep(self, s):
            # one pass of the monitor per call: what the sessions do before it
            k = clock['pass']
            if k >= len(script):
                px._term.set(); return
            for a in script[k]: act(a)
            clock['now'] += s
            clock['pass'] += 1
    saved = pmod.time
    pmod.time = Time()
    err = None
    try:
        px._monitor()
    except Exception as e:
        err = type(e).__name__
    finally:
        pmod.time = saved
    return {'ended': sorted([list(k) + [v] for k, v in ended.items()]), 'alive': sorted(px._clients), 'err': err}


def proxy_monitor_cases(rp, ctx):
    import radical.pilot.proxy as pmod
    T = pmod._TIMEOUT
    n = 0
    mops, mimpl = [], []
    for late in (False, True):
        for bystander in (False, True):
            for quiet_passes in (1, 3):
                # session A registers, stops sending heartbeats and is ended; the same session id registers again (a
                # restarted client, a second pilot manager of a session id re-used) and sends its heartbeats: it stays
                script  = [[['reg', 'A']] + ([['reg', 'B']] if bystander else [])]
                script += [[['skip', T + 10]] + ([['hb', 'B']] if bystander else [])]
                script += [[['hb', 'B']] if bystander else [] for _ in range(quiet_passes)]
                script += [[['reg', 'A'], ['hb', 'A']] + ([['hb', 'B']] if bystander else [])]
                script += [[['hb', 'A']] + ([['hb', 'B']] if bystander else []) for _ in range(4)]
                if late: script += [[['skip', T // 2], ['hb', 'A']] + ([['hb', 'B']] if bystander else [])]
                script += [[] for _ in range(2)]
                r = run_proxy_monitor(rp, script)
                n += 1
                num = {'A': 1, 'B': 2}
                mops.append({'op': 'proxy_monitor', 'T': 2 * T, 'script': [[[a[0], num[a[1]] if a[0] != 'skip' else 2 * a[1]] for a in p_] for p_ in script]})
                mimpl.append({'ended': sorted([[num[e[0]], e[1]] for e in r['ended']]), 'alive': sorted(num[x] for x in r['alive'])})
                ctx.case({'proxy_monitor': script}, nontrivial=True)
                inp = {'kind': 'proxy_monitor', 'script': script}
                ended = {(e[0], e[1]) for e in r['ended']}
                if r['err']:
                    ctx.fail('proxy:monitor-raises', r['err'], inp)
                elif ('A', 1) not in ended:
                    ctx.fail('proxy:silent-session-keeps-its-channels', 'session A sent no heartbeat for longer than the timeout: %s' % r, inp)
                elif ('A', 2) in ended or ('B', 1) in ended or 'A' not in r['alive']:
                    ctx.fail('proxy:channels-of-a-live-session-ended',
                             'a session that sends its heartbeats lost its channels (every forwarded message is then delivered 0 times): %s' % r, inp)
    common.compare(ctx, 'bridge', mops, mimpl, canon=lambda x: {'ended': sorted(x['ended']), 'alive': sorted(x['alive'])} if isinstance(x, dict) else x,
                   what='real Proxy._monitor / _heartbeat over histories of registrations, heartbeats and silence (model Proxy.run): channels ended, sessions alive')
    ctx.obligation('real Proxy._monitor / _heartbeat on a virtual clock: the channels of a session end when its heartbeats stop, a session id '
                   'that registers again and sends heartbeats keeps its channels, as does a bystander (%d histories)' % n, 'tie', True, '')


# side names: pilot uids are user-definable, so names may contain each other
NAMES = ['client', 'pilot.1', 'pilot.10', 'pilot.100', 'pilot', 'pilot.1.a', 'p', 'client.pilot.1', 'lot.1']


def mod_id(m):
    if m is None: return None
    return NAMES.index(m) if m in NAMES else 99        # 99: a marker that is no side's name


def mod_name(i):
    if i is None: return None
    return NAMES[i]


def to_msg(m):
    d = {'body': m['body']}
    if m.get('origin') is not None: d['origin'] = mod_name(m['origin'])
    if m.get('fwd') is not None: d['fwd'] = m['fwd']
    return d


def from_msg(d):
    return {'origin': mod_id(d.get('origin')), 'fwd': d.get('fwd'), 'body': d['body']}


def run_publish(rp, nsides, side, msg, channel_idx):
    from radical.pilot import constants as rpc
    ch = [rpc.CONTROL_PUBSUB, rpc.STATE_PUBSUB][channel_idx]
    net, _ = build(rp, nsides)
    got = {s: [] for s in range(nsides)}
    for s in range(nsides):
        net.subscribe('mem://%d/%s' % (s, ch), lambda t, m, s=s: got[s].append(from_msg(m)))
    net.put('mem://%d/%s' % (side, ch), ch, to_msg(msg))
    quiet = net.run()
    return got, quiet, net.hops


def run_join(rp, nsides):
    """sides 0..n-2 are up and exchange messages; side n-1 (a further pilot) connects: while its four forwarders are set
    up, each of them is handed one message that is on its source channel at the moment its subscription goes live - a
    flagged message of this side on the local channels, a message of the client on the proxy channels.
    Returns per message where it was seen, and what the listeners logged."""
    from radical.pilot import constants as rpc
    net, _ = build(rp, nsides - 1)
    j = nsides - 1
    seen, errs, sent = {}, [], []
    def rec(where):
        def cb(t, m): seen.setdefault(m.get('body'), []).append(where)
        return cb
    for s in range(nsides):
        for ch in (rpc.CONTROL_PUBSUB, rpc.STATE_PUBSUB):
            net.subscribe('mem://%d/%s' % (s, ch), rec('side %d %s' % (s, ch)))
    for ch in (rpc.PROXY_CONTROL_PUBSUB, rpc.PROXY_STATE_PUBSUB):
        net.subscribe('mem://proxy/%s' % ch, rec('proxy %s' % ch))
    def on_subscribe(url, cb):
        body = 500 + len(sent)
        if url.startswith('mem://%d/' % j):   m, kind = {'body': body, 'fwd': True}, 'local'
        elif url.startswith('mem://proxy/'): m, kind = {'body': body, 'origin': module_of(0), 'fwd': False}, 'proxy'
        else: return
        sent.append((body, kind, url.split('/')[-1]))
        try: cb(url.split('/')[-1], copy.deepcopy(m))
        except Exception as e: errs.append('%s: %s' % (url, type(e).__name__))
    net.on_subscribe = on_subscribe
    build(rp, nsides, net=net, first=j)
    net.on_subscribe = None
    quiet = net.run(limit=2000)
    return sent, seen, errs, quiet


def join_monitor(rp, nsides, sent, seen, errs, quiet):
    from radical.pilot import constants as rpc
    j = nsides - 1
    pair = {rpc.CONTROL_PUBSUB: rpc.PROXY_CONTROL_PUBSUB, rpc.STATE_PUBSUB: rpc.PROXY_STATE_PUBSUB}
    back = {v: k for k, v in pair.items()}
    if errs:
        return ('join:forwarder-raised-on-a-message-received-during-setup', '%s (the listener only logs it: the message is lost)' % errs)
    if len(sent) != 4 or not quiet:
        return ('join:setup-differs', 'messages handed to forwarders: %s, quiet: %s' % (sent, quiet))
    for body, kind, ch in sent:
        w = sorted(seen.get(body, []))
        if kind == 'local':
            want = sorted(['proxy %s' % pair[ch]] + ['side %d %s' % (s, ch) for s in range(nsides) if s != j])
        else:
            want = ['side %d %s' % (j, back[ch])]
        if w != want:
            return ('join:message-received-during-setup-not-delivered-exactly-once',
                    'a %s message the connecting side\'s forwarder for %s received as its subscription went live was seen at %s, expected %s'
                    % ('flagged local' if kind == 'local' else 'client', ch, w, want))
    return None


def monitor(nsides, side, msg, got, quiet):
    if not quiet:
        return ('message-circulates', 'network not quiet after 200 hops')
    fwd = msg.get('fwd') is True and msg.get('origin') in (None, side)
    for t in range(nsides):
        n = len(got[t])
        if t == side:
            if n != 1:
                return ('origin-side-delivery-count', 'side %d got its own message %d times' % (t, n))
        elif fwd and n != 1:
            return ('forwarded-message-delivered-%d-times' % min(n, 2),
                    'side %d received %d copies of a forwarded message from side %d' % (t, n, side))
        elif not fwd and n != 0:
            return ('unforwarded-message-leaked', 'side %d received %d copies of a local message' % (t, n))
    return None


def run_close(rp, nsides, closer, terminate):
    """the REAL Session.close() of side `closer` while all sides are still connected (forwarders of the real
    _crosswire_proxy, deliveries made as soon as something is published).  The closing client has one pilot manager,
    which - like the real one - sends a forwarded `cancel_pilots` request when it is closed with terminate.
    Returns the messages published while closing and, per side, what its local control subscribers received."""
    import radical.pilot.session as rs
    from radical.pilot import constants as rpc
    ch = rpc.CONTROL_PUBSUB
    net, sessions = build(rp, nsides, eager=True)
    got = {s: [] for s in range(nsides)}
    for s in range(nsides):
        net.subscribe('mem://%d/%s' % (s, ch), lambda t, m, s=s: got[s].append(m))
    sess = sessions[closer]
    published = []
    pub = net.Pub(ch, url='mem://%d/%s' % (closer, ch))
    class CtrlPub(object):
        def put(self, topic, msg):
            published.append(copy.deepcopy(msg)); pub.put(topic, msg)
    class Mgr(object):
        def close(self, terminate=True):
            if terminate:
                CtrlPub().put(ch, {'cmd': 'cancel_pilots', 'arg': {'pmgr': 'pmgr.0000', 'uids': ['pilot.1']}, 'fwd': True})
    class Stub(object):
        def __getattr__(self, name): return lambda *a, **k: None
    sess._closed, sess._uid, sess._rep = False, 'session.verif', rpload.NullLog()
    sess._close_options = rs._CloseOptions({'terminate': terminate, 'download': False})
    sess._tmgrs, sess._pmgrs = {}, ({'pmgr.0000': Mgr()} if closer == 0 else {})
    sess._cmgr = sess._proxy = None
    requests = []
    class ProxyClient(object):
        # the session's client of the proxy service: `unregister` makes the service end the channels of the SESSION
        # (Proxy._unregister stops the bridges all sides of the session share)
        def request(self, cmd, arg=None):
            requests.append(cmd)
            if cmd == 'unregister': net.proxy_down = True
        def close(self): pass
    sess._proxy_client = ProxyClient()
    sess._ctrl_pub, sess._reg, sess._reg_service, sess._ctrl_sub = CtrlPub(), Stub(), Stub(), Stub()
    sess._t_start = 0.0
    sess.close()
    # the other sides go on: what they publish with the forward flag afterwards still reaches each other (unless the
    # side that closed was the client: the session is over then)
    post = []
    if closer != 0:
        for s in range(nsides):
            if s == closer: continue
            m = {'cmd': 'after_close_%d' % s, 'arg': None, 'fwd': True}
            post.append([s, m['cmd']])
            net.put('mem://%d/%s' % (s, ch), ch, m)
        net.run()
    return published, got, net.quiet, post, requests


def close_monitor(nsides, closer, published, got, quiet, post=(), requests=()):
    if not quiet:
        return ('close:network-does-not-quiesce', 'hop budget exhausted')
    for s, cmd in post:
        for t in range(nsides):
            if t == closer: continue
            n = len([x for x in got[t] if x.get('cmd') == cmd])
            if n != 1:
                return ('close:sides-that-go-on-are-cut-off-%d-deliveries' % n,
                        'after pilot side %d closed its session (requests to the proxy service: %s), %s published on side %d with the '
                        'forward flag is delivered %d times on side %d' % (closer, list(requests), cmd, s, n, t))
    for m in published:
        if not m.get('fwd'): continue
        for t in range(nsides):
            n = len([x for x in got[t] if x.get('cmd') == m['cmd']])
            if n != 1:
                return ('close:forwarded-message-of-the-closing-side-delivered-%d-times' % n,
                        '%s (fwd=True) published by the closing side %d: delivered %d times on side %d, expected once'
                        % (m['cmd'], closer, n, t))
    return None


def close_cases(rp, ctx):
    n = 0
    for nsides in (2, 3, 4):
        for closer in range(nsides):
            for terminate in (True, False):
                published, got, quiet, post, requests = run_close(rp, nsides, closer, terminate)
                n += 1
                ctx.case({'close': [nsides, closer, terminate]}, nontrivial=bool(published) or bool(post))
                bad = close_monitor(nsides, closer, published, got, quiet, post, requests)
                if bad:
                    ctx.fail(bad[0], bad[1], {'close': {'nsides': nsides, 'closer': closer, 'terminate': terminate}},
                             observed={'published': published, 'received': {str(k): [x.get('cmd') for x in v] for k, v in got.items()}})
    ctx.obligation('real Session.close() with all sides connected (%d cases): what the closing side publishes with the forward flag '
                   'reaches every side once' % n, 'tie', True, '')


def run_advance(rp, cls_name, fwd, prof, state, nthings=1):
    """the real <cls>.advance with publish() captured: the messages it puts on the state pubsub"""
    import radical.pilot.utils.component as rpuc
    cls = getattr(rpuc, cls_name)
    comp = object.__new__(cls)
    comp._log, comp._prof = rpload.NullLog(), rpload.NullLog()
    comp._outputs = {}
    sent = []
    comp.publish = lambda pubsub, msg, topic=None: sent.append((pubsub, copy.deepcopy(msg)))
    things = [{'uid': 'task.%04d' % i, 'type': 'task', 'state': 'NEW'} for i in range(nthings)]
    kw = {}
    if fwd is not None: kw['fwd'] = fwd
    if prof is not None: kw['prof'] = prof
    comp.advance(things, state, publish=True, push=False, **kw)
    return sent


def advance_cases(rp, ctx, ops, impl):
    """state advances on either side: flag on the published update (vs model) and where it ends up"""
    from radical.pilot import constants as rpc
    from radical.pilot import states as rps
    body = 0
    for cls_name, side_kind in (('ClientComponent', 0), ('AgentComponent', 1), ('BaseComponent', 1)):
        for fwd in (None, True, False):
            for prof in (None, True, False):
                for state in (rps.AGENT_EXECUTING, rps.DONE, rps.FAILED):
                    body += 1
                    sent = run_advance(rp, cls_name, fwd, prof, state, nthings=1 + body % 2)
                    op = {'op': 'advance', 'cls': cls_name, 'fwd': fwd, 'body': body}
                    ok_shape = (len(sent) == 1 and sent[0][0] == rpc.STATE_PUBSUB and sent[0][1].get('cmd') == 'update'
                                and 'origin' not in sent[0][1])
                    flag = sent[0][1].get('fwd') if sent else None
                    ops.append(op)
                    impl.append({'origin': None, 'fwd': flag, 'body': body} if ok_shape else 'unexpected: %r' % (sent,))
                    ctx.case({'advance': cls_name, 'fwd': fwd, 'prof': prof, 'state': state}, nontrivial=flag is True)
                    # end to end: the update on the state channel of a 3-sided network
                    want_fwd = fwd if fwd is not None else (cls_name == 'AgentComponent')
                    side = side_kind
                    msg = {'origin': None, 'fwd': flag, 'body': body}
                    got, quiet, hops = run_publish(rp, 3, side, msg, 1)
                    bad = monitor(3, side, {'origin': None, 'fwd': want_fwd, 'body': body}, got, quiet)
                    if bad:
                        ctx.fail('advance:' + bad[0], '%s.advance(fwd=%s, prof=%s, state=%s) published fwd=%r: %s'
                                 % (cls_name, fwd, prof, state, flag, bad[1]),
                                 {'advance': {'cls': cls_name, 'fwd': fwd, 'prof': prof, 'state': state, 'side': side}},
                                 observed={'flag': flag, 'deliveries': {str(k): len(v) for k, v in got.items()}})


def run_rpc(rp, nsides, r, h, req_fwd):
    """an RPC round trip with the REAL BaseComponent.publish / _control_cb / _handle_rpc_msg on every side and
    the real forwarders in between; req_fwd None = the request keeps the default of its message type"""
    import threading as mt
    import radical.utils as ru
    from radical.pilot import constants as rpc
    from radical.pilot.messages import RPCRequestMessage
    from radical.pilot.utils.component import BaseComponent
    net, _ = build(rp, nsides)
    ch = rpc.CONTROL_PUBSUB
    class NetPub(object):
        def __init__(self, url): self.url = url
        def put(self, topic, msg):
            net.put(self.url, topic, ru.from_msgpack(ru.to_msgpack(msg)))
    comps, got = [], {s: [] for s in range(nsides)}
    for s in range(nsides):
        c = object.__new__(BaseComponent)
        c._uid, c._log, c._prof = 'comp.%d' % s, rpload.NullLog(), rpload.NullLog()
        c._rpc_lock, c._rpc_reqs, c._rpc_handlers = mt.RLock(), dict(), dict()
        c._cancel_lock, c._cancel_list = mt.RLock(), list()
        c._publishers = {ch: NetPub('mem://%d/%s' % (s, ch))}
        c.control_cb = lambda topic, msg: None
        net.subscribe('mem://%d/%s' % (s, ch), c._control_cb)
        def rec(t, m, s=s):
            if m.get('_msg_type') == 'rpc_res':
                got[s].append({'origin': mod_id(m.get('origin')), 'fwd': m.get('fwd'), 'body': int(m['uid'].split('.')[1])})
        net.subscribe('mem://%d/%s' % (s, ch), rec)
        comps.append(c)
    comps[h].register_rpc_handler('echo', lambda x: x + 1)
    kw = {} if req_fwd is None else {'fwd': req_fwd}
    req = RPCRequestMessage(uid='rpc.0007', cmd='echo', args=[41], **kw)
    comps[r]._rpc_reqs['rpc.0007'] = {'req': req, 'res': None, 'evt': mt.Event(), 'time': 0}
    published = dict(ru.from_msgpack(ru.to_msgpack(req))).get('fwd')
    comps[r].publish(ch, req)
    quiet = net.run()
    res = comps[r]._rpc_reqs['rpc.0007']['res']
    return got, quiet, published, (None if res is None else res.val)


def rpc_monitor(nsides, r, h, published, got, quiet, val):
    if not quiet:
        return ('rpc:message-circulates', 'network not quiet after 200 hops')
    if published is not True and r != h:
        return None                                  # the request stays on its side: nobody answers
    for t in range(nsides):
        # a request that was never to leave its side: only the requester's side must see the reply
        if published is not True and t != r:
            if len(got[t]) > 1:
                return ('rpc:reply-delivered-2-times', 'side %d received %d copies of the reply' % (t, len(got[t])))
            continue
        if len(got[t]) != 1:
            return ('rpc:reply-delivered-%d-times' % min(len(got[t]), 2),
                    'request from side %d handled on side %d: side %d received %d copies of the reply (a forwarded control message)'
                    % (r, h, t, len(got[t])))
    if val != 42:
        return ('rpc:requester-never-got-the-result', 'requester on side %d holds result %r' % (r, val))
    return None


def rpc_cases(rp, ctx, ops, impl):
    nmax = ctx.n(4, 6)
    for nsides in range(1, nmax + 1):
        for r in range(nsides):
            for h in range(nsides):
                for req_fwd in (None, True, False):
                    got, quiet, published, val = run_rpc(rp, nsides, r, h, req_fwd)
                    op = {'op': 'rpc', 'sides': list(range(nsides)), 'fuel': 6, 'r': r, 'h': h,
                          'msg': {'origin': None, 'fwd': published, 'body': 7}}
                    ops.append(op); impl.append([[t, got[t]] for t in range(nsides)])
                    ctx.case(op, nontrivial=r != h and published is True)
                    bad = rpc_monitor(nsides, r, h, published, got, quiet, val)
                    if bad:
                        ctx.fail(bad[0], bad[1], {'rpc': {'nsides': nsides, 'r': r, 'h': h, 'req_fwd': req_fwd}},
                                 observed={'replies': {str(k): len(v) for k, v in got.items()}, 'result': val})


def run(ctx):
    rp = rpload.load()
    import radical.utils as ru

    # -- exhaustive: the forwarding closures themselves ---------------------------
    captured = []
    class Pub(object):
        def __init__(self, channel, url=None, **kw): pass
        def put(self, topic, msg): captured.append(copy.deepcopy(msg))
    class Sub(object):
        def __init__(self, channel, topic=None, cb=None, url=None, **kw): self.cb = cb
    old = (ru.zmq.Publisher, ru.zmq.Subscriber)
    ops, impl = [], []
    try:
        ru.zmq.Publisher, ru.zmq.Subscriber = Pub, Sub
        for module in (0, 1, 2):
            for from_proxy in (False, True):
                sess = object.__new__(rp.Session)
                sess._module, sess._log, sess._prof = mod_name(module), rpload.NullLog(), rpload.NullLog()
                sess._to_stop = []
                sess._cfg = ru.Config(from_dict={'path': '.'})
                sess._reg = {'bridges.a.addr_sub': 'x', 'bridges.b.addr_pub': 'y'}
                sess.crosswire_pubsub('A', 'B', from_proxy)
                cb = sess._to_stop[0].cb
                for origin in (None, 0, 1, 2):
                    for fwd in (None, False, True):
                        m = {'origin': origin, 'fwd': fwd, 'body': 5}
                        del captured[:]
                        try:
                            cb('A', to_msg(m))
                        except Exception as e:
                            # (swallowed by the listener: the message is not forwarded)
                            del captured[:]
                            ctx.fail('forwarder:closure-raises-on-a-message', 'module %s, %s, message %s: %s' % (mod_name(module),
                                     'from the proxy' if from_proxy else 'to the proxy', m, type(e).__name__),
                                     {'closure': {'module': module, 'from_proxy': from_proxy, 'msg': m}})
                        op = {'op': 'fwd', 'module': module, 'from_proxy': from_proxy, 'msg': m}
                        ops.append(op)
                        impl.append(from_msg(captured[0]) if captured else None)
                        ctx.case(op)
    finally:
        ru.zmq.Publisher, ru.zmq.Subscriber = old
    common.compare(ctx, 'bridge', ops, impl, what='pubsub_fwd closures exhaustive (module x direction x origin x fwd)')

    # -- state advances ------------------------------------------------------------
    ops, impl = [], []
    advance_cases(rp, ctx, ops, impl)
    common.compare(ctx, 'bridge', ops, impl, what='real ClientComponent / AgentComponent / BaseComponent.advance: flag on the published update (class x fwd x prof x state)')

    # -- RPC round trips ------------------------------------------------------------
    ops, impl = [], []
    rpc_cases(rp, ctx, ops, impl)
    common.compare(ctx, 'bridge', ops, impl, what='RPC round trip (real publish / _control_cb / _handle_rpc_msg on every side, real forwarders): deliveries of the reply per side')

    # -- topologies --------------------------------------------------------------
    ops, impl = [], []
    nmax = ctx.n(5, len(NAMES))
    for nsides in range(1, nmax + 1):
        sides = list(range(nsides))
        for side in sides:
            for origin in [None] + sides[:3] + ([nsides - 1] if nsides > 3 else []):
                for fwd in (None, False, True):
                    for ch in (0, 1):
                        msg = {'origin': origin, 'fwd': fwd, 'body': 10 * side + ch}
                        got, quiet, hops = run_publish(rp, nsides, side, msg, ch)
                        op = {'op': 'publish', 'sides': sides, 'side': side, 'msg': msg, 'fuel': 6}
                        ops.append(op)
                        impl.append([[t, got[t]] for t in sides])
                        ctx.case(op, nontrivial=fwd is True)
                        bad = monitor(nsides, side, msg, got, quiet)
                        if bad:
                            ctx.fail(bad[0], bad[1], {'nsides': nsides, 'side': side, 'msg': msg, 'channel': ch},
                                     observed={'deliveries': {str(k): len(v) for k, v in got.items()}, 'hops': hops})
    ctx.sample({'op': ops[-1], 'deliveries': impl[-1]}, limit=2)
    for nsides in range(2, nmax + 1):
        sent, seen, errs, quiet = run_join(rp, nsides)
        ctx.case({'join': nsides}, nontrivial=True)
        bad = join_monitor(rp, nsides, sent, seen, errs, quiet)
        if bad:
            ctx.fail(bad[0], bad[1], {'join': nsides})
    ctx.obligation('a side that connects while the others exchange messages: what each of its forwarders receives as its subscription '
                   'goes live is delivered exactly once (2..%d sides)' % nmax, 'tie', True, '')
    close_cases(rp, ctx)
    roles_cases(rp, ctx)
    proxy_monitor_cases(rp, ctx)
    # message sequences: forwarders are stateless -> each message behaves as if alone
    rng = ctx.rng
    for _ in range(ctx.n(100, 2000)):
        nsides = rng.randint(2, 5)
        from radical.pilot import constants as rpc
        net, _ = build(rp, nsides)
        got = {s: [] for s in range(nsides)}
        for s in range(nsides):
            net.subscribe('mem://%d/%s' % (s, rpc.STATE_PUBSUB), lambda t, m, s=s: got[s].append(from_msg(m)))
        msgs = []
        for k in range(rng.randint(2, 6)):
            side = rng.randrange(nsides)
            m = {'origin': rng.choice([None, None, side, rng.randrange(nsides)]),
                 'fwd': rng.choice([None, False, True, True]), 'body': 100 + k}
            msgs.append((side, m))
            net.put('mem://%d/%s' % (side, rpc.STATE_PUBSUB), rpc.STATE_PUBSUB, to_msg(m))
        quiet = net.run(limit=2000)
        for side, m in msgs:
            g = {t: [x for x in got[t] if x['body'] == m['body']] for t in range(nsides)}
            ops.append({'op': 'publish', 'sides': list(range(nsides)), 'side': side, 'msg': m, 'fuel': 6})
            impl.append([[t, g[t]] for t in range(nsides)])
            ctx.case(ops[-1], nontrivial=m['fwd'] is True)
            bad = monitor(nsides, side, m, g, quiet)
            if bad:
                ctx.fail(bad[0] + ':in-sequence', bad[1], {'nsides': nsides, 'msgs': msgs})
    common.compare(ctx, 'bridge', ops, impl, what='delivery per side in an in-memory network of real forwarders')
    ctx.exhaustive = True
    ctx.rule = ('exhaustive: all marker combinations (origin in {absent, each of 3 modules} x fwd in {absent, False, True}) for both '
                'forwarder directions and 3 modules; every advance() class x fwd argument x prof argument x 3 states; all topologies of 1 client + 0..%d pilots x every originating side x '
                'origin marker x fwd x {control, state} channel; plus random message sequences; non-trivial = fwd flag set' % (nmax - 1))
    ctx.assume += ['ZMQ transport is a lossless bus delivering a copy to every subscriber (proxy.py creates plain PubSub bridges)',
                   'every side has a distinct module name (client / pilot uid); names containing each other are included (pilot.1, pilot.10, ...)']
    ctx.trusted += ['harness/props/c16.py in-memory pubsub network replacing ru.zmq.Publisher/Subscriber']


def replay_join(ctx, data):
    rp = rpload.load()
    n = data['input']['join']
    sent, seen, errs, quiet = run_join(rp, n)
    bad = join_monitor(rp, n, sent, seen, errs, quiet)
    print(sent, seen, errs); print(bad)
    return not bad


def replay_closure(ctx, data):
    rp = rpload.load()
    import radical.utils as ru
    i = data['input']['closure']
    captured = []
    class Pub(object):
        def __init__(self, channel, url=None, **kw): pass
        def put(self, topic, msg): captured.append(copy.deepcopy(msg))
    class Sub(object):
        def __init__(self, channel, topic=None, cb=None, url=None, **kw): self.cb = cb
    old = (ru.zmq.Publisher, ru.zmq.Subscriber)
    try:
        ru.zmq.Publisher, ru.zmq.Subscriber = Pub, Sub
        sess = object.__new__(rp.Session)
        sess._module, sess._log, sess._prof = mod_name(i['module']), rpload.NullLog(), rpload.NullLog()
        sess._to_stop = []
        sess._cfg = ru.Config(from_dict={'path': '.'})
        sess._reg = {'bridges.a.addr_sub': 'x', 'bridges.b.addr_pub': 'y'}
        sess.crosswire_pubsub('A', 'B', i['from_proxy'])
        try:
            sess._to_stop[0].cb('A', to_msg(i['msg']))
        except Exception as e:
            print('the closure raised', repr(e)); return False
    finally:
        ru.zmq.Publisher, ru.zmq.Subscriber = old
    print('forwarded:', captured)
    return True


def replay(ctx, data):
    if 'closure' in data['input']:
        return replay_closure(ctx, data)
    if 'join' in data['input']:
        return replay_join(ctx, data)
    rp = rpload.load()
    i = data['input']
    if i.get('kind') == 'proxy_monitor':
        r = run_proxy_monitor(rp, i['script'])
        print(r)
        ended = {(e[0], e[1]) for e in r['ended']}
        return not r['err'] and ('A', 1) in ended and ('A', 2) not in ended and ('B', 1) not in ended and 'A' in r['alive']
    if i.get('kind') == 'roles':
        msg = {'origin': None, 'fwd': i['fwd'], 'body': 7}
        got, quiet, errs = run_publish_roles(rp, 3, {int(k): v for k, v in i['subagents'].items()}, i['side'], msg, i['channel'])
        bad = monitor(3, i['side'], msg, got, quiet)
        print(got, quiet, errs, bad)
        return not errs and not bad
    if 'msgs' in i:
        return False
    if 'close' in i:
        a = i['close']
        published, got, quiet, post, requests = run_close(rp, a['nsides'], a['closer'], a['terminate'])
        bad = close_monitor(a['nsides'], a['closer'], published, got, quiet, post, requests)
        print('observed: published', [m.get('cmd') for m in published], 'received', {k: [x.get('cmd') for x in v] for k, v in got.items()}, bad)
        return not bad
    if 'rpc' in i:
        a = i['rpc']
        got, quiet, published, val = run_rpc(rp, a['nsides'], a['r'], a['h'], a['req_fwd'])
        bad = rpc_monitor(a['nsides'], a['r'], a['h'], published, got, quiet, val)
        print('observed: replies', {k: len(v) for k, v in got.items()}, 'result', val, bad)
        return not bad
    if 'advance' in i:
        a = i['advance']
        sent = run_advance(rp, a['cls'], a['fwd'], a['prof'], a['state'])
        flag = sent[0][1].get('fwd') if sent else None
        want = a['fwd'] if a['fwd'] is not None else (a['cls'] == 'AgentComponent')
        got, quiet, hops = run_publish(rp, 3, a['side'], {'origin': None, 'fwd': flag, 'body': 1}, 1)
        bad = monitor(3, a['side'], {'origin': None, 'fwd': want, 'body': 1}, got, quiet)
        print('observed: published fwd=%r' % flag, {k: len(v) for k, v in got.items()}, bad)
        return not bad
    got, quiet, hops = run_publish(rp, i['nsides'], i['side'], i['msg'], i['channel'])
    bad = monitor(i['nsides'], i['side'], i['msg'], got, quiet)
    print('observed:', {k: len(v) for k, v in got.items()}, 'hops', hops, bad)
    return not bad
