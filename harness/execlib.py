"""Runs the real script generators of the executor (AgentExecutingComponent /
Popen: _handle_task -> _create_exec_script, _create_launch_script, _launch_task)
and then the generated scripts themselves, with bash, in a scratch pilot
sandbox.  The 'executable' is a probe that records argv, environment, cwd and
rank; pre/post commands are probes that log their invocation and return a chosen
exit code.  What is compared / judged is what the user-visible contract is
about: what ran, with which arguments and environment, where, in which order,
and which exit code came back."""

import os
import stat
import queue
import shutil
import threading as mt
import subprocess as sp

import rpload

PROBE = r'''#!/bin/bash
# records how it was called; exit code taken from the file exit.<rank> of the probe directory.  The probe
# directory is written into the script (a named environment un-sets whatever the agent's environment has)
PROBE_DIR='@PROBE_DIR@'
r=${RP_RANK:-0}
printf '%s\0' "$#" "$@" > "$PROBE_DIR/argv.$r"
env -0              > "$PROBE_DIR/env.$r"
pwd                 > "$PROBE_DIR/cwd.$r"
echo "exe rank=$r" >> "$PROBE_DIR/log"
echo "probe-stdout-$r"
echo "probe-stderr-$r" 1>&2
code=0
test -f "$PROBE_DIR/exit.$r" && code=$(cat "$PROBE_DIR/exit.$r")
exit $code
'''

CMD = r'''#!/bin/bash
# usage: cmd <id> <exit code>: logs and returns the exit code
PROBE_DIR='@PROBE_DIR@'
# (rank 7 is what an outer RP task may have left in the environment of the executor: it is no rank of this task, a
#  command that sees it runs at launch level - the exec script sets the rank of every rank it starts)
r=${RP_RANK:--}
test "$r" = 7 && r=-
echo "cmd $1 rank=$r" >> "$PROBE_DIR/log"
exit $2
'''

MPIRUN = r'''#!/bin/bash
# stand-in for mpirun: starts N copies of the last argument one after the other with PMIX_RANK set;
# exit code: the first non-zero exit code of a rank
np=1
while test $# -gt 1; do
  case "$1" in
    -np) np=$2; shift ;;
  esac
  shift
done
ret=0
if test -n "$RPV_MPIRUN_PARALLEL"; then
  # the ranks run at the same time (as under a real mpirun); they are started highest rank first, rank 0 last
  pids=""
  i=$((np-1))
  while test $i -ge 0; do
    PMIX_RANK=$i "$1" &
    pids="$pids $!"
    sleep 0.3
    i=$((i-1))
  done
  for pid in $pids; do
    wait $pid
    r=$?
    test $ret -eq 0 && ret=$r
  done
  exit $ret
fi
i=0
while test $i -lt $np; do
  PMIX_RANK=$i "$1"
  r=$?
  test $ret -eq 0 && ret=$r
  i=$((i+1))
done
exit $ret
'''


class Obj(dict):
    __getattr__ = dict.get


class Prof(object):
    enabled = False
    def prof(self, *a, **k): pass


def write_x(path, text):
    with open(path, 'w') as f:
        f.write(text)
    os.chmod(path, os.stat(path).st_mode | stat.S_IEXEC | stat.S_IXGRP | stat.S_IXOTH)


class Sandbox(object):
    """scratch resource / session / pilot sandbox with the helper files the bootstrapper provides"""

    def __init__(self, root, sid='rp.session.verif.0001', pid='pilot.0000', pilot_dir=None):
        self.root  = os.path.realpath(root)
        self.sid, self.pid = sid, pid
        self.rsbox = '%s/radical.pilot.sandbox' % self.root
        self.ssbox = '%s/%s' % (self.rsbox, sid)
        self.psbox = pilot_dir or '%s/%s' % (self.ssbox, pid)
        self.probe_dir = '%s/probe' % self.root
        for d in (self.psbox + '/env', self.probe_dir, self.root + '/bin'):
            os.makedirs(d, exist_ok=True)
        write_x(self.psbox + '/prof', '#!/bin/sh\nexit 0\n')
        write_x(self.psbox + '/gtod', '#!/bin/sh\necho 0\n')
        for lm in ('fork', 'mpirun'):
            write_x(self.psbox + '/env/lm_%s.sh' % lm, '# launcher environment\nexport LM_ENV_LOADED=%s\n' % lm)
        self.probe  = self.root + '/bin/probe'
        self.cmd    = self.root + '/bin/cmd'
        self.mpirun = self.root + '/bin/mpirun'
        write_x(self.probe, PROBE.replace('@PROBE_DIR@', self.probe_dir)); write_x(self.cmd, CMD.replace('@PROBE_DIR@', self.probe_dir))
        write_x(self.mpirun, MPIRUN)
        # stand-in for radical-pilot-control (the exec script reports `task_startup_done` through it): records its call
        self.ctrl = self.root + '/bin/ctrl'
        write_x(self.ctrl, "#!/bin/sh\necho \"rank=${RP_RANK:--} $*\" >> '%s/ctrl.log'\nexit 0\n" % self.probe_dir)
        # a program of the same name as the probe on the AGENT's search path (the agent's virtualenv has a `python`, too):
        # a task that describes its executable by name and its own PATH must not end up running this one
        os.makedirs(self.root + '/decoy', exist_ok=True)
        write_x(self.root + '/decoy/probe', "#!/bin/sh\necho decoy >> '%s/decoy.ran'\nexit 0\n" % self.probe_dir)

    def clean_probe(self):
        shutil.rmtree(self.probe_dir, ignore_errors=True)
        os.makedirs(self.probe_dir)


def make_executor(rp, sb, rcfg_extra=None):
    """a real Popen executor, initialised by the real AgentExecutingComponent.initialize in the pilot sandbox"""
    import radical.pilot.agent as rpa
    from radical.pilot.agent.executing.popen import Popen
    from radical.pilot.agent.executing.base import AgentExecutingComponent
    p = object.__new__(Popen)
    p._uid, p._log, p._prof = 'agent_executing.0000', rpload.NullLog(), Prof()
    rcfg = Obj(resource_manager='FORK', new_session_per_task=False)
    rcfg.update(rcfg_extra or {})
    p._session = Obj(uid=sb.sid, reg_addr='tcp://10.0.0.1:10001', rcfg=rcfg,
                     cfg=Obj(pid=sb.pid, resource='local.localhost', resource_sandbox=sb.rsbox,
                             session_sandbox=sb.ssbox, pilot_sandbox=sb.psbox))
    Popen.session = property(lambda self: self._session) if not isinstance(getattr(Popen, 'session', None), property) else Popen.session
    p._reg  = {'bridges.control_pubsub': {'addr_pub': 'tcp://10.0.0.1:20001', 'addr_sub': 'tcp://10.0.0.1:20002'}}
    p._term = mt.Event(); p._term.set()
    p.register_input = p.register_output = p.register_publisher = lambda *a, **k: None
    p._cancel_list, p._cancel_lock = [], mt.RLock()
    orig = rpa.ResourceManager.create
    rpa.ResourceManager.create = classmethod(lambda cls, *a, **k: None)
    cwd = os.getcwd()
    os.chdir(sb.psbox)
    try:
        AgentExecutingComponent.initialize(p)
    finally:
        os.chdir(cwd)
        rpa.ResourceManager.create = orig
    p._tasks, p._check_lock, p._watch_queue = dict(), mt.Lock(), queue.Queue()
    p.rec = []
    p.advance = lambda *a, **k: p.rec.append(('advance', a, k))
    p.publish = lambda *a, **k: p.rec.append(('publish', a, k))
    return p


def make_launcher(rp, sb, ranks):
    """real Fork for one rank, real MPIRun (calling the stand-in mpirun) for more"""
    from radical.pilot.agent.launch_method.fork import Fork
    from radical.pilot.agent.launch_method.mpirun import MPIRun
    if ranks <= 1:
        o = object.__new__(Fork); o.name = 'FORK'; o.node_name = 'localhost'
        info = {'env': {}, 'env_sh': 'env/lm_fork.sh'}
    else:
        o = object.__new__(MPIRun); o.name = 'MPIRUN'
        info = {'env': {}, 'env_sh': 'env/lm_mpirun.sh', 'command': sb.mpirun, 'mpt': False, 'rsh': False,
                'ccmrun': '', 'dplace': '', 'omplace': '', 'mpi_version': '4.1', 'mpi_flavor': MPIRun.MPI_FLAVOR_OMPI}
    o._log, o._prof, o._lm_cfg, o._rm_info = rpload.NullLog(), Prof(), {}, {}
    o._pwd = sb.psbox
    o.init_from_info(info)
    return o


def make_task(rp, sb, descr, uid='task.000000', sandbox=None, gpus=None):
    """task dict as it reaches the executor: verified description, sandbox path, one slot per rank"""
    from radical.pilot.resource_config import Slot, RO
    td = rp.TaskDescription(from_dict=descr)
    td.verify()
    td = td.as_dict()
    sbox = sandbox or '%s/%s' % (sb.psbox, uid)
    slots = [Slot(cores=[RO(index=r, occupation=1.0)], gpus=[RO(index=g, occupation=1.0) for g in (gpus[r] if gpus else [])],
                  node_index=0, node_name='localhost', lfs=0, mem=0) for r in range(td['ranks'])]
    return {'uid': uid, 'description': td, 'task_sandbox_path': sbox, 'slots': slots, 'partition': 0,
            'state': 'AGENT_EXECUTING_PENDING'}


def run_task(rp, sb, p, task, launcher, env_extra=None, timeout=60):
    """real _handle_task (scripts + sp.Popen of the launch script); returns what happened"""
    sb.clean_probe()
    p._rm = Obj(find_launcher=lambda t: (launcher, launcher.name))
    env = dict(os.environ)
    for k in list(env):
        if k.startswith('RP_') or k.startswith('PROBE_') or k.startswith('PMIX'): del env[k]
    for k, v in (env_extra or {}).items():
        if k.startswith('PROBE_EXIT_'):
            open('%s/exit.%s' % (sb.probe_dir, k[len('PROBE_EXIT_'):]), 'w').write(str(v))
        else:
            env[k] = v
    old = dict(os.environ)
    os.environ.clear(); os.environ.update(env)
    try:
        p._handle_task(task)
        try:
            rc = task['proc'].wait(timeout=timeout)
        except sp.TimeoutExpired:
            task['proc'].kill(); rc = 'timeout'
    finally:
        os.environ.clear(); os.environ.update(old)
    res = {'rc': rc, 'ranks': {}, 'log': []}
    pd = sb.probe_dir
    if os.path.exists(pd + '/log'):
        res['log'] = open(pd + '/log').read().splitlines()
    for f in sorted(os.listdir(pd)):
        if f.startswith('argv.'):
            r = int(f.split('.')[1])
            raw = open('%s/argv.%d' % (pd, r), 'rb').read()
            argv = [x.decode('utf8', 'surrogateescape') for x in raw.split(b'\0')[:-1]]
            assert int(argv[0]) == len(argv) - 1, argv      # first field: $#
            argv = argv[1:]
            envd = {}
            for kv in open('%s/env.%d' % (pd, r), 'rb').read().split(b'\0'):
                if b'=' in kv:
                    k, v = kv.split(b'=', 1); envd[k.decode('utf8', 'replace')] = v.decode('utf8', 'surrogateescape')
            res['ranks'][r] = {'argv': argv, 'env': envd, 'cwd': open('%s/cwd.%d' % (pd, r)).read().rstrip('\n')}
    # the files the description names (independent of what the executor wrote into task['stdout_file']):
    # an absolute name as is, a relative one in the task sandbox, default <uid>.out / <uid>.err
    for key, dk, ext in (('stdout_file', 'stdout', 'out'), ('stderr_file', 'stderr', 'err')):
        name = task['description'].get(dk) or '%s.%s' % (task['uid'], ext)
        path = name if name.startswith('/') else '%s/%s' % (task['task_sandbox_path'], name)
        try:    res[key] = open(path).read()
        except Exception as e: res[key] = None
        res[key + '_recorded'] = (os.path.realpath(task.get(key) or '') == os.path.realpath(path))
    try:    res['launch_out'] = open('%s/%s.launch.out' % (task['task_sandbox_path'], task['uid'])).read()
    except Exception: res['launch_out'] = None
    return res
