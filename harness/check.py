"""./check Cxx [--tier quick|thorough] [--replay file]"""

import os
import sys
import json
import time
import shutil
import signal
import tempfile
import argparse
import importlib
import traceback

HERE = os.path.dirname(os.path.abspath(__file__))
sys.path.insert(0, HERE)

import common


def run_corpus(ctx, mod, prop):
    """the inputs on which earlier seeded changes were caught (seeded/<id>/replay.json, written when the seed was
    confirmed) are replayed first: a change that is caught once stays caught, whatever the random stream of a later
    version of the generators produces.  On a tree where the property holds each of them holds."""
    import io, glob, contextlib
    files = sorted(glob.glob(os.path.join(common.VERIF, 'seeded', prop.lower() + '-*', 'replay.json')))
    held = stale = 0
    for f in files:
        sid = os.path.basename(os.path.dirname(f))
        try:
            data = json.load(open(f))
            cwd = os.getcwd()
            with contextlib.redirect_stdout(io.StringIO()) as buf:
                ok = mod.replay(ctx, data)
            os.chdir(cwd)
        except Exception:
            stale += 1          # (an input in a format the harness no longer reads: not counted either way)
            os.chdir(ctx.scratch)
            continue
        ctx.case({'corpus': sid}, nontrivial=True)
        if ok:
            held += 1
        else:
            ctx.fail('corpus:%s:%s' % (sid, data.get('signature', '')),
                     'the input on which the seeded change %s was caught fails: %s ... %s'
                     % (sid, str(data.get('what'))[:300], buf.getvalue()[-300:]), data.get('input'))
    if files:
        ctx.obligation('corpus: %d inputs on which earlier seeded changes of this property were caught, replayed first '
                       '(%d hold, %d no longer readable)' % (len(files), held, stale), 'tie', True, '')


def main():
    ap = argparse.ArgumentParser()
    ap.add_argument('prop')
    ap.add_argument('--tier', default=os.environ.get('VERIF_TIER', 'quick'))
    ap.add_argument('--replay', default=None)
    ap.add_argument('--no-lean', action='store_true', help='development only')
    args = ap.parse_args()

    tier = args.tier if args.tier in ('quick', 'thorough') else 'quick'
    try:
        seed = int(os.environ.get('VERIF_SEED', '1'))
    except ValueError:
        seed = 1

    prop = args.prop.upper()
    ctx  = common.Ctx(prop, tier, seed)
    mod  = importlib.import_module('props.' + prop.lower())

    # every piece of real code runs with cwd in a scratch dir outside /repo, /verif
    scratch = tempfile.mkdtemp(prefix='rpverif_%s_' % prop)
    ctx.scratch = scratch
    os.chdir(scratch)
    # temporary files of this run - the harness's own and those the real code creates - live in a directory of
    # their own: concurrent runs do not see (or clean up) each other's files, and everything goes with the scratch dir
    tmp = os.path.join(scratch, 'tmp')
    os.makedirs(tmp)
    os.environ['TMPDIR'] = tmp
    tempfile.tempdir = tmp
    rc = 2
    try:
        if args.replay:
            data = json.load(open(os.path.join(common.VERIF, args.replay)
                                  if not os.path.isabs(args.replay) else args.replay))
            ok = mod.replay(ctx, data)
            print('replay %s: property %s on this input'
                  % (args.replay, 'HOLDS' if ok else 'FAILS'))
            rc = 0 if ok else 1
        else:
            if not args.no_lean:
                common.lean_check(ctx, getattr(mod, 'LEAN_TARGETS', None))
            try:
                run_corpus(ctx, mod, prop)
                mod.run(ctx)
            except Exception:
                # the harness no longer runs against this tree: a broken tie
                ctx.obligation('harness run of %s against the working tree' % prop,
                               'tie', False, traceback.format_exc()[-1500:])
            rc = common.finish(ctx)
    except KeyboardInterrupt:
        rc = 2
    except Exception:
        traceback.print_exc()
        # a crash of the machinery is never reported as "held"
        print('ERROR: check %s crashed' % prop)
        rc = 2
    finally:
        os.chdir('/')
        shutil.rmtree(scratch, ignore_errors=True)
    sys.stdout.flush()
    os._exit(rc)


if __name__ == '__main__':
    main()
