"""In-memory stand-ins for the environment of the real classes (session,
queues, pubsub, registry, loggers).  The real radical.pilot classes are created
with object.__new__ + attribute injection; everything below models the
*environment*, never the code under verification."""

import threading as mt

import rpload


class Session(object):
    def __init__(self):
        self.uid   = 'session.verif'
        self._log  = rpload.NullLog()
        self._prof = rpload.NullLog()
        self._rep  = rpload.NullLog()


def make_tmgr(rp):
    """a real TaskManager object without session/bridges: enough state for
    _update_tasks, _pilot_state_cb, _task_cb, wait_tasks"""
    import radical.utils as ru
    tm = object.__new__(rp.TaskManager)
    tm._uid         = 'tmgr.verif'
    tm._session     = Session()
    tm._log         = rpload.NullLog()
    tm._prof        = rpload.NullLog()
    tm._rep         = rpload.NullLog()
    tm._tasks       = dict()
    tm._task_info   = dict()
    tm._pilots      = dict()
    tm._pilots_lock = mt.RLock()
    tm._tasks_lock  = mt.RLock()
    tm._tcb_lock    = mt.RLock()
    tm._callbacks   = {m: dict() for m in rp.constants.TMGR_METRICS}
    tm._terminate   = mt.Event()
    tm._closed      = False
    tm.advanced     = []     # record of advance() calls
    def advance(things, state=None, publish=True, push=False, **kw):
        if not isinstance(things, list):
            things = [things]
        tm.advanced.append([(t['uid'], state or t.get('state')) for t in things])
    tm.advance = advance
    return tm


def make_task(rp, tm, uid, state='NEW', pilot=None):
    td = rp.TaskDescription({'executable': '/bin/true', 'uid': uid})
    if pilot is not None:
        td.pilot = pilot
    t = rp.Task(tm, td, 'client')
    t._state = state
    tm._tasks[uid] = t
    tm._task_info[uid] = {}
    return t
