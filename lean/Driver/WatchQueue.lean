import Driver.Util
import RPVerif.Model.WatchQueue
open Lean RPVerif.WatchQueue

namespace Driver.WatchQueue

def handle (j : Json) : Json :=
  if jstr j "op" == "watchqueue" then
    let limit := jnat j "limit"
    let r := (jarr j "ops").foldl (fun (acc : WQ × List Json) o =>
      let a := asArr o
      let op : Op := if asStr a[0]! == "enq" then .enq ((asArr a[1]!).map asNat) else .pass ((asArr a[1]!).map asNat)
      let w' := step limit acc.1 op
      -- what `_check_running` is handed in this pass: the watch list before the exited ones are taken out
      let seen := match op with
                  | .pass _ => acc.1.watching ++ acc.1.queue.take limit
                  | .enq _  => []
      (w', acc.2 ++ [Json.mkObj [("seen", jl (seen.map jn)), ("queued", jn w'.queue.length)]])) (({} : WQ), [])
    jl r.2
  else Json.str "bad-op"

end Driver.WatchQueue
