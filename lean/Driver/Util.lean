import Lean.Data.Json
open Lean

namespace Driver

def jstr (j : Json) (k : String) : String :=
  match j.getObjValAs? String k with | .ok s => s | .error _ => ""

def jnat (j : Json) (k : String) : Nat :=
  match j.getObjValAs? Nat k with | .ok s => s | .error _ => 0

def jint (j : Json) (k : String) : Int :=
  match j.getObjValAs? Int k with | .ok s => s | .error _ => 0

def jbool (j : Json) (k : String) : Bool :=
  match j.getObjValAs? Bool k with | .ok s => s | .error _ => false

def jarr (j : Json) (k : String) : List Json :=
  match j.getObjVal? k with
  | .ok (.arr a) => a.toList
  | _ => []

def jhas (j : Json) (k : String) : Bool :=
  match j.getObjVal? k with
  | .ok .null => false
  | .ok _ => true
  | .error _ => false

def jget (j : Json) (k : String) : Json := j.getObjValD k

def asArr (j : Json) : List Json :=
  match j with | .arr a => a.toList | _ => []

def asStr (j : Json) : String :=
  match j with | .str s => s | _ => ""

def asNat (j : Json) : Nat :=
  match j.getNat? with | .ok n => n | .error _ => 0

def asInt (j : Json) : Int :=
  match j.getInt? with | .ok n => n | .error _ => 0

def jl (xs : List Json) : Json := Json.arr xs.toArray

def jnatOpt (j : Json) (k : String) : Option Nat :=
  match j.getObjValAs? Nat k with | .ok s => some s | .error _ => none

def jn (n : Nat) : Json := Json.num (JsonNumber.fromNat n)
def ji (n : Int) : Json := Json.num (JsonNumber.fromInt n)

end Driver
