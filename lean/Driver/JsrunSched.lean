import Driver.Util
import Driver.Sched
import RPVerif.Model.JsrunSched
open Lean RPVerif.Sched RPVerif.JsrunSched

namespace Driver.JsrunSched

def jrslot (s : RSlot) : Json :=
  jl [jn s.node, jl (s.cores.map (fun c => jl (c.map jn))), jl (s.gpus.map jn), jn s.lfs, jn s.mem]

def jerr : Err → Json
  | .assertion => Json.str "AssertionError" | .value => Json.str "ValueError"
  | .runtime => Json.str "RuntimeError" | .type => Json.str "TypeError"

def jout : JOut → Json
  | .placed sl => jl (sl.map jrslot)
  | .wait      => Json.str "wait"
  | .raised e  => jerr e
  | .released  => Json.str "released"
  | .unknown   => Json.str "unknown"

def handle (j : Json) : Json :=
  let op := jstr j "op"
  if op == "jsrunsched" then
    let cj := jget j "cfg"
    let cfg : JCfg := { cpn := jnat cj "cpn", gpn := jnat cj "gpn", lfsPn := jnat cj "lfs", memPn := jnat cj "mem",
                        scattered := jbool cj "scattered" }
    let st0 : JState := { nodes := (jarr j "nodes").map Driver.Sched.nodeOf }
    let r := (jarr j "ops").foldl (fun (acc : JState × List Json) o =>
      let a := asArr o
      let jop : JOp :=
        if asStr a[0]! == "alloc" then
          let q := a[1]!
          .alloc { uid := jnat q "uid", ranks := jnat q "ranks", cpr := jnat q "cpr", gpr := jnat q "gpr",
                   lfs := jnat q "lfs", mem := jnat q "mem" }
        else .rel (asNat a[1]!)
      let (st', out) := jstep cfg acc.1 jop
      (st', acc.2 ++ [Json.mkObj [("out", jout out), ("nodes", jl (st'.nodes.map Driver.Sched.jnode)),
                                  ("offset", jn st'.offset), ("active", jn st'.active)]])) (st0, [])
    jl r.2
  else if op == "jsrunshape" then
    let s := shape (jnat j "ranks") (jnat j "cpr") (jnat j "gpr") (jnat j "lfs") (jnat j "mem")
    jl [jn s.reqSlots, jn s.ranksPerSlot, jn s.coresPerSlot, jn s.gpusPerSlot, jn s.lfsPerSlot, jn s.memPerSlot]
  else Json.str "bad-op"

end Driver.JsrunSched
