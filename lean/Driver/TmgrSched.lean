import Driver.Util
import Driver.States
import RPVerif.Model.TmgrSched
import RPVerif.Model.States
import RPVerif.Gen.TmgrSched
open Lean RPVerif.TmgrSched

namespace Driver.TmgrSched

def taskOf (j : Json) : Task :=
  { uid := jnat j "uid", pilot := jnatOpt j "pilot", cores := jnat j "cores" }

def jout : Out → Json
  | .sched u => jl [Json.str "sched", jn u]
  | .fwd u p => jl [Json.str "fwd", jn u, jn p]

def jerr : Option Err → Json
  | none => Json.null
  | some .valueError => Json.str "ValueError"
  | some .runtimeError => Json.str "RuntimeError"

def jrole : Role → Json
  | .none => Json.null | .added => "added" | .removed => "removed"

def jstate (s : S) : Json :=
  Json.mkObj [("pids", jl (s.pids.map jn)), ("wait", jl (s.wait.map (fun t => jn t.uid))),
              ("early", jl (s.early.map (fun e => jl [jn e.1, jn e.2.uid]))),
              ("pilots", jl (s.pilots.map (fun p => jl [jn p.pid, jrole p.role,
                  (match p.state with | some v => jn v | none => Json.null), Json.bool p.known, ji p.used, jn p.hwm])))]

/-- pilot state notifications go through `_pilot_state_progress` (C14 model) first -/
def progressed (full : List (Nat × RPVerif.States.St)) (pid : Nat) (tgt : RPVerif.States.St) :
    Option RPVerif.States.St :=
  let n := Driver.States.nOf "pilot"
  match full.find? (fun p => p.1 = pid) with
  | none =>
    -- current None (-1): everything from NEW up is progress
    some tgt
  | some p =>
    match RPVerif.States.pilotProgress n p.2 tgt with
    | .error _ => none
    | .ok (t, _) => some t

def runOps (bf : Bool) (cfg : BFCfg) (ops : List Json) : List Json :=
  let n := Driver.States.nOf "pilot"
  let step := fun (acc : S × List (Nat × RPVerif.States.St) × List Json) (o : Json) =>
    let s := acc.1; let full := acc.2.1; let outs := acc.2.2
    let kind := jstr o "op"
    if kind == "pilot_state" then
      let pid := jnat o "pid"
      let tgt := Driver.States.ofName "pilot" (jstr o "state")
      match progressed full pid tgt with
      | none => (s, full, outs ++ [Json.mkObj [("outs", jl []), ("err", Json.str "ValueError"), ("state", jstate s)]])
      | some t =>
        let full' := (full.filter (fun p => p.1 ≠ pid)) ++ [(pid, t)]
        let r := if bf then bfStep cfg 10 s (.pilotState pid (some (t.val n)))
                 else rrStep s (.pilotState pid (some (t.val n)))
        (r.1, full', outs ++ [Json.mkObj [("outs", jl (r.2.1.map jout)), ("err", jerr r.2.2), ("state", jstate r.1)]])
    else if kind == "pilot_states" then
      -- ONE notification naming several pilots (Backfilling): each goes through `_pilot_state_progress` in turn; a refused
      -- transition raises out of the loop (the pilots before it are recorded, update_pilots is not called)
      let walk := (jarr o "ups").foldl (fun (a : List (Nat × RPVerif.States.St) × List (Nat × Option Nat) × Bool) u =>
        if a.2.2 then a else
        let pid := jnat u "pid"
        match progressed a.1 pid (Driver.States.ofName "pilot" (jstr u "state")) with
        | none   => (a.1, a.2.1, true)
        | some t => ((a.1.filter (fun p => p.1 ≠ pid)) ++ [(pid, t)], a.2.1 ++ [(pid, some (t.val n))], false)) (full, [], false)
      if walk.2.2 then
        let s' := { s with pilots := (touchAll s.pilots walk.2.1).1 }
        (s', walk.1, outs ++ [Json.mkObj [("outs", jl []), ("err", Json.str "ValueError"), ("state", jstate s')]])
      else
        let r := bfPilotStates RPVerif.Gen.bfUpdateAnyEligible cfg s walk.2.1
        (r.1, walk.1, outs ++ [Json.mkObj [("outs", jl (r.2.1.map jout)), ("err", jerr r.2.2), ("state", jstate r.1)]])
    else if kind == "mixed_states" then
      -- ONE notification naming pilots and tasks (Backfilling)
      let things := jarr o "things"
      let pilots := things.filter (fun x => match jget x "pid" with | .null => false | _ => true)
      let tasks  := things.filter (fun x => match jget x "pid" with | .null => true | _ => false)
      let walk := pilots.foldl (fun (a : List (Nat × RPVerif.States.St) × List (Nat × Option Nat) × Bool) u =>
        if a.2.2 then a else
        let pid := jnat u "pid"
        match progressed a.1 pid (Driver.States.ofName "pilot" (jstr u "state")) with
        | none   => (a.1, a.2.1, true)
        | some t => ((a.1.filter (fun p => p.1 ≠ pid)) ++ [(pid, t)], a.2.1 ++ [(pid, some (t.val n))], false)) (full, [], false)
      if walk.2.2 then
        let s' := { s with pilots := (touchAll s.pilots walk.2.1).1 }
        (s', walk.1, outs ++ [Json.mkObj [("outs", jl []), ("err", Json.str "ValueError"), ("state", jstate s')]])
      else
        let r := bfMixed RPVerif.Gen.bfUpdateAnyEligible RPVerif.Gen.bfStatesPilotsFirst cfg 10 s walk.2.1
                   (tasks.map (fun t => (jnat t "uid", jnatOpt t "pilot", jnat t "sv", jnat t "cores")))
        (r.1, walk.1, outs ++ [Json.mkObj [("outs", jl (r.2.1.map jout)), ("err", jerr r.2.2), ("state", jstate r.1)]])
    else
      let op : Op :=
        if kind == "add" then .addPilots ((jarr o "pids").map asNat) ((jarr o "cores").map asNat)
        else if kind == "remove" then .removePilots ((jarr o "pids").map asNat)
        else if kind == "work" then .work ((jarr o "tasks").map taskOf)
        else .taskStates ((jarr o "tasks").map (fun t => (jnat t "uid", jnatOpt t "pilot", jnat t "sv", jnat t "cores")))
      let r := if bf then bfStep cfg 10 s op else rrStep s op
      -- a fresh pilot gets state NEW through add_pilots' _update_pilot_states
      let full' := if kind == "add" && r.2.2 == none then
          (jarr o "pids").map asNat |>.foldl (fun f pid =>
            if f.any (fun p => p.1 = pid) then f else f ++ [(pid, RPVerif.States.St.nf 0)]) full
        else full
      (r.1, full', outs ++ [Json.mkObj [("outs", jl (r.2.1.map jout)), ("err", jerr r.2.2), ("state", jstate r.1)]])
  (ops.foldl step ({}, [], [])).2.2

def handle (j : Json) : Json :=
  let op := jstr j "op"
  let cfg : BFCfg := { startVal := jnat j "start", stopVal := jnat j "stop", hwmPct := jnat j "hwm" }
  if op == "rr" then jl (runOps false cfg (jarr j "ops"))
  else if op == "bf" then jl (runOps true cfg (jarr j "ops"))
  else Json.str "bad-op"

end Driver.TmgrSched
