import Driver.Util
import RPVerif.Model.Shell
import RPVerif.Model.Script
open Lean RPVerif.Shell RPVerif.Script

namespace Driver.Shell

def js (s : Str) : Json := Json.str (String.ofList s)
def jso (o : Option Str) : Json := match o with | some s => js s | none => Json.null

def entryOf (j : Json) : Entry :=
  match j.getObjVal? "all" with
  | .ok v => .all (asNat v)
  | .error _ => .perRank ((jarr j "per").map (fun e => (asNat (asArr e)[0]!, (asArr (asArr e)[1]!).map asNat)))

def evJson : Ev → Json
  | .cmd c => jn c
  | .exe => Json.str "exe"

def handle (j : Json) : Json :=
  let op := jstr j "op"
  if op == "execline" then
    let line := execLine (jstr j "exe").toList ((jarr j "args").map (fun a => (asStr a).toList))
    Json.mkObj [("line", js line),
                ("words", match words line with | some ws => jl (ws.map js) | none => Json.null)]
  else if op == "words" then
    match words (jstr j "line").toList with
    | some ws => jl (ws.map js)
    | none => Json.null
  else if op == "export" then
    let line := exportLine (jstr j "k").toList (jstr j "v").toList
    Json.mkObj [("line", js line),
                ("parsed", match exported line with | some (k, v) => jl [js k, js v] | none => Json.null)]
  else if op == "rpenv" then
    let r := sboxRef (jbool j "cw") (jstr j "pwd").toList (jstr j "sbox").toList
    Json.mkObj [("gpr", js (gprStr (jnat j "gpr16"))), ("ref", js r),
                ("expanded", js (expandHead pilotVar (jstr j "pwd").toList r))]
  else if op == "run" then
    let codes : List (Nat × Nat) := (jarr j "codes").map (fun e => (asNat (asArr e)[0]!, asNat (asArr e)[1]!))
    let oracle : Nat → Nat := fun c => match codes.find? (fun e => e.1 = c) with | some e => e.2 | none => 0
    let pre := extendPre ((jarr j "pre").map entryOf)
                 (jnatOpt j "omp")
                 (match j.getObjVal? "cuda" with
                  | .ok (.arr a) => some (a.toList.map (fun e => (asNat (asArr e)[0]!, (asArr (asArr e)[1]!).map asNat)))
                  | _ => none)
                 ((jarr j "platform").map asNat)
    let l : LaunchScript := { exec := { ranks := jnat j "ranks", pre := pre, post := (jarr j "post").map entryOf },
                              preLaunch := (jarr j "pre_launch").map asNat, postLaunch := (jarr j "post_launch").map asNat }
    let r := runLaunch l oracle ((jarr j "exe_codes").map asNat)
    Json.mkObj [("rc", jn r.2),
                ("events", jl (r.1.map (fun e => match e with
                    | .lcmd c => Json.mkObj [("l", jn c)]
                    | .rank rk evs => Json.mkObj [("rank", jn rk), ("evs", jl (evs.map evJson))])))]
  else if op == "envorder" then
    -- kinds of the lines of the task environment section, in order
    let named := if jbool j "named" then some (([] : List Nat), ([] : List (Nat × Nat))) else none
    let acts := taskEnvActs named ((List.range (jnat j "nenv")).map (fun i => (i, 0)))
    jl (acts.map (fun a => match a with | .source _ _ => Json.str "named" | .export _ _ => Json.str "export"))
  else Json.str "bad-op"

end Driver.Shell
