import Driver.Util
import Driver.States
import RPVerif.Model.Wait
open Lean RPVerif.States RPVerif.Wait

namespace Driver.Wait

def reqOf (kind : String) (j : Json) : Req :=
  match j with
  | .null  => .none
  | .str s => .one (Driver.States.ofName kind s)
  | .arr a => .many (a.toList.map (fun x => Driver.States.ofName kind (asStr x)))
  | _      => .none

/-- a trajectory given as a finite list, constant after its end -/
def trajOf (kind : String) (j : Json) : Nat → St :=
  let l := (asArr j).map (fun x => Driver.States.ofName kind (asStr x))
  fun k => l.getD k (l.getLastD (.nf 0))

def res (kind : String) : Option (Nat × St) → Json
  | none => Json.str "spin"
  | some (k, s) => jl [jn k, Driver.States.jst kind s]

def resL (kind : String) : Option (Nat × List St) → Json
  | none => Json.str "spin"
  | some (k, ss) => jl [jn k, Driver.States.jsts kind ss]

def handle (j : Json) : Json :=
  let op := jstr j "op"
  let to := jnat j "to"
  let fuel := jnat j "fuel"
  if op == "task_wait" then
    res "task" (entityWait (reqOf "task" (jget j "req")) (trajOf "task" (jget j "traj")) to fuel)
  else if op == "pilot_wait" then
    res "pilot" (entityWait (reqOf "pilot" (jget j "req")) (trajOf "pilot" (jget j "traj")) to fuel)
  else if op == "wait_tasks" then
    let trs := (jarr j "trajs").map (trajOf "task")
    let traj := fun i k => (trs.getD i (fun _ => .nf 0)) k
    resL "task" (waitTasks (Driver.States.nOf "task") (reqOf "task" (jget j "req")) traj (List.range trs.length) to fuel)
  else if op == "wait_pilots" then
    let trs := (jarr j "trajs").map (trajOf "pilot")
    let traj := fun i k => (trs.getD i (fun _ => .nf 0)) k
    resL "pilot" (waitPilots (reqOf "pilot" (jget j "req")) traj (List.range trs.length) to fuel)
  else Json.str "bad-op"

end Driver.Wait
