import Driver.Util
import RPVerif.Model.Descr
import RPVerif.Gen.Descr
open Lean RPVerif.Descr

namespace Driver.Descr

def vOf (j : Json) : V :=
  match j with
  | .null => .none
  | .bool b => .bool b
  | .str s => .str s
  | .num _ => .int (asInt j)
  | .obj _ => .flt (jint j "f")
  | _ => .none

def jv : V → Json
  | .none => Json.null
  | .bool b => Json.bool b
  | .int n => ji n
  | .flt n => Json.mkObj [("f", ji n)]
  | .str s => Json.str s

def dictOf (j : Json) : Dict :=
  let given : List (String × V) := match j with
    | .obj kvs => kvs.toList.map (fun p => (p.1, vOf p.2))
    | _ => []
  fun k => match given.find? (fun p => p.1 == k) with
           | some p => p.2
           | none => match RPVerif.Gen.descrDefaults.find? (fun p => p.1 == k) with
                     | some p => p.2
                     | none => .str ""

def resOf (j : Json) : OldRes :=
  let l := asArr j
  match l with
  | [] => .ints []
  | x :: _ =>
    match x with
    | .num _ => .ints (l.map asNat)
    | .arr _ => .lists (l.map (fun y => (asArr y).map asNat))
    | .obj _ => .pairs (l.map (fun y => (jnat y "index", jnat y "occ")))
    | _ => .ints []

def jpairs (l : List (Nat × Nat)) : Json := jl (l.map (fun p => jl [jn p.1, jn p.2]))

def jslot (s : Slot) : Json :=
  Json.mkObj [("cores", jpairs s.cores), ("gpus", jpairs s.gpus), ("lfs", jn s.lfs), ("mem", jn s.mem),
              ("node_index", jn s.nodeIndex), ("node_name", Json.str s.nodeName)]

def jres : OldRes → Json
  | .ints l => jl (l.map jn)
  | .pairs l => jpairs l
  | .lists l => jl (l.map (fun x => jl (x.map jn)))

def handle (j : Json) : Json :=
  let op := jstr j "op"
  if op == "verify" then
    let keys := (jarr j "keys").map asStr
    -- tabulated keys: requested ones + every deprecated name + use_mpi/ranks (see C19_driver_sound)
    let ks := keys ++ RPVerif.Gen.aliases.map (·.old) ++ ["use_mpi", "ranks"]
    match verifyFast RPVerif.Gen.modeChecks RPVerif.Gen.aliases RPVerif.Gen.defaultMode ks (dictOf (jget j "d")) with
    | none => Json.str "ValueError"
    | some l => Json.mkObj (keys.map (fun k => (k, jv (ofList l k))))
  else if op == "to_new" then
    let o := jget j "old"
    let os : OldSlot := { cores := resOf (jget o "cores"), gpus := resOf (jget o "gpus"), lfs := jnat o "lfs",
                          mem := jnat o "mem", nodeIndex := jnat o "node_index", nodeName := jstr o "node_name" }
    match toNew os with
    | none => Json.str "ValueError"
    | some s => jslot s
  else if op == "slot_init" then
    let o := jget j "slot"
    let rs := fun (x : Json) =>
      let form := jstr x "form"
      let l := jarr x "items"
      if form == "ints" then InitRes.ints (l.map asNat)
      else if form == "dicts" then InitRes.dicts (l.map (fun y => (jnat y "index", jnat y "occ")))
      else InitRes.ros (l.map (fun y => (jnat y "index", jnat y "occ")))
    jslot (slotInit (rs (jget o "cores")) (rs (jget o "gpus")) (jnat o "lfs") (jnat o "mem") (jnat o "node_index") (jstr o "node_name"))
  else if op == "to_new_list" then
    let mk := fun (o : Json) => ({ cores := resOf (jget o "cores"), gpus := resOf (jget o "gpus"), lfs := jnat o "lfs",
                                   mem := jnat o "mem", nodeIndex := jnat o "node_index", nodeName := jstr o "node_name" } : OldSlot)
    match toNewList ((jarr j "olds").map mk) with
    | none => Json.str "ValueError"
    | some l => jl (l.map jslot)
  else if op == "to_old" then
    let o := jget j "new"
    let pr := fun (x : Json) => (asArr x).map (fun y => (jnat y "index", jnat y "occ"))
    let s : Slot := { cores := pr (jget o "cores"), gpus := pr (jget o "gpus"), lfs := jnat o "lfs",
                      mem := jnat o "mem", nodeIndex := jnat o "node_index", nodeName := jstr o "node_name" }
    let r := toOld s
    Json.mkObj [("cores", jres r.cores), ("gpus", jres r.gpus), ("lfs", jn r.lfs), ("mem", jn r.mem),
                ("node_index", jn r.nodeIndex), ("node_name", Json.str r.nodeName)]
  else Json.str "bad-op"

end Driver.Descr
