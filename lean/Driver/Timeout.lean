import Driver.Util
import RPVerif.Model.Timeout
open Lean RPVerif.Timeout

namespace Driver.Timeout

def evOf (a : Array Json) : Nat × Ev :=
  let t := asNat a[0]!
  let k := asStr a[1]!
  if k == "reg" then (t, .reg (asNat a[2]!) (asNat a[3]!) (asNat a[4]!))
  else if k == "done" then (t, .done (asNat a[2]!) (asNat a[3]!))
  else (t, .pass)

def handle (j : Json) : Json :=
  if jstr j "op" == "timeout" then
    let evs := (jarr j "events").map (fun e => evOf (asArr e).toArray)
    let r := evs.foldl (fun (acc : TW × List Json) te =>
      let (w', cs) := step acc.1 te.1 te.2
      (w', acc.2 ++ [jl (cs.map jn)])) (({} : TW), [])
    Json.mkObj [("cancels", jl r.2), ("table", jl (r.1.table.map (fun e => jl [jn e.1, jn e.2])))]
  else Json.str "bad-op"

end Driver.Timeout
