import Driver.Util
import RPVerif.Model.NodeList
open Lean RPVerif.NodeList

namespace Driver.NodeList

def occOf (j : Json) : Option Int := match j with | .null => none | v => some (asInt v)
def occJson (o : Option Int) : Json := match o with | some v => ji v | none => Json.null
def pairs (l : List (Nat × Nat)) : Json := jl (l.map (fun e => jl [jn e.1, jn e.2]))
def pairsOf (j : Json) : List (Nat × Nat) := (asArr j).map (fun e => (asNat (asArr e)[0]!, asNat (asArr e)[1]!))

def slotJson (s : ASlot) : Json :=
  Json.mkObj [("node", jn s.node), ("cores", pairs s.cores), ("gpus", pairs s.gpus), ("lfs", jn s.lfs), ("mem", jn s.mem)]
def slotOf (j : Json) : ASlot :=
  { node := jnat j "node", cores := pairsOf (jget j "cores"), gpus := pairsOf (jget j "gpus"), lfs := jnat j "lfs", mem := jnat j "mem" }

def rrOf (j : Json) : RR :=
  { nCores := jnat j "n_cores", coreOcc := jnat j "core_occ", nGpus := jnat j "n_gpus", gpuOcc := jnat j "gpu_occ",
    lfs := jnat j "lfs", mem := jnat j "mem" }

def nodeJson (n : ANode) : Json :=
  Json.mkObj [("cores", jl (n.cores.map occJson)), ("gpus", jl (n.gpus.map occJson)), ("lfs", ji n.lfs), ("mem", ji n.mem)]

def handle (j : Json) : Json :=
  let op := jstr j "op"
  if op == "nodelist" then
    let nodes : List ANode := (jarr j "nodes").mapIdx (fun i nj =>
      { index := i, cores := (jarr nj "cores").map occOf, gpus := (jarr nj "gpus").map occOf, lfs := jint nj "lfs", mem := jint nj "mem" })
    let l0 : NL := { nodes := nodes, cpn := jnat j "cpn", gpn := jnat j "gpn", lfsPn := jnat j "lfs_pn", memPn := jnat j "mem_pn" }
    let r := (jarr j "ops").foldl (fun (acc : NL × List (Nat × List ASlot) × List Json) o =>
      let a := asArr o
      if asStr a[0]! == "find" then
        match findSlots acc.1 (rrOf a[2]!) (asNat a[3]!) with
        | (.error .value, l) => (l, acc.2.1, acc.2.2 ++ [Json.str "ValueError"])
        | (.error _, l)      => (l, acc.2.1, acc.2.2 ++ [Json.str "Error"])
        | (.none, l)         => (l, acc.2.1, acc.2.2 ++ [Json.null])
        | (.slots ss, l)     => (l, acc.2.1 ++ [(asNat a[1]!, ss)], acc.2.2 ++ [jl (ss.map slotJson)])
      else if asStr a[0]! == "update" then
        -- a repeated pilot update: the node list the application holds is not touched
        (acc.1, acc.2.1, acc.2.2 ++ [Json.str "updated"])
      else if asStr a[0]! == "alloc" then
        match allocApp acc.1 (asNat a[2]!) (slotOf a[3]!) with
        | some l => (l, acc.2.1 ++ [(asNat a[1]!, [slotOf a[3]!])], acc.2.2 ++ [Json.str "ok"])
        | none   => (acc.1, acc.2.1, acc.2.2 ++ [Json.str "Error"])
      else
        match acc.2.1.find? (fun e => e.1 = asNat a[1]!) with
        | some e => (releaseSlots acc.1 e.2, acc.2.1.filter (fun x => x.1 ≠ e.1), acc.2.2 ++ [Json.str "released"])
        | none   => (acc.1, acc.2.1, acc.2.2 ++ [Json.str "unknown"])) (l0, [], [])
    Json.mkObj [("answers", jl r.2.2), ("nodes", jl (r.1.nodes.map nodeJson)), ("index", ji r.1.index)]
  else Json.str "bad-op"

end Driver.NodeList
