import Driver.Util
import RPVerif.Model.States
import RPVerif.Gen.States
open Lean RPVerif.States

namespace Driver.States

def table (kind : String) : List (String × Nat) :=
  if kind == "pilot" then RPVerif.Gen.pilotStateValues else RPVerif.Gen.taskStateValues

def nOf (kind : String) : Nat := (table kind).length - 3

def ofName (kind : String) (s : String) : St :=
  if s == "DONE" then .done else if s == "FAILED" then .failed
  else if s == "CANCELED" then .canceled
  else match (table kind).find? (fun p => p.1 == s) with
       | some p => .nf p.2
       | none   => .nf 999

def toName (kind : String) : St → String
  | .done => "DONE" | .failed => "FAILED" | .canceled => "CANCELED"
  | .nf i => match (table kind).find? (fun p => p.2 == i) with
             | some p => p.1
             | none   => s!"?{i}"

def errName : Err → String
  | .valueError => "ValueError" | .runtimeError => "RuntimeError"

def jst (kind : String) (s : St) : Json := Json.str (toName kind s)
def jsts (kind : String) (ss : List St) : Json := jl (ss.map (jst kind))

def prog (kind : String) (r : Except Err (St × List St)) : Json :=
  match r with
  | .error e => jl [Json.str "err", Json.str (errName e)]
  | .ok (s, ps) => jl [Json.str "ok", jst kind s, jsts kind ps]

def taskOf (j : Json) : Task :=
  { uid := jnat j "uid", state := ofName "task" (jstr j "state"),
    pilot := jnatOpt j "pilot", detail := jnatOpt j "detail" }

def updOf (j : Json) : Upd :=
  { uid := jnat j "uid", state := ofName "task" (jstr j "state"), detail := jnatOpt j "detail" }

def jopt : Option Nat → Json
  | some n => jn n | none => Json.null

def jtask (t : Task) : Json :=
  Json.mkObj [("uid", jn t.uid), ("state", jst "task" t.state),
              ("pilot", jopt t.pilot), ("detail", jopt t.detail)]

def handle (j : Json) : Json :=
  let op := jstr j "op"
  let kind := jstr j "kind"
  if op == "prog" then
    let c := ofName kind (jstr j "cur"); let t := ofName kind (jstr j "tgt")
    if kind == "pilot" then prog kind (pilotProgress (nOf kind) c t)
    else prog kind (taskProgress (nOf kind) c t)
  else if op == "collapse" then
    match collapse (nOf kind) ((jarr j "states").map (fun x => ofName kind (asStr x))) with
    | some s => jst kind s
    | none => Json.null
  else if op == "tupdate" then
    let t : Task := { uid := 0, state := ofName "task" (jstr j "cur"), pilot := none, detail := none }
    match taskUpdate (nOf "task") t { uid := 0, state := ofName "task" (jstr j "tgt") } (jbool j "reconnect") with
    | .error e => jl [Json.str "err", Json.str (errName e)]
    | .ok t' => jl [Json.str "ok", jst "task" t'.state]
  else if op == "pupdate" then
    match pilotUpdate (nOf "pilot") (ofName "pilot" (jstr j "cur")) (ofName "pilot" (jstr j "tgt")) with
    | .error e => jl [Json.str "err", Json.str (errName e)]
    | .ok s => jl [Json.str "ok", jst "pilot" s]
  else if op == "batches" then
    let ts := (jarr j "tasks").map taskOf
    -- each batch enters through `_state_sub_cb` (what it hands to `_update_tasks`: Gen.stateSubPassesAll)
    let bs := (jarr j "batches").map (fun b => subBatch RPVerif.Gen.stateSubPassesAll ((asArr b).map updOf))
    let r := runBatches (nOf "task") ts bs
    Json.mkObj [("tasks", jl (r.1.map jtask)),
                ("cbs", jl (r.2.map (fun p => jl [jn p.1, jst "task" p.2])))]
  else if op == "pilotcb" then
    let ts := (jarr j "tasks").map taskOf
    let ps := (jarr j "pilots").map (fun p => ((asArr p).headD Json.null |> asNat,
                                               ofName "pilot" (asStr ((asArr p).getD 1 Json.null))))
    match pilotStateCb (nOf "task") ts ps with
    | .error e => jl [Json.str "err", Json.str (errName e)]
    | .ok (ts', pubs) => Json.mkObj [("tasks", jl (ts'.map jtask)), ("pubs", jl (pubs.map jn))]
  else if op == "pilotcbs" then
    -- several invocations of the callback, one after the other
    let ts := (jarr j "tasks").map taskOf
    let calls := (jarr j "calls").map (fun c => (asArr c).map (fun p =>
                   ((asArr p).headD Json.null |> asNat, ofName "pilot" (asStr ((asArr p).getD 1 Json.null)))))
    let r := calls.foldl (fun (acc : Except Err (Tasks × List Nat)) ps =>
               match acc with
               | .error e => .error e
               | .ok (ts, pubs) =>
                 match pilotStateCb (nOf "task") ts ps with
                 | .error e => .error e
                 | .ok (ts', pubs') => .ok (ts', pubs ++ pubs')) (.ok (ts, []))
    match r with
    | .error e => jl [Json.str "err", Json.str (errName e)]
    | .ok (ts', pubs) => Json.mkObj [("tasks", jl (ts'.map jtask)), ("pubs", jl (pubs.map jn))]
  else if op == "cbchain" then
    let cbs := fun (k : String) => (jarr j k).map (fun c => ({ id := jnat c "id", raises := jbool c "raises" } : Cb))
    jl ((pilotUpdateCbs (cbs "pilot") (cbs "pmgr")).map jn)
  else if op == "runpilot" then
    let r := runPilot (nOf "pilot") (ofName "pilot" (jstr j "cur")) ((jarr j "seq").map (fun x => ofName "pilot" (asStr x)))
    Json.mkObj [("state", jst "pilot" r.1), ("cbs", jsts "pilot" r.2)]
  else Json.str "bad-op"

end Driver.States
