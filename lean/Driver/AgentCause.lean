import Driver.Util
import Driver.States
import RPVerif.Model.AgentCause
open Lean RPVerif.States RPVerif.AgentCause

namespace Driver.AgentCause

def evOf (s : String) : Option Ev :=
  if s == "lifetime" then some .lifetimeExpired
  else if s == "cancel_named" then some (.cancelCmd true)
  else if s == "cancel_other" then some (.cancelCmd false)
  else if s == "cancel_empty" then some (.cancelCmd false)     -- a request that names nobody does not name this pilot
  else if s == "terminate" then some .terminateCmd
  else none

def causeName : Cause → Json
  | .none => Json.null | .timeout => "timeout" | .cancel => "cancel" | .sysexit => "sys.exit"

def handle (j : Json) : Json :=
  let op := jstr j "op"
  if op == "cause" then
    let evs := (jarr j "events").filterMap (fun e => evOf (asStr e))
    let c := run .none evs
    -- `finalize` runs iff the agent did not crash before; "stop": it runs in the main thread as soon as
    -- the first stop() has set the termination event
    let sig := match j.getObjVal? "finalize" with
               | .ok (.str _) => (causeAtFirstStop .none evs).map finalState
               | _ => if jbool j "finalize" then some (finalState c) else none
    Json.mkObj [("cause", causeName c),
                ("signal", match sig with | some s => Driver.States.jst "pilot" s | none => Json.null),
                ("final", Driver.States.jst "pilot" (bootstrap sig))]
  else Json.str "bad-op"

end Driver.AgentCause
