import Driver.Util
import RPVerif.Model.Sched
open Lean RPVerif.Sched

namespace Driver.Sched

def occOf (j : Json) : Occ :=
  match j with
  | .null => .down
  | _ => if asNat j == 0 then .free else .busy

def jocc : Occ → Json
  | .free => jn 0 | .busy => jn 1 | .down => Json.null

def nodeOf (j : Json) : NodeSt :=
  { index := jnat j "index", cores := (jarr j "cores").map occOf, gpus := (jarr j "gpus").map occOf,
    lfs := jint j "lfs", mem := jint j "mem" }

def jnode (n : NodeSt) : Json :=
  jl [jn n.index, jl (n.cores.map jocc), jl (n.gpus.map jocc), ji n.lfs, ji n.mem]

def slotOf (j : Json) : Slot :=
  { node := jnat j "node", cores := (jarr j "cores").map asNat,
    gpus := (jarr j "gpus").map (fun g => ((asArr g).headD Json.null |> asNat, (asArr g).getD 1 Json.null |> asNat)),
    lfs := jnat j "lfs", mem := jnat j "mem" }

def jslot (s : Slot) : Json :=
  jl [jn s.node, jl (s.cores.map jn), jl (s.gpus.map (fun g => jl [jn g.1, jn g.2])), jn s.lfs, jn s.mem]

def reqOf (j : Json) : Req :=
  { uid := jnat j "uid", ranks := jint j "ranks", cpr := jnat j "cpr", gpr := jnat j "gpr",
    lfs := jnat j "lfs", mem := jnat j "mem", rpn := jnat j "rpn", colo := jnatOpt j "colo",
    excl := jbool j "excl", prio := jint j "prio", env := jnatOpt j "env",
    app := if jhas j "app" then some ((jarr j "app").map slotOf) else none }

def msgOf (j : Json) : Msg :=
  if jhas j "sched" then .sched ((jarr j "sched").map reqOf) else .cancel ((jarr j "cancel").map asNat)

def iterOf (j : Json) : Iter :=
  { incoming := (jarr j "incoming").map msgOf, marks := (jarr j "marks").map asNat,
    envs := (jarr j "envs").map asNat, unsched := (jarr j "unsched").map (fun m => (asArr m).map asNat) }

def jev : Ev → Json
  | .adv u s => jl [jn u, Json.str s]

def jstate (s : SchedSt) (res : Bool) : Json :=
  Json.mkObj [("nodes", jl (s.nodes.map jnode)), ("offset", jn s.offset), ("active", ji s.activeCnt),
              ("waitpool", jl ((prios s.waitpool).map (fun p => jl [ji p, jl ((poolOf s.waitpool p).map (fun r => jn r.uid))]))),
              ("colo", jl (s.coloHist.map (fun e => jl [jn e.1, jl (e.2.map jn)]))),
              ("tagged", jl (s.tagged.map jn)), ("cancel", jl (s.cancel.map jn)), ("resources", Json.bool res),
              ("queued", jn (s.unschedQ.map List.length).sum)]

def runIters (c : Cfg) : SchedSt → Bool → List Iter → List Json → List Json
  | _, _,   [],        acc => acc
  | s, res, it :: its, acc =>
    match loopIter c s res it with
    | (s', res', evs) =>
      runIters c s' res' its (acc ++ [Json.mkObj [("events", jl (evs.map jev)), ("state", jstate s' res'),
        ("slots", jl (s'.given.map (fun e => jl [jn e.1, jl (e.2.map jslot)])))]])

def handle (j : Json) : Json :=
  let op := jstr j "op"
  let cj := jget j "cfg"
  let c : Cfg := { cpn := jnat cj "cpn", gpn := jnat cj "gpn", lfsPn := jnat cj "lfs", memPn := jnat cj "mem",
                   scattered := jbool cj "scattered" }
  if op == "sched" then
    let s : SchedSt := { nodes := (jarr j "nodes").map nodeOf }
    jl (runIters c s true ((jarr j "iters").map iterOf) [])
  else if op == "runok" then
    -- does the script meet the hypothesis of the whole-history theorems (C01_history, C03_history_*)?
    let s : SchedSt := { nodes := (jarr j "nodes").map nodeOf }
    let its := (jarr j "iters").map iterOf
    let fin := (runLoop c s true its []).1
    Json.mkObj [("run_ok", Json.bool (runOK c s true its)), ("held", jn fin.held.length),
                ("restored", Json.bool (fin.nodes == s.nodes))]
  else if op == "find" then
    -- a single `_find_resources` call
    match findResources (nodeOf (jget j "node")) (jnat j "n") (jnat j "cps") (jnat j "gpr") (jnat j "lfs") (jnat j "mem") (jbool j "partial") with
    | .error _ => Json.str "error"
    | .ok none => Json.null
    | .ok (some sl) => jl (sl.map jslot)
  else Json.str "bad-op"

end Driver.Sched
