import Driver.Util
import RPVerif.Model.Raptor
import RPVerif.Gen.Raptor
open Lean RPVerif.Raptor

namespace Driver.Raptor

def jnl (l : List Nat) : Json := jl (l.map jn)
def jbl (l : List Bool) : Json := jl (l.map (fun b => jn (if b then 1 else 0)))
def envJson (e : Env) : Json := jl (e.map (fun kv => jl [jn kv.1, jn kv.2]))
def envOf (j : Json) : Env := (asArr j).map (fun e => (asNat (asArr e)[0]!, asNat (asArr e)[1]!))

def modeOf (s : String) : Mode :=
  if s == "task.executable" then .executable else if s == "task.function" then .func
  else if s == "task.method" then .meth else if s == "task.eval" then .eval else if s == "task.exec" then .exec
  else if s == "task.proc" then .proc else if s == "task.shell" then .shell
  else if s == "raptor.worker" then .raptorWorker else .raptorMaster

def choiceOf (s : String) : LChoice :=
  if s == "wp" then .wp else if s == "dp" then .dp else if s == "timeout" then .timeout else .watcher

def wpStr : WP → String
  | .running => "running" | .hasLock => "has_lock" | .put => "put" | .released => "released"
  | .exited => "exited" | .killed => "killed"

def lsJson (s : LS) : Json :=
  Json.mkObj [("wp", Json.str (wpStr s.wp)), ("queued", jn s.queued), ("in_pool", Json.bool s.inPool),
              ("held", Json.bool s.held), ("answers", jn s.answers), ("watcher", Json.bool s.watcher)]

def handle (j : Json) : Json :=
  let op := jstr j "op"
  if op == "alloc_seq" then
    let r0 : Res := { cores := List.replicate (jnat j "ncores") false, gpus := List.replicate (jnat j "ngpus") false }
    let r := (jarr j "ops").foldl (fun (acc : Res × List (Nat × Slots) × List Json) o =>
      let a := asArr o
      let kind := asStr a[0]!
      let id := asNat a[1]!
      if kind == "alloc" then
        match alloc acc.1 (asNat a[2]!) (asNat a[3]!) with
        | .assertion => (acc.1, acc.2.1, acc.2.2 ++ [Json.str "assert"])
        | .wait      => (acc.1, acc.2.1, acc.2.2 ++ [Json.str "wait"])
        | .ok r' s   => (r', acc.2.1 ++ [(id, s)], acc.2.2 ++ [Json.mkObj [("cores", jnl s.cores), ("gpus", jnl s.gpus)]])
      else
        match acc.2.1.find? (fun e => e.1 = id) with
        | none => (acc.1, acc.2.1, acc.2.2 ++ [Json.str "unknown"])
        | some e =>
          match dealloc acc.1 e.2 with
          | some r' => (r', acc.2.1.filter (fun x => x.1 ≠ id), acc.2.2 ++ [Json.str "ok"])
          | none    => (acc.1, acc.2.1, acc.2.2 ++ [Json.str "assert"])) (r0, [], [])
    Json.mkObj [("answers", jl r.2.2), ("cores", jbl r.1.cores), ("gpus", jbl r.1.gpus)]
  else if op == "life" then
    lsJson (lrun (jbool j "flag") {} ((jarr j "choices").map (fun c => choiceOf (asStr c))))
  else if op == "start" then
    let ch : Json → SChoice := fun c =>
      if asStr c == "req" then SChoice.req else if asStr c == "proc" then SChoice.proc else SChoice.watcher
    let st := srun RPVerif.Gen.startInPoolLock {} ((jarr j "choices").map ch)
    let rqs : String := match st.rq with
      | .idle => "idle" | .locked => "locked" | .started => "started" | .registered => "registered" | .done => "done"
    Json.mkObj [("rq", Json.str rqs),
                ("queued", Json.bool st.queued), ("in_pool", Json.bool st.inPool), ("held", Json.bool st.held),
                ("answered", Json.bool st.answered), ("watcher", Json.bool st.watcher)]
  else if op == "fwd" then
    let keyOf : Json → Option Nat := fun k => match k with | .null => none | v => some (asNat v)
    let r := (jarr j "ops").foldl (fun (s : Fwd) o =>
      let a := asArr o
      let kind := asStr a[0]!
      if kind == "incoming" then
        fwdStep s (.incoming ((asArr a[1]!).map (fun g => (keyOf (asArr g)[0]!, (asArr (asArr g)[1]!).map asNat))))
      else if kind == "register" then fwdStep s (.register (asNat a[1]!))
      else if kind == "unregister" then fwdStep s (.unregister (asNat a[1]!))
      else fwdStep s (.cancel ((asArr a[1]!).map asNat))) { queues := [], backlog := [], delivered := [], failed := [], canceled := [] }
    Json.mkObj [("queues", jnl r.queues),
                ("backlog", jl (r.backlog.map (fun e => jl [(match e.1 with | some m => jn m | none => Json.null), jnl e.2]))),
                ("delivered", jl (r.delivered.map (fun e => jl [jn e.1, jn e.2]))),
                ("failed", jnl r.failed), ("canceled", jnl r.canceled)]
  else if op == "route" then
    let m := modeOf (jstr j "mode")
    Json.mkObj [("master", Json.str (match masterRoute m with | .agent => "agent" | .workers => "workers")),
                ("seen", Json.bool (masterSeen m (jbool j "seen"))),
                ("sched", Json.str (match schedRoute (jbool j "has_raptor") m (jbool j "seen") with
                                    | .toRaptor => "raptor" | .schedule => "schedule"))]
  else if op == "rank" then
    -- one request through the rank process: the dispatcher returned (ret/val) or the try block raised
    let d : Except Nat Report := match j.getObjVal? "raised" with
      | .ok (.null) => .ok { out := [], err := [], ret := jnat j "ret", val := (match j.getObjVal? "val" with | .ok (.null) => none | .ok v => some (asNat v) | .error _ => none),
                             exc := (match j.getObjVal? "exc" with | .ok (.null) => none | .ok v => some (asNat v) | .error _ => none) }
      | .ok v => .error (asNat v)
      | .error _ => .error 0
    let r := rankResult RPVerif.Gen.rankRaisedExit d
    Json.mkObj [("exit", Json.num (JsonNumber.fromInt r.1)), ("val", match r.2.1 with | some v => jn v | none => Json.null),
                ("exc", Json.bool r.2.2.isSome), ("state", Json.str (targetState (some r.1)))]
  else if op == "target" then
    Json.str (targetState (match j.getObjVal? "exit" with
                           | .ok .null => none
                           | .ok v => some (asInt v)
                           | .error _ => none))
  else if op == "dispatch" then
    let pj := jget j "proc"
    let p : Proc := { env := envOf (jget pj "env"), cenv := envOf (jget pj "cenv"), real := jbool pj "real", stdout := 1, stderr := 2 }
    let plj := jget j "payload"
    let pl : Payload := { out := (jarr plj "out").map asNat, err := (jarr plj "err").map asNat,
                          envEdits := (jarr plj "edits").map (fun e => (asNat (asArr e)[0]!,
                                        (match (asArr e)[1]! with | .null => none | v => some (asNat v)))),
                          rebinds := jbool plj "rebinds",
                          outcome := (match plj.getObjVal? "raises" with
                                      | .ok (.null) => .returns (jnat plj "returns")
                                      | .ok v => .raises (asNat v)
                                      | .error _ => .returns (jnat plj "returns")) }
    let unresolved := match plj.getObjVal? "unresolved" with
                      | .ok (.str _) => true
                      | _ => false
    let r := if unresolved then dispatchUnresolved p else dispatchPy (jbool j "restore_c") p (envOf (jget j "task_env")) pl
    Json.mkObj [("out", jnl r.1.out), ("err", jnl r.1.err), ("ret", jn r.1.ret),
                ("val", match r.1.val with | some v => jn v | none => Json.null),
                ("exc", match r.1.exc with | some v => jn v | none => Json.null),
                ("env", envJson r.2.env), ("cenv", envJson r.2.cenv), ("real", Json.bool r.2.real)]
  else if op == "proc_env" then
    -- per request: the values the child sees for the probed keys (null = unset)
    let base := envOf (jget j "base")
    let keys := (jarr j "keys").map asNat
    jl ((procEnvs base ((jarr j "reqs").map envOf)).map (fun e =>
      jl (keys.map (fun k => match envGet e k with | some v => jn v | none => Json.null))))
  else Json.str "bad-op"

end Driver.Raptor
