import Driver.Util
import RPVerif.Model.RM
open Lean RPVerif.RM

namespace Driver.RM

def nameOf (j : Json) : RPVerif.RM.Name := { id := jnat j "id", login := jbool j "login", batch := jbool j "batch" }

def lineOf (j : Json) : Line :=
  match j with
  | .null  => .blank
  | .str _ => .bad
  | _      => .host (nameOf j)

def kindOf (s : String) : Kind :=
  if s == "torque" then .torque else if s == "ccm" then .ccm else if s == "cobalt" then .cobalt
  else if s == "lsf" then .lsf else if s == "pbspro" then .pbspro else if s == "slurm" then .slurm else .fork

def jocc : Occ → Json
  | .free => jn 0 | .down => Json.str "down"

def jnode (n : Node) : Json :=
  jl [jn n.name.id, jn n.index, jl (n.cores.map jocc), jl (n.gpus.map jocc)]

def handle (j : Json) : Json :=
  let op := jstr j "op"
  if op == "init" then
    let cj := jget j "cfg"
    let c : Cfg := { cpn := jnat cj "cpn", gpn := jnat cj "gpn", smt := jnat cj "smt",
                     requestedNodes := jnat cj "nodes", requestedCores := jnat cj "cores",
                     requestedGpus := jnat cj "gpus", backup := jnat cj "backup",
                     blockedCores := (jarr cj "blocked_cores").map asNat,
                     blockedGpus := (jarr cj "blocked_gpus").map asNat,
                     agentNodes := jnat cj "agent_nodes", serviceNodes := jnat cj "service_nodes",
                     execVnode := match j.getObjVal? "exec_vnode" with
                                  | .ok (.arr a) => some (a.toList.map (fun ch => (asArr ch).map (fun sl => (asNat ((asArr sl).getD 0 Json.null), asNat ((asArr sl).getD 1 Json.null)))))
                                  | _ => none,
                     envGpus := jnatOpt cj "env_gpus", envGpuIds := jnat cj "env_gpu_ids" }
    -- CCM: several node list files, the newest (by modification time) counts
    let lines : List Line := match j.getObjVal? "ccm_files" with
      | .ok (.arr a) => (newestFile (a.toList.map (fun f => (jnat f "mtime", (jarr f "lines").map lineOf)))).2
      | _ => (jarr j "lines").map lineOf
    match initRM (kindOf (jstr j "kind")) c lines ((jarr j "hosts").map nameOf)
            (jnatOpt j "env_cpus") (jnat j "detected") ((jarr j "reach").map asNat) with
    | .error _ => Json.str "error"
    | .ok i => Json.mkObj [("node_list", jl (i.nodeList.map jnode)), ("agent_node_list", jl (i.agentNodes.map jnode)),
                           ("service_node_list", jl (i.serviceNodes.map jnode)),
                           ("requested_nodes", jn i.requestedNodes), ("cores_per_node", jn i.coresPerNode),
                           ("gpus_per_node", jn i.gpusPerNode)]
  else Json.str "bad-op"

end Driver.RM
