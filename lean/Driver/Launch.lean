import Driver.Util
import RPVerif.Model.Launch
open Lean RPVerif.Launch

namespace Driver.Launch

def slotOf (j : Json) : Slot :=
  { host := jnat j "host", nodeIndex := jnat j "node", cores := (jarr j "cores").map asNat,
    gpus := (jarr j "gpus").map asNat }

def taskOf (j : Json) : Task :=
  { ranks := jnat j "ranks", cpr := jnat j "cpr", gpus := jbool j "gpus",
    slots := (jarr j "slots").map slotOf,
    useMpi := (match j.getObjVal? "use_mpi" with
               | .ok (.bool b) => some b
               | _ => none),
    hasExe := jbool j "exe" }

def jopt {α} (f : α → Json) : Option α → Json
  | some a => f a
  | none   => Json.null

def jnl (l : List Nat) : Json := jl (l.map jn)
def jpairs (l : List (Nat × Nat)) : Json := jl (l.map (fun e => jl [jn e.1, jn e.2]))

def cmdJson : Cmd → Json
  | .fork => Json.mkObj [("lm", "fork")]
  | .mpirun np mh ha hf dp mpt =>
    Json.mkObj [("lm", "mpirun"), ("np", jn np), ("mpt_hosts", jnl mh), ("host", jnl ha),
                ("hostfile", jopt jnl hf), ("dplace", jopt jnl dp), ("mpt", Json.bool mpt)]
  | .mpiexec np rf hf ppn bind =>
    Json.mkObj [("lm", "mpiexec"), ("np", jn np),
                ("rf", jopt (fun l => jl (l.map (fun e => jl [jn e.1, jnl e.2]))) rf),
                ("hf", jopt jpairs hf), ("ppn", jopt jn ppn),
                ("bind", jl (bind.map (fun b => match b with
                   | .range a c => jl [jn a, jn c]
                   | .list cs => Json.mkObj [("list", jnl cs)])))]
  | .srun nodes nt cpt nl f =>
    Json.mkObj [("lm", "srun"), ("nodes", jopt jn nodes), ("ntasks", jn nt), ("cpt", jn cpt),
                ("nodelist", jnl nl), ("file", Json.bool f)]
  | .aprun n d => Json.mkObj [("lm", "aprun"), ("n", jn n), ("d", jn d)]
  | .ccmrun n => Json.mkObj [("lm", "ccmrun"), ("n", jn n)]
  | .ibrun tpn n o => Json.mkObj [("lm", "ibrun"), ("tpn", jn tpn), ("n", jn n), ("offset", jn o)]
  | .prte np pe hosts => Json.mkObj [("lm", "prte"), ("np", jn np), ("pe", jn pe), ("hosts", jpairs hosts)]
  | .ssh h => Json.mkObj [("lm", "ssh"), ("host", jn h)]
  | .rsh h => Json.mkObj [("lm", "rsh"), ("host", jn h)]

def exJson : Except Err Cmd → Json
  | .ok c => cmdJson c
  | .error .value => Json.mkObj [("err", "ValueError")]
  | .error .runtime => Json.mkObj [("err", "RuntimeError")]
  | .error .assertion => Json.mkObj [("err", "AssertionError")]

def handle (j : Json) : Json :=
  let op := jstr j "op"
  if op == "launch" then
    let lm := jstr j "lm"
    let c := jget j "cfg"
    let t := taskOf (jget j "task")
    let (can, cmd) : Bool × Json :=
      if lm == "FORK" then (canFork (jnat c "localhost") (jnat c "self") t, cmdJson .fork)
      else if lm == "MPIRUN" then
        (canExe t, exJson (cmdMpirun { mpt := jbool c "mpt", dplace := jbool c "dplace", spectrum := jbool c "spectrum" } t))
      else if lm == "MPIEXEC" then
        (canExe t, exJson (cmdMpiexec { useRf := jbool c "use_rf", useHf := jbool c "use_hf", pals := jbool c "pals" } t))
      else if lm == "SRUN" then
        (canExe t, cmdJson (cmdSrun { vmajor := jnat c "vmajor", traverse := jbool c "traverse", cpn := jnat c "cpn" } t))
      else if lm == "APRUN" then (canExe t, cmdJson (.aprun t.ranks t.cpr))
      else if lm == "CCMRUN" then (canExe t, cmdJson (.ccmrun t.ranks))
      else if lm == "IBRUN" then
        (canExe t, exJson (cmdIbrun { tpnOpt := jnat c "tpn", cpn := jnat c "cpn", nodeIdx := (jarr c "node_idx").map asNat } t))
      else if lm == "PRTE" then (canExe t, cmdJson (cmdPrte t))
      else if lm == "SSH" then (canSsh t, exJson (cmdSsh t))
      else if lm == "RSH" then (canRsh t, exJson (cmdRsh t))
      else (false, Json.str "bad-lm")
    Json.mkObj [("can", Json.bool can), ("cmd", cmd)]
  else if op == "jsrun" then
    -- JSRUN: the placement comes as resource sets
    let rs : List RSet := (jarr j "rsets").map (fun r =>
      { node := jnat r "node", ranks := (jarr r "ranks").map (fun x => (asArr x).map asNat), gpus := (jarr r "gpus").map asNat })
    let smpi := match jsrunSmpi (jbool j "cuda") (jnat j "nranks") with
                | some true => Json.str "gpu" | some false => Json.str "off" | none => Json.null
    if jbool j "erf" then
      Json.mkObj [("lm", "jsrun_erf"), ("smpi", smpi),
                  ("lines", jl ((erfFrom 0 rs).map (fun l =>
                     Json.mkObj [("ranks", jnl l.ranks), ("host", jn l.host), ("cpus", jl (l.cpus.map jnl)), ("gpus", jnl l.gpus)])))]
    else
      match jsrunOpts (jnat j "tpc") (jnat j "gpn") (jbool j "omp") rs with
      | none => Json.mkObj [("err", "Error")]
      | some o =>
        Json.mkObj [("lm", "jsrun"), ("smpi", smpi), ("n", jn o.n), ("a", jn o.a), ("c", jn o.c), ("g", jn o.g),
                    ("r", jopt jn o.r),
                    ("b", match o.b with | none => Json.null | some none => Json.str "rs" | some (some k) => jn k)]
  else if op == "find" then
    match findLauncher ((jarr j "order").map (fun e => (asNat (asArr e)[0]!, (match (asArr e)[1]! with | .bool b => b | _ => false)))) with
    | some n => jn n
    | none => Json.null
  else Json.str "bad-op"

end Driver.Launch
