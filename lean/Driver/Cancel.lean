import Driver.Util
import RPVerif.Model.Cancel
open Lean RPVerif.Cancel

namespace Driver.Cancel

def handle (j : Json) : Json :=
  let op := jstr j "op"
  if op == "intake" then
    let cl := cancelCmd ((jarr j "cl").map asNat) ((jarr j "uids").map asNat)
    let r := intake cl ((jarr j "things").map asNat)
    Json.mkObj [("worked", jl (r.1.map jn)), ("canceled", jl (r.2.1.map jn)), ("cancel_list", jl (r.2.2.map jn))]
  else if op == "request" then
    let known := (jarr j "known").map asNat
    let arg : Arg := match j.getObjVal? "arg" with
      | .ok (.arr a) => .many (a.toList.map asNat)
      | .ok (.num n) => .one (asNat (.num n))
      | _            => .none
    jl ((request known arg).map jn)
  else Json.str "bad-op"

end Driver.Cancel
