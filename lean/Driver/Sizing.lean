import Driver.Util
import RPVerif.Model.Sizing
open Lean RPVerif.Sizing

namespace Driver.Sizing

def handle (j : Json) : Json :=
  let op := jstr j "op"
  if op == "size" then
    let rc : RC := { cpn := jnat j "cpn", gpn := jnat j "gpn", smt := jnat j "smt",
                     blockedCores := jnat j "bc", blockedGpus := jnat j "bg" }
    let pd : PD := { nodes := jnat j "nodes", cores := jnat j "cores", gpus := jnat j "gpus",
                     backup := jnat j "backup" }
    match sizePilot rc pd with
    | .error .assertion => jl [Json.str "err", Json.str "AssertionError"]
    | .error .runtime   => jl [Json.str "err", Json.str "RuntimeError"]
    | .ok s => Json.mkObj [("node_count", jn s.nodeCount), ("total_cpu_count", jn s.totalCpu),
                           ("total_gpu_count", jn s.totalGpu), ("processes_per_host", jn s.procsPerHost),
                           ("nodes", jn s.agentNodes), ("backup_nodes", jn s.agentBackup),
                           ("cores", jn s.agentCores), ("gpus", jn s.agentGpus),
                           ("cores_per_node", jn s.agentCoresPerNode), ("gpus_per_node", jn s.agentGpusPerNode)]
  else Json.str "bad-op"

end Driver.Sizing
