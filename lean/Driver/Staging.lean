import Driver.Util
import RPVerif.Model.Staging
open Lean RPVerif.Staging

namespace Driver.Staging

def js (s : Str) : Json := Json.str (String.ofList s)
def jpath (p : Path) : Json := jl (p.map js)
def pathOf (j : Json) : Path := (asArr j).map (fun x => (asStr x).toList)

def sdJson (sd : SD) : Json :=
  Json.mkObj [("source", js sd.source), ("target", js sd.target), ("action", Json.str sd.action)]

def errJson : Err → Json
  | .value => Json.mkObj [("err", "ValueError")]
  | .assertion => Json.mkObj [("err", "AssertionError")]
  | .io => Json.mkObj [("err", "IOError")]

def sdOf (j : Json) : SD :=
  { source := (jstr j "source").toList, target := (jstr j "target").toList, action := jstr j "action" }

def strList (j : Json) (k : String) : List String := (jarr j k).map asStr

def tablesOf (j : Json) : Tables :=
  { tmgrIn := strList j "tmgr_in", agentIn := strList j "agent_in", agentInDo := strList j "agent_in_do",
    agentOut := strList j "agent_out", agentOutDo := strList j "agent_out_do", tmgrOut := strList j "tmgr_out",
    helper := strList j "helper", tmgrOutOnError := jbool j "tmgr_out_on_error" }

def contentJson : Content → Json
  | .data c => jn c
  | .tar es => Json.mkObj [("tar", jl (es.map (fun e => jl [jpath e.1, jn e.2])))]

def taskOf (tj : Json) : Task :=
  let bj := jget tj "boxes"
  { uid := jnat tj "uid",
    boxes := { client := (jstr bj "client").toList, endpoint := (jstr bj "endpoint").toList,
               resource := (jstr bj "resource").toList, session := (jstr bj "session").toList,
               pilot := (jstr bj "pilot").toList, task := (jstr bj "task").toList },
    inputs := (jarr tj "inputs").map sdOf, outputs := (jarr tj "outputs").map sdOf,
    stageOnError := jbool tj "stage_on_error", target := jstr tj "target" }

def handle (j : Json) : Json :=
  let op := jstr j "op"
  if op == "sandboxes" then
    -- the directory names the pilots of one session are given, in the order they ask
    jl ((pilotSandboxes 0 [] ((jarr j "pids").map asNat)).map (fun sb => jn sb.2))
  else if op == "expand" then
    match j.getObjVal? "str" with
    | .ok (.str s) =>
      (match expandStr (jstr j "default") s.toList with
       | .ok sd => sdJson sd
       | .error e => errJson e)
    | _ =>
      let d := jget j "dict"
      (match expandDict (jstr j "default") (jstr d "source").toList
               (if jhas d "target" then some (jstr d "target").toList else none)
               (if jhas d "action" then some (jstr d "action") else none) with
       | .ok sd => sdJson sd
       | .error e => errJson e)
  else if op == "complete" then
    let ctx := (jarr j "ctx").map (fun e => (asStr (asArr e)[0]!, (asStr (asArr e)[1]!).toList))
    match completeUrl ctx (jstr j "p").toList with
    | .ok u => Json.mkObj [("schema", js u.schema), ("host", js u.host), ("segs", jpath (loc u)), ("dir", Json.bool (dirForm u))]
    | .error e => errJson e
  else if op == "bulk" then
    let tb := tablesOf (jget j "tables")
    let fs0 : FS := (jarr j "fs").map (fun e => (pathOf (asArr e)[0]!, Content.data (asNat (asArr e)[1]!)))
    let tasks := (jarr j "tasks").map taskOf
    let prods := (jarr j "produced").map (fun pj => (asArr pj).map (fun e => (pathOf (asArr e)[0]!, asNat (asArr e)[1]!)))
    -- the component works on the tasks of a bulk one after the other
    let r := bulk tb fs0 (tasks.zip prods)
    Json.mkObj [("states", jl (r.2.map Json.str)), ("fs", jl (r.1.map (fun e => jl [jpath e.1, contentJson e.2])))]
  else Json.str "bad-op"

end Driver.Staging
