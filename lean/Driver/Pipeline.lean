import Driver.Util
import RPVerif.Model.Pipeline
import RPVerif.Gen.States
open Lean RPVerif.Pipeline RPVerif.States

namespace Driver.Pipeline

def stJson : St → Json
  | .nf i => jn i
  | .done => Json.str "DONE"
  | .failed => Json.str "FAILED"
  | .canceled => Json.str "CANCELED"

def execOf (j : Json) : Exec :=
  match j with
  | .str "no_launcher" => .noLauncher
  | .str "launch_error" => .launchError
  | .str "canceled" => .canceled
  | v => .exit (asNat v)

def handle (j : Json) : Json :=
  let op := jstr j "op"
  if op == "run" then
    let p : Plan := { tmgrInFails := jbool j "tmgr_in", agentInFails := jbool j "agent_in", exec := execOf (jget j "exec"),
                      stageOnError := jbool j "on_error", agentOutFails := jbool j "agent_out", tmgrOutFails := jbool j "tmgr_out", hasTmgrOut := jbool j "has_tmgr_out" }
    let r := run p
    Json.mkObj [("emits", jl (r.emits.map stJson)), ("exit", match r.exitCode with | some c => jn c | none => Json.null),
                ("exception", Json.bool r.exception), ("final", stJson (final p))]
  else if op == "work_cb" then
    let handled := (jarr j "handled").map (fun l => (asArr l).map (fun s => match s with
                      | .str "FAILED" => St.failed | .str "DONE" => St.done | .str "CANCELED" => St.canceled | v => St.nf (asNat v)))
    jl ((workCb handled (jnat j "rest") (jbool j "raises")).map (fun l => jl (l.map stJson)))
  else if op == "work_cb_marked" then
    let marks := (jarr j "marks").map (fun b => match b with | .bool true => true | _ => false)
    jl ((workCbMarked (.nf 13) marks 0 (jnatOpt j "raise_at")).map (fun l => jl (l.map stJson)))
  else if op == "note" then
    -- BaseComponent.advance(thing, state, publish=True): what the notification carries
    let stOf := fun (v : Json) => match v with
                  | .str "FAILED" => St.failed | .str "DONE" => St.done | .str "CANCELED" => St.canceled | v => St.nf (asNat v)
    let arg : Option St := match jget j "arg" with | .null => none | v => some (stOf v)
    let thing := match arg with | some a => a | none => stOf (jget j "thing")
    let n := noteOf RPVerif.Gen.publishFinalByThing (jbool j "all") arg thing
    Json.mkObj [("state", stJson n.st), ("full", Json.bool n.full)]
  else Json.str "bad-op"

end Driver.Pipeline
