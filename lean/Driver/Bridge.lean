import Driver.Util
import RPVerif.Model.Bridge
import RPVerif.Gen.Bridge
import RPVerif.Model.Proxy
open Lean RPVerif.Bridge

namespace Driver.Bridge

def msgOf (j : Json) : Msg :=
  { origin := jnatOpt j "origin",
    fwd := match j.getObjVal? "fwd" with
           | .ok (.bool b) => some b
           | _ => none,
    body := jnat j "body" }

def jmsg (m : Msg) : Json :=
  Json.mkObj [("origin", match m.origin with | some o => jn o | none => Json.null),
              ("fwd", match m.fwd with | some b => Json.bool b | none => Json.null),
              ("body", jn m.body)]

def optMsg : Option Msg → Json
  | none => Json.null
  | some m => jmsg m

def handle (j : Json) : Json :=
  let op := jstr j "op"
  if op == "fwd" then
    -- one forwarder: module, direction, message
    let m := jnat j "module"
    if jbool j "from_proxy" then optMsg (inFwd m (msgOf (jget j "msg")))
    else optMsg (outFwd m (msgOf (jget j "msg")))
  else if op == "publish" then
    let sides := (jarr j "sides").map asNat
    let ds := localPub sides (jnat j "fuel") (jnat j "side") (msgOf (jget j "msg"))
    -- deliveries per side, sorted by side (delivery order across sides is not specified)
    jl (sides.map (fun t => jl [jn t, jl ((ds.filter (fun d => d.1 = t)).map (fun d => jmsg d.2))]))
  else if op == "advance" then
    -- the state update an advance() of class `cls` publishes: its fwd flag
    let dflt := match RPVerif.Gen.advanceFwdDefaults.find? (fun e => e.1 = jstr j "cls") with
                | some e => e.2
                | none   => false
    let arg : Option Bool := match j.getObjVal? "fwd" with
                             | .ok (.bool b) => some b
                             | _ => none
    jmsg (advanceMsg dflt arg (jnat j "body"))
  else if op == "rpc" then
    -- request published on side r, handled on side h: the deliveries of the reply, per side
    let sides := (jarr j "sides").map asNat
    let dflt := match RPVerif.Gen.msgFwdDefaults.find? (fun e => e.1 = "rpc_res") with
                | some e => e.2
                | none   => false
    let ds := rpcRoundTrip sides (jnat j "fuel") dflt (RPVerif.Gen.rpcResCopied.contains "fwd")
                (jnat j "r") (jnat j "h") (msgOf (jget j "msg"))
    jl (sides.map (fun t => jl [jn t, jl ((ds.filter (fun d => d.1 = t)).map (fun d => jmsg d.2))]))
  else if op == "proxy_monitor" then
    -- the monitor of the proxy service over a history: per pass what the sessions do before it (times in ticks)
    let actOf := fun (a : Json) => match asArr a with
      | [.str "reg", v]  => RPVerif.Proxy.Act.reg (asNat v)
      | [.str "hb", v]   => RPVerif.Proxy.Act.hb (asNat v)
      | [_, v]           => RPVerif.Proxy.Act.skip (asNat v)
      | _                => RPVerif.Proxy.Act.skip 0
    let script := (jarr j "script").map (fun p => (asArr p).map actOf)
    let r := RPVerif.Proxy.run RPVerif.Gen.proxyEvictionListFresh (jnat j "T") {} script
    Json.mkObj [("ended", jl (r.ended.map (fun e => jl [jn e.1, jn e.2]))), ("alive", jl (r.clients.map (fun c => jn c.sid)))]
  else Json.str "bad-op"

end Driver.Bridge
