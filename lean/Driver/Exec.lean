import Driver.Util
import RPVerif.Model.Exec
import RPVerif.Model.Noop
open Lean RPVerif.Exec

namespace Driver.Exec

def choiceOf (j : Json) : Choice :=
  match j with
  | .str s =>
    if s == "intake" then .intake else if s == "fault" then .intakeFault else if s == "watcher" then .watcher
    else if s == "cancel_req" then .cancelReq else if s == "timeout" then .timeout else .watcher
  | .arr a =>
    let k := asStr (a.toList.headD Json.null)
    let n := asNat (a.toList.getD 1 Json.null)
    if k == "cancel" then .cancel n else .exit n
  | _ => .watcher

def jout : Option Outcome → Json
  | none => Json.null | some .done => "DONE" | some .failedExit => "FAILED" | some .canceled => "CANCELED"

def jobs (s : ES) : Json :=
  Json.mkObj [("started", jn s.started), ("unsched", jn s.unsched), ("handed", jn s.handed), ("failed", jn s.failed),
              ("canceled_pub", jn s.canceledPub), ("outcome", jout s.outcome), ("in_tasks", Json.bool s.inTasks),
              ("proc_key", Json.bool s.procKey)]

def handle (j : Json) : Json :=
  let op := jstr j "op"
  if op == "exec" then
    let cs := (jarr j "choices").map choiceOf
    -- observation after every choice
    let r := cs.foldl (fun (acc : ES × List Json) c => let s' := step acc.1 c; (s', acc.2 ++ [jobs s'])) ({}, [])
    jl r.2
  else if op == "bulk" then
    let ts := (jarr j "tasks").map (fun t => (jnat t "uid", jbool t "fault", jnat t "code"))
    jl ((bulkEvents ts).map (fun e => match e with
      | .start u    => jl [Json.str "start", jn u]
      | .unsched u  => jl [Json.str "unsched", jn u]
      | .failed u   => jl [Json.str "failed", jn u]
      | .handed u b => jl [Json.str "handed", jn u, Json.str (if b then "DONE" else "FAILED")]))
  else if op == "noop" then
    let ops := (jarr j "ops").map (fun o =>
      match o.getObjVal? "w" with
      | .ok (.arr a) => RPVerif.Noop.Op.work (a.toList.map asNat)
      | _ => RPVerif.Noop.Op.collect ((jarr o "c").map asNat))
    let s := RPVerif.Noop.run ops
    Json.mkObj [("tasks", jl (s.tasks.map jn)),
                ("events", jl (s.evs.map (fun e => match e with
                   | .start u => jl [Json.str "start", jn u]
                   | .unsched u => jl [Json.str "unsched", jn u]
                   | .handed u => jl [Json.str "handed", jn u])))]
  else Json.str "bad-op"

end Driver.Exec
