/-
Model of the NOOP executor (properties C03, C07):
  agent/executing/noop.py  NOOP.work, NOOP._collect
`work` announces the start of the bulk and appends it to `_tasks` under `_tasks_lock`; the collector
thread takes the tasks whose deadline has passed out of `_tasks` under the same lock, then publishes
the unschedule message and hands them on.  The two lock sections are atomic with respect to each
other; a run is the sequence of lock sections in the order they are entered.
-/
namespace RPVerif.Noop

inductive Ev where
  | start   (uid : Nat)       -- advance(AGENT_EXECUTING)
  | unsched (uid : Nat)       -- publish(AGENT_UNSCHEDULE_PUBSUB)
  | handed  (uid : Nat)       -- advance(AGENT_STAGING_OUTPUT_PENDING)
deriving DecidableEq, Repr

inductive Op where
  | work (bulk : List Nat)        -- one call of `work`
  | collect (due : List Nat)      -- one pass of `_collect`; `due`: tasks whose deadline has passed
deriving Repr

structure St where
  tasks : List Nat := []          -- `self._tasks`
  evs   : List Ev  := []
deriving Repr

def step (s : St) : Op → St
  | .work b      => { tasks := s.tasks ++ b, evs := s.evs ++ b.map Ev.start }
  | .collect due =>
    { tasks := s.tasks.filter (fun u => !(due.contains u)),
      evs   := s.evs ++ (s.tasks.filter (fun u => due.contains u)).map Ev.unsched
                     ++ (s.tasks.filter (fun u => due.contains u)).map Ev.handed }

def run (ops : List Op) : St := ops.foldl step {}

/-- everything handed to `work` so far -/
def accepted : List Op → List Nat
  | []               => []
  | .work b :: ops    => b ++ accepted ops
  | .collect _ :: ops => accepted ops

end RPVerif.Noop
