/-
Model of the skeleton of the generated task scripts (property C10):
  agent/executing/base.py  _create_exec_script, _get_prep_exec, _extend_pre_exec, _get_exec,
                           _create_launch_script, _get_prep_launch, _get_launch, _get_rp_funcs
A command is an identifier; what it returns is an oracle.  `c || rp_error sig` stops the
script with exit code 1 at the first failing command; the executable's exit code is kept in
RP_RET and is the exit code of the script unless a later command fails.
-/
namespace RPVerif.Script

/-- one entry of `pre_exec` / `post_exec`: a command for all ranks, or a dict rank -> command(s) -/
inductive Entry where
  | all (c : Nat)
  | perRank (m : List (Nat × List Nat))
deriving DecidableEq, Repr

def Entry.isAll : Entry → Bool
  | .all _ => true
  | _      => false

def lookupRank (rank : Nat) : List (Nat × List Nat) → List Nat
  | []           => []
  | (r, cs) :: m => if r = rank then cs else lookupRank rank m

/-- the commands of one section that rank `rank` executes, in order (`_get_prep_exec`):
    without dict entries every line is unconditional; with one the whole section is a
    `case "$RP_RANK"` with one arm per rank `0 .. ranks-1` -/
def cmdsFor (entries : List Entry) (ranks rank : Nat) : List Nat :=
  if entries.all Entry.isAll then
    entries.flatMap (fun e => match e with | .all c => [c] | .perRank _ => [])
  else if rank < ranks then
    entries.flatMap (fun e => match e with | .all c => [c] | .perRank m => lookupRank rank m)
  else []

/-- run commands in order; stop after the first one that fails: (commands run, all succeeded) -/
def runSeq (oracle : Nat → Nat) : List Nat → List Nat × Bool
  | []      => ([], true)
  | c :: cs => if oracle c = 0 then
                 (fun (r : List Nat × Bool) => (c :: r.1, r.2)) (runSeq oracle cs)
               else ([c], false)

inductive Ev where
  | cmd (c : Nat)            -- a pre/post command ran
  | exe                      -- the executable ran
deriving DecidableEq, Repr

structure ExecScript where
  ranks : Nat
  pre   : List Entry          -- as extended by `_extend_pre_exec`
  post  : List Entry
deriving Repr

/-- the exec script on one rank: (what ran, exit code) -/
def runExec (s : ExecScript) (rank : Nat) (oracle : Nat → Nat) (exeCode : Nat) : List Ev × Nat :=
  match runSeq oracle (cmdsFor s.pre s.ranks rank) with
  | (ran, false) => (ran.map Ev.cmd, 1)
  | (ran, true)  =>
    match runSeq oracle (cmdsFor s.post s.ranks rank) with
    | (ran2, false) => (ran.map Ev.cmd ++ [Ev.exe] ++ ran2.map Ev.cmd, 1)
    | (ran2, true)  => (ran.map Ev.cmd ++ [Ev.exe] ++ ran2.map Ev.cmd, exeCode)

/-- `_extend_pre_exec`: OpenMP thread count, CUDA device list per rank, platform pre_exec -/
def extendPre (pre : List Entry) (omp : Option Nat) (cuda : Option (List (Nat × List Nat))) (platform : List Nat) : List Entry :=
  pre ++ (match omp with | some c => [Entry.all c] | none => [])
      ++ (match cuda with | some m => [Entry.perRank m] | none => [])
      ++ platform.map Entry.all

structure LaunchScript where
  exec       : ExecScript
  preLaunch  : List Nat
  postLaunch : List Nat
deriving Repr

/-- exit code of the launcher: the first non-zero exit code of a rank (Fork: the one rank) -/
def firstNonZero : List Nat → Nat
  | []      => 0
  | c :: cs => if c = 0 then firstNonZero cs else c

inductive LEv where
  | lcmd (c : Nat)                       -- pre/post launch command
  | rank (r : Nat) (evs : List Ev)       -- what rank r did
deriving DecidableEq, Repr

def runRanks (s : ExecScript) (oracle : Nat → Nat) (exeCodes : List Nat) : List Nat → List LEv × List Nat
  | []      => ([], [])
  | r :: rs =>
    (fun (x : List Ev × Nat) (rest : List LEv × List Nat) => (LEv.rank r x.1 :: rest.1, x.2 :: rest.2))
      (runExec s r oracle (exeCodes.getD r 0)) (runRanks s oracle exeCodes rs)

/-- the launch script: pre_launch, launcher (all ranks), post_launch; `exit $RP_RET` -/
def runLaunch (l : LaunchScript) (oracle : Nat → Nat) (exeCodes : List Nat) : List LEv × Nat :=
  match runSeq oracle l.preLaunch with
  | (ran, false) => (ran.map LEv.lcmd, 1)
  | (ran, true)  =>
    match runRanks l.exec oracle exeCodes (List.range l.exec.ranks) with
    | (evs, codes) =>
      match runSeq oracle l.postLaunch with
      | (ran2, false) => (ran.map LEv.lcmd ++ evs ++ ran2.map LEv.lcmd, 1)
      | (ran2, true)  => (ran.map LEv.lcmd ++ evs ++ ran2.map LEv.lcmd, firstNonZero codes)

/-! ### the task environment section of the exec script (`_get_task_env`)

The named environment is activated first (its script un-sets every variable of the agent's
environment that the named environment does not have, and exports the named environment's own
values); the variables of the task description are exported after it. -/

inductive EnvAct where
  | source (unsets : List Nat) (sets : List (Nat × Nat))    -- `. <named env script>`
  | export (k v : Nat)                                      -- `export K="v"`
deriving DecidableEq, Repr

abbrev Env := List (Nat × Nat)

def envSet (e : Env) (k v : Nat) : Env := (k, v) :: e.filter (fun x => x.1 ≠ k)
def envUnset (e : Env) (k : Nat) : Env := e.filter (fun x => x.1 ≠ k)
def envGet (e : Env) (k : Nat) : Option Nat := (e.find? (fun x => x.1 = k)).map (·.2)

def applyAct (e : Env) : EnvAct → Env
  | .source us ss => ss.foldl (fun e kv => envSet e kv.1 kv.2) (us.foldl envUnset e)
  | .export k v   => envSet e k v

/-- the section as a list of actions, in the order of the script -/
def taskEnvActs (named : Option (List Nat × List (Nat × Nat))) (env : List (Nat × Nat)) : List EnvAct :=
  (match named with
   | some (us, ss) => [EnvAct.source us ss]
   | none          => [])
  ++ env.map (fun kv => EnvAct.export kv.1 kv.2)

def runEnv (e : Env) (acts : List EnvAct) : Env := acts.foldl applyAct e

end RPVerif.Script
