/-
Model of the application-level slot finder (properties C01, C02, C03):
  resource_config.py  Node.find_slot / allocate_slot / deallocate_slot,
                      NodeList._assert_rr / find_slots / release_slots
Occupations are counted in sixteenths (dyadic floats are exact): 16 = BUSY (1.0), 0 = FREE,
`none` = DOWN.  Occupations are integers because `deallocate_slot` does not check what it
subtracts.
-/
namespace RPVerif.NodeList

structure ANode where
  index : Nat
  cores : List (Option Int)
  gpus  : List (Option Int)
  lfs   : Int
  mem   : Int
deriving DecidableEq, Repr

/-- rank requirements -/
structure RR where
  nCores  : Nat
  coreOcc : Nat        -- in sixteenths
  nGpus   : Nat
  gpuOcc  : Nat
  lfs     : Nat
  mem     : Nat
deriving DecidableEq, Repr

structure ASlot where
  node  : Nat
  cores : List (Nat × Nat)     -- (index, occupation)
  gpus  : List (Nat × Nat)
  lfs   : Nat
  mem   : Nat
deriving DecidableEq, Repr

inductive Err where
  | value | runtime | assertion
deriving DecidableEq, Repr

/-- the scan of `find_slot` over cores or GPUs: entries that are not DOWN and have room for
    `occ` more, in order, until `need` are collected -/
def scan (occ : Nat) : List (Option Int) → Nat → Nat → List (Nat × Nat)
  | [],      _, _        => []
  | _ :: _,  _, 0        => []
  | o :: os, i, need + 1 =>
    match o with
    | none   => scan occ os (i + 1) (need + 1)
    | some v => if (occ : Int) ≤ 16 - v then (i, occ) :: scan occ os (i + 1) need
                else scan occ os (i + 1) (need + 1)

def bump (d : Int) : Option Int → Option Int
  | some v => some (v + d)
  | none   => none

def addOcc (l : List (Option Int)) (taken : List (Nat × Nat)) (sign : Int) : List (Option Int) :=
  taken.foldl (fun acc t => acc.modify t.1 (bump (sign * t.2))) l

/-- `allocate_slot(_check=False)` -/
def allocate (n : ANode) (s : ASlot) : ANode :=
  { n with cores := addOcc n.cores s.cores 1, gpus := addOcc n.gpus s.gpus 1,
           lfs := n.lfs - s.lfs, mem := n.mem - s.mem }

/-- `deallocate_slot` -/
def deallocate (n : ANode) (s : ASlot) : ANode :=
  { n with cores := addOcc n.cores s.cores (-1), gpus := addOcc n.gpus s.gpus (-1),
           lfs := n.lfs + s.lfs, mem := n.mem + s.mem }

def pickCores (n : ANode) (rr : RR) : List (Nat × Nat) := if rr.nCores ≠ 0 then scan rr.coreOcc n.cores 0 rr.nCores else []
def pickGpus (n : ANode) (rr : RR) : List (Nat × Nat) := if rr.nGpus ≠ 0 then scan rr.gpuOcc n.gpus 0 rr.nGpus else []

def mkSlot (n : ANode) (rr : RR) : ASlot :=
  { node := n.index, cores := pickCores n rr, gpus := pickGpus n rr, lfs := rr.lfs, mem := rr.mem }

/-- `Node.find_slot`: the slot and the node with the slot allocated -/
def findSlot (n : ANode) (rr : RR) : Option (ASlot × ANode) :=
  if rr.nCores ≠ 0 ∧ (pickCores n rr).length < rr.nCores then none
  else if rr.nGpus ≠ 0 ∧ (pickGpus n rr).length < rr.nGpus then none
  else if rr.lfs ≠ 0 ∧ n.lfs < rr.lfs then none
  else if rr.mem ≠ 0 ∧ n.mem < rr.mem then none
  else some (mkSlot n rr, allocate n (mkSlot n rr))

structure NL where
  nodes      : List ANode
  cpn        : Nat               -- uniform node shape as found by `verify`
  gpn        : Nat
  lfsPn      : Nat
  memPn      : Nat
  index      : Int := 0          -- `__index__`
  lastFailed : Option (RR × Nat) := none
deriving DecidableEq, Repr

/-- `_assert_rr` (the node list is uniform) -/
def assertRR (l : NL) (rr : RR) (n : Nat) : Option Err :=
  if rr.nCores = 0 then some .value
  else
    -- ranks_per_node = min of the quotients; compared without division
    (fun (fr : List (Nat × Nat)) =>       -- (numerator, denominator)
      if fr.any (fun f => f.1 < f.2) then some .value                       -- ranks_per_node < 1
      else if fr.any (fun f => n * f.2 > l.nodes.length * f.1) then some .value
      else none)
      ([(l.cpn, rr.nCores)] ++ (if rr.nGpus ≠ 0 then [(l.gpn, rr.nGpus)] else [])
        ++ (if rr.lfs ≠ 0 then [(l.lfsPn, rr.lfs)] else []) ++ (if rr.mem ≠ 0 then [(l.memPn, rr.mem)] else []))

def rrGe (a b : RR) : Bool :=
  decide (a.nCores ≥ b.nCores ∧ a.nGpus ≥ b.nGpus ∧ a.lfs ≥ b.lfs ∧ a.mem ≥ b.mem ∧ a.coreOcc ≥ b.coreOcc ∧ a.gpuOcc ≥ b.gpuOcc)

/-- `while True: slot = node.find_slot(rr)` on one node: takes slots until the node has no more
    or `need` are found (fuel: a slot takes at least one core) -/
def fillNode (rr : RR) : Nat → ANode → Nat → List ASlot × ANode
  | 0,        n, _        => ([], n)
  | _,        n, 0        => ([], n)
  | fuel + 1, n, need + 1 =>
    match findSlot n rr with
    | none         => ([], n)
    | some (s, n') => (fun (r : List ASlot × ANode) => (s :: r.1, r.2)) (fillNode rr fuel n' need)

def setNode (nodes : List ANode) (pos : Nat) (n : ANode) : List ANode := nodes.set pos n

/-- the loop over the nodes starting at `__index__`: (slots, nodes, position of the node that completed the request) -/
def fillLoop (rr : RR) (start : Int) (need : Nat) : Nat → Nat → List ANode → List ASlot → List ASlot × List ANode × Option Nat
  | 0,         _, nodes, acc => (acc, nodes, none)
  | count + 1, i, nodes, acc =>
    (fun (pos : Nat) =>
      match nodes[pos]? with
      | none      => (acc, nodes, none)
      | some node =>
        match fillNode rr (16 * node.cores.length + 1) node (need - acc.length) with
        | (got, node') =>
          if (acc ++ got).length = need then (acc ++ got, setNode nodes pos node', some pos)
          else fillLoop rr start need count (i + 1) (setNode nodes pos node') (acc ++ got))
      ((start + i) % (nodes.length : Int)).toNat

def releaseAll (nodes : List ANode) : List ASlot → List ANode
  | []      => nodes
  | s :: ss => releaseAll (match nodes[s.node]? with
                           | some n => setNode nodes s.node (deallocate n s)
                           | none   => nodes) ss

inductive FindRes where
  | error (e : Err)
  | none                       -- `return None`
  | slots (s : List ASlot)
deriving DecidableEq, Repr

/-- the failed-request cache: the request is at least as large (per rank and in the number of slots) as the last
    request that failed - nothing was released since, so it fails as well (repaired: the comparison had the two
    requests the other way round, refusing every SMALLER request after a failure) -/
def cacheHit (l : NL) (rr : RR) (n : Nat) : Bool :=
  match l.lastFailed with
  | some (frr, fn) => rrGe rr frr && decide (n ≥ fn)
  | none           => false

/-- `NodeList.find_slots` -/
def findSlots (l : NL) (rr : RR) (n : Nat) : FindRes × NL :=
  match assertRR l rr n with
  | some e => (.error e, l)
  | none   =>
    if cacheHit l rr n then (.none, l)
    else
      match fillLoop rr l.index n l.nodes.length 0 l.nodes [] with
      | (slots, nodes, some stop) => (.slots slots, { l with nodes := nodes, index := stop })
      | (slots, nodes, none)      =>
        (.none, { l with nodes := releaseAll nodes slots, lastFailed := some (rr, n) })

/-- `NodeList.release_slots` -/
def releaseSlots (l : NL) (slots : List ASlot) : NL :=
  { l with nodes := releaseAll l.nodes slots,
           index := if l.lastFailed.isSome then ((slots.map (fun s => (s.node : Int))).foldl min ((slots.map (fun s => (s.node : Int))).headD 0)) - 1 else l.index,
           lastFailed := none }

/-! ### placements supplied by the application: `Node.allocate_slot(slot)` with its consistency checks -/

/-- every named entry exists, is not DOWN and has room for the occupation asked for (each entry is
    judged against the node as it is: `BUSY - occupation >= ro.occupation`) -/
def roomFor (l : List (Option Int)) (taken : List (Nat × Nat)) : Bool :=
  taken.all (fun e => match l[e.1]? with
                      | some (some v) => decide ((e.2 : Int) ≤ 16 - v)
                      | _             => false)

/-- `allocate_slot(slot, _check=True)`; `none` = the slot is refused (AssertionError / TypeError) -/
def allocChecked (n : ANode) (s : ASlot) : Option ANode :=
  if s.node = n.index ∧ roomFor n.cores s.cores = true ∧ roomFor n.gpus s.gpus = true
     ∧ (s.lfs = 0 ∨ (s.lfs : Int) ≤ n.lfs) ∧ (s.mem = 0 ∨ (s.mem : Int) ≤ n.mem)
  then some (allocate n s) else none

/-- the application places a slot of its own on node `pos` of the node list -/
def allocApp (l : NL) (pos : Nat) (s : ASlot) : Option NL :=
  match l.nodes[pos]? with
  | none   => none
  | some n =>
    match allocChecked n s with
    | none    => none
    | some n' => some { l with nodes := setNode l.nodes pos n' }

/-- a slot names each core and each GPU at most once -/
def slotWF (s : ASlot) : Bool := decide ((s.cores.map (·.1)).Nodup) && decide ((s.gpus.map (·.1)).Nodup)

/-! ### several application threads on one node

`Node.find_slot` searches what is free and books it.  With both inside one section of the node's lock
(`atomic = true`) a call is one step; with the booking outside (`atomic = false`) a call is two steps - the search,
then the booking of what the search found (`allocate_slot(_check=False)` does not look again) - and other threads'
steps may come in between. -/

structure CState where
  node  : ANode
  pend  : List (Nat × ASlot)              -- thread k has found a slot and not booked it yet
  rpend : List (Nat × ANode)              -- thread k has computed the node without a slot and not written it yet
  got   : List (Nat × Option ASlot)       -- answers, in the order they were given
deriving Repr

inductive CStep where
  | call (k : Nat) (rr : RR)             -- thread k enters `find_slot`
  | book (k : Nat)                       -- thread k books what its search found (non-atomic code only)
  | release (k : Nat) (sl : ASlot)       -- thread k gives a slot back (`deallocate_slot`)
  | write (k : Nat)                      -- thread k writes back what its release computed (unlocked code only)
deriving Repr

/-- `atomic`: search and booking of `find_slot` share one lock section; `relAtomic`: `deallocate_slot` runs inside
    the lock.  The unlocked variants are read-then-write: what was read may be stale when it is written (for the
    release the whole record is written back here; the real code does so counter by counter) -/
def cstep (atomic relAtomic : Bool) (s : CState) : CStep → CState
  | .call k rr =>
    match findSlot s.node rr with
    | none => { s with got := s.got ++ [(k, none)] }
    | some (sl, n') =>
      if atomic then { s with node := n', got := s.got ++ [(k, some sl)] }
      else { s with pend := s.pend ++ [(k, sl)] }
  | .book k =>
    match s.pend.find? (fun e => e.1 = k) with
    | none         => s
    | some (_, sl) => { s with node := allocate s.node sl, pend := s.pend.filter (fun e => e.1 ≠ k),
                               got := s.got ++ [(k, some sl)] }
  | .release k sl =>
    if relAtomic then { s with node := deallocate s.node sl }
    else { s with rpend := s.rpend ++ [(k, deallocate s.node sl)] }
  | .write k =>
    match s.rpend.find? (fun e => e.1 = k) with
    | none        => s
    | some (_, n) => { s with node := n, rpend := s.rpend.filter (fun e => e.1 ≠ k) }

def crun (atomic relAtomic : Bool) (s : CState) (steps : List CStep) : CState := steps.foldl (cstep atomic relAtomic) s

/-- the same calls and releases one after the other, in the order the schedule lets them in -/
def seqCalls (n : ANode) : List CStep → ANode × List (Nat × Option ASlot)
  | []                  => (n, [])
  | .book _ :: rest     => seqCalls n rest
  | .write _ :: rest    => seqCalls n rest
  | .release _ sl :: rest => seqCalls (deallocate n sl) rest
  | .call k rr :: rest  =>
    match findSlot n rr with
    | none          => ((seqCalls n rest).1, (k, none) :: (seqCalls n rest).2)
    | some (sl, n') => ((seqCalls n' rest).1, (k, some sl) :: (seqCalls n' rest).2)

end RPVerif.NodeList
