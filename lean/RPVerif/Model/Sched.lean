/-
Model of the agent scheduler (properties C01–C04):
  agent/scheduler/continuous.py  Continuous._iterate_nodes, _find_resources,
                                 schedule_task, unschedule_task
  agent/scheduler/base.py        _change_slot_states, _try_allocation,
                                 _schedule_incoming, _schedule_waitpool,
                                 _unschedule_completed, _schedule_tasks (loop)
  utils/component.py             is_canceled
  radical.utils                  lazy_bisect (ratio 0.5), tied separately
GPU amounts are counted in sixteenths (dyadic floats are exact): 16 = one GPU.
-/
namespace RPVerif.Sched

inductive Occ where
  | free | busy | down
deriving DecidableEq, Repr

structure NodeSt where
  index : Nat
  cores : List Occ
  gpus  : List Occ
  lfs   : Int
  mem   : Int
deriving DecidableEq, Repr

structure Slot where
  node  : Nat
  cores : List Nat
  gpus  : List (Nat × Nat)     -- (gpu index, share in 1/16)
  lfs   : Nat
  mem   : Nat
deriving DecidableEq, Repr

structure Req where
  uid   : Nat
  ranks : Int
  cpr   : Nat                  -- cores_per_rank
  gpr   : Nat                  -- gpus_per_rank in 1/16
  lfs   : Nat
  mem   : Nat
  rpn   : Nat := 0             -- ranks_per_node, 0 = None
  colo  : Option Nat := none   -- tags['colocate']
  excl  : Bool := false        -- tags['exclusive']
  prio  : Int := 0
  env   : Option Nat := none   -- named_env
  app   : Option (List Slot) := none   -- application supplied slots
deriving DecidableEq, Repr

inductive Err where
  | assertion | value | runtime | type
deriving DecidableEq, Repr

/-- static information from the resource manager -/
structure Cfg where
  cpn : Nat
  gpn : Nat
  lfsPn : Nat
  memPn : Nat
  scattered : Bool := true
deriving Repr

/-! ### `_find_resources` -/

/-- the `for core_idx, core in enumerate(cores[start:], start)` loop: collects
    free entries until `need` are found; returns the picked indices and the index
    of the last entry examined (`none` if the slice was empty) -/
def pickFree : List Occ → Nat → Nat → List Nat → List Nat × Option Nat
  | [],      _,   _,    acc => (acc, none)
  | o :: os, idx, need, acc =>
    if (if o = .free then acc ++ [idx] else acc).length = need then
      ((if o = .free then acc ++ [idx] else acc), some idx)
    else
      match pickFree os (idx + 1) need (if o = .free then acc ++ [idx] else acc) with
      | (r, none)   => (r, some idx)
      | (r, some l) => (r, some l)

def occVal : Occ → Nat
  | .free => 0
  | _     => 16

def shareOf (sh : List (Nat × Nat)) (g : Nat) : Nat :=
  (sh.filter (fun p => p.1 = g)).foldl (fun a p => a + p.2) 0

/-- fractional GPU: first GPU from `start` with room for `share`; returns the GPU
    taken (if any) and the new `loop_gpu_idx` -/
def pickShare : List Occ → Nat → Nat → List (Nat × Nat) → Option Nat × Nat
  | [],      idx, _,     _  => (none, idx)
  | o :: os, idx, share, sh =>
    if o ≠ .down ∧ share + occVal o + shareOf sh idx ≤ 16 then (some idx, idx)
    else pickShare os (idx + 1) share sh

structure FRState where
  loopCore : Nat := 0
  loopGpu  : Nat := 0
  shares   : List (Nat × Nat) := []
  slots    : List Slot := []
deriving Repr

/-- one iteration of the `while len(slots) < n_slots` loop; `none` = `break` -/
def findOne (n : NodeSt) (cps gpr lfs mem : Nat) (st : FRState) : Except Err (Option FRState) :=
  if lfs ≠ 0 ∧ n.lfs < (lfs * (st.slots.length + 1) : Nat) then .ok none
  else if mem ≠ 0 ∧ n.mem < (mem * (st.slots.length + 1) : Nat) then .ok none
  else
    match pickFree (n.cores.drop st.loopCore) st.loopCore cps [] with
    | (cs, last) =>
      if cs.length < cps then .ok none
      else
        if gpr ≥ 16 then
          if gpr % 16 ≠ 0 then .error .value                -- 'cannot share GPUs>1'
          else
            match pickFree (n.gpus.drop st.loopGpu) st.loopGpu (gpr / 16) [] with
            | (gs, glast) =>
              if gs.length < gpr / 16 then .ok none
              else .ok (some { loopCore := (match last with | some l => l + 1 | none => st.loopCore),
                               loopGpu := (match glast with | some l => l + 1 | none => st.loopGpu),
                               shares := st.shares,
                               slots := st.slots ++ [{ node := n.index, cores := cs,
                                                       gpus := gs.map (fun g => (g, 16)), lfs := lfs, mem := mem }] })
        else if gpr > 0 then
          match pickShare (n.gpus.drop st.loopGpu) st.loopGpu gpr st.shares with
          | (none, _)       => .ok none
          | (some g, lg)    =>
            .ok (some { loopCore := (match last with | some l => l + 1 | none => st.loopCore),
                        loopGpu := lg, shares := st.shares ++ [(g, gpr)],
                        slots := st.slots ++ [{ node := n.index, cores := cs, gpus := [(g, gpr)],
                                                lfs := lfs, mem := mem }] })
        else
          .ok (some { loopCore := (match last with | some l => l + 1 | none => st.loopCore),
                      loopGpu := st.loopGpu, shares := st.shares,
                      slots := st.slots ++ [{ node := n.index, cores := cs, gpus := [], lfs := lfs, mem := mem }] })

def findLoop (n : NodeSt) (cps gpr lfs mem : Nat) : Nat → FRState → Except Err (List Slot)
  | 0,        st => .ok st.slots
  | k + 1,    st =>
    match findOne n cps gpr lfs mem st with
    | .error e       => .error e
    | .ok none       => .ok st.slots
    | .ok (some st') => findLoop n cps gpr lfs mem k st'

/-- `_find_resources(node, n_slots, ..., partial)`; `.ok none` = `None` -/
def findResources (n : NodeSt) (nSlots cps gpr lfs mem : Nat) (partialOk : Bool) :
    Except Err (Option (List Slot)) :=
  match findLoop n cps gpr lfs mem nSlots {} with
  | .error e  => .error e
  | .ok slots => if ¬ partialOk ∧ slots.length < nSlots then .ok none else .ok (some slots)

/-! ### `schedule_task` -/

structure SchedSt where
  nodes     : List NodeSt
  offset    : Nat := 0                          -- `_node_offset`
  coloHist  : List (Nat × List Nat) := []       -- `_colo_history`
  tagged    : List Nat := []                    -- `_tagged_nodes`
  activeCnt : Int := 0
  waitpool  : List (Int × List Req) := []       -- priority -> tasks (insertion order)
  envs      : List Nat := []                    -- `_named_envs`
  cancel    : List Nat := []                    -- `_cancel_list`
  given     : List (Nat × List Slot) := []      -- task['slots'] by uid (last placement)
  unschedQ  : List (List Nat) := []             -- messages still on the unschedule queue
  /-- history variable (not in the code): the placements made by the scheduler that were not yet
      released, as (uid, slots); written by `_try_allocation` and `_unschedule_completed`, never read -/
  held      : List (Nat × List Slot) := []
deriving Repr

def slotsPerNode (c : Cfg) (r : Req) (cps : Nat) : Nat :=
  (fun s0 : Nat =>
    (fun s1 : Nat =>
      (fun s2 : Nat =>
        (fun s3 : Nat => if r.mem ≠ 0 then min s3 (c.memPn / r.mem) else s3)
          (if r.lfs ≠ 0 then min s2 (c.lfsPn / r.lfs) else s2))
        (if r.gpr ≠ 0 then min s1 (c.gpn * 16 / r.gpr) else s1))
      (if r.rpn ≠ 0 then min s0 r.rpn else s0))
    (c.cpn / cps)

structure IterSt where
  alc      : List Slot := []
  rem      : Nat
  isFirst  : Bool := true
  isLast   : Bool := false
  offset   : Nat
deriving Repr

def coloSkip (colo : Option (List Nat)) (idx : Nat) : Bool :=
  match colo with
  | some l => decide (idx ∉ l)
  | none   => false

def resEmpty (res : Option (List Slot)) : Bool :=
  match res with
  | some l => decide (l = [])
  | none   => true

def resList (res : Option (List Slot)) : List Slot :=
  match res with
  | some l => l
  | none   => []

/-- the `for node in self._iterate_nodes()` loop; `count` = nodes still to yield.
    Returns allocation state and the final `_node_offset`. -/
def nodeLoop (c : Cfg) (nodes : List NodeSt) (r : Req) (cps spn req : Nat) (mpi : Bool)
    (colo : Option (List Nat)) (skipTagged : List Nat) :
    Nat → IterSt → Except (Err × Nat) IterSt          -- an error carries the `_node_offset` reached
  | 0,         it => .ok it
  | count + 1, it =>
    match nodes[it.offset]? with
    | none      => .ok it
    | some node =>
      -- what `_iterate_nodes` does when resumed: advance the offset
      (fun (next : Nat) =>
        if coloSkip colo node.index then
          nodeLoop c nodes r cps spn req mpi colo skipTagged count { it with offset := next }
        else if node.index ∈ skipTagged then
          nodeLoop c nodes r cps spn req mpi colo skipTagged count { it with offset := next }
        else
          (fun (isLast : Bool) =>
            match findResources node (min it.rem spn) cps r.gpr r.lfs r.mem
                    (if ¬ mpi then false else (it.isFirst || c.scattered || isLast)) with
            | .error e => .error (e, it.offset)
            | .ok res =>
              if resEmpty res then
                if ¬ c.scattered then
                  nodeLoop c nodes r cps spn req mpi colo skipTagged count
                    { it with alc := [], rem := req, isFirst := true, isLast := false, offset := next }
                else
                  nodeLoop c nodes r cps spn req mpi colo skipTagged count
                    { it with isLast := isLast, offset := next }
              else
                (fun (new : List Slot) =>
                  if it.rem - new.length = 0 then
                    -- `break`: the generator is not resumed, the offset stays on this node
                    .ok { it with alc := it.alc ++ new, rem := 0, isFirst := false, isLast := isLast }
                  else
                    nodeLoop c nodes r cps spn req mpi colo skipTagged count
                      { it with alc := it.alc ++ new, rem := it.rem - new.length, isFirst := false,
                                isLast := isLast, offset := next })
                  (resList res))
            (it.isLast || decide (it.rem < spn)))
        ((it.offset + 1) % nodes.length)

/-- `cores_per_rank`, at least one -/
def cpsOf (r : Req) : Nat := if r.cpr = 0 then 1 else r.cpr

/-- the nodes a colocate tag is bound to (`_colo_history`) -/
def coloOf (s : SchedSt) (r : Req) : Option (List Nat) :=
  match r.colo with
  | some tag => (match s.coloHist.find? (fun e => e.1 = tag) with | some e => some e.2 | none => none)
  | none => none

/-- nodes to leave alone for a new exclusive tag (`_tagged_nodes`) -/
def skipOf (s : SchedSt) (r : Req) : List Nat :=
  match r.colo with
  | some tag =>
    if (s.coloHist.find? (fun e => e.1 = tag)).isNone ∧ r.excl
       ∧ s.nodes.length > s.tagged.length then s.tagged else []
  | none => []

/-- what `schedule_task` does with the outcome of the node loop -/
def finishTask (s : SchedSt) (r : Req) (it : IterSt) : Except Err (Option (List Slot)) × SchedSt :=
  if it.rem > 0 then (.ok none, { s with offset := it.offset })
  else
    match r.colo with
    | some tag =>
      (.ok (some it.alc),
       { s with offset := it.offset,
                coloHist := (s.coloHist.filter (fun e => e.1 ≠ tag)) ++ [(tag, it.alc.map (·.node))],
                tagged := (it.alc.map (·.node)).foldl (fun t n => if n ∈ t then t else t ++ [n]) s.tagged })
    | none => (.ok (some it.alc), { s with offset := it.offset })

/-- `Continuous.schedule_task`; `.ok none` = `(None, None)` -/
def scheduleTask (c : Cfg) (s : SchedSt) (r : Req) : Except Err (Option (List Slot)) × SchedSt :=
  if cpsOf r > c.cpn ∨ r.gpr > c.gpn * 16 ∨ r.lfs > c.lfsPn ∨ r.mem > c.memPn then (.error .assertion, s)
  else if ¬ decide (r.ranks > 1) ∧ r.ranks.toNat > slotsPerNode c r (cpsOf r) then (.error .value, s)
  else
    match nodeLoop c s.nodes r (cpsOf r) (slotsPerNode c r (cpsOf r)) r.ranks.toNat (decide (r.ranks > 1))
            (coloOf s r) (skipOf s r) s.nodes.length { rem := r.ranks.toNat, offset := s.offset } with
    | .error (e, off) => (.error e, { s with offset := off })
    | .ok it          => finishTask s r it

/-! ### `_change_slot_states` -/

def setAt (l : List Occ) (i : Nat) (v : Occ) : List Occ := l.set i v

def applySlot (n : NodeSt) (sl : Slot) (busy : Bool) : NodeSt :=
  { n with cores := sl.cores.foldl (fun cs i => setAt cs i (if busy then .busy else .free)) n.cores,
           gpus  := sl.gpus.foldl (fun gs g => setAt gs g.1 (if busy then .busy else .free)) n.gpus,
           lfs   := if busy then n.lfs - sl.lfs else n.lfs + sl.lfs,
           mem   := if busy then n.mem - sl.mem else n.mem + sl.mem }

/-- `none` = RuntimeError('inconsistent node information') -/
def changeSlotStates : List NodeSt → List Slot → Bool → Option (List NodeSt)
  | ns, [],        _    => some ns
  | ns, sl :: sls, busy =>
    if ns.any (fun n => n.index = sl.node) then
      changeSlotStates (ns.map (fun n => if n.index = sl.node then applySlot n sl busy else n)) sls busy
    else none

/-! ### `_try_allocation` -/

inductive Ev where
  | adv (uid : Nat) (state : String)      -- advance(task, state)
deriving DecidableEq, Repr

/-- result: `.ok true` placed, `.ok false` must wait, `.error` -> task FAILED by the caller -/
def tryAllocation (c : Cfg) (s : SchedSt) (r : Req) : Except Err Bool × SchedSt :=
  match scheduleTask c s r with
  | (.error e, s')      => (.error e, s')
  | (.ok none, s')      => if s'.activeCnt = 0 then (.error .runtime, s') else (.ok false, s')
  | (.ok (some []), s') => if s'.activeCnt = 0 then (.error .runtime, s') else (.ok false, s')
  | (.ok (some slots), s') =>
    match changeSlotStates s'.nodes slots true with
    | none    => (.error .runtime, { s' with activeCnt := s'.activeCnt + 1 })
    | some ns => (.ok true, { s' with nodes := ns, activeCnt := s'.activeCnt + 1,
                                      given := (s'.given.filter (fun e => e.1 ≠ r.uid)) ++ [(r.uid, slots)],
                                      held  := s'.held ++ [(r.uid, slots)] })

/-! ### `ru.lazy_bisect` (ratio 0.5) with a stateful check -/

structure BisSt where
  lastGood : Option Nat := none
  lastBad  : Option Nat := none
  good : List Nat := []
  bad  : List Nat := []
  fail : List Nat := []
deriving Repr

/-- one call of `check` (= `_try_allocation`) on element `idx`, recorded -/
def bisCheck (c : Cfg) (data : List Req) (idx : Nat) (b : BisSt) (s : SchedSt) : Bool × BisSt × SchedSt :=
  match data[idx]? with
  | none   => (false, b, s)
  | some r =>
    match tryAllocation c s r with
    | (.ok true, s')  => (true,  { b with good := b.good ++ [idx] }, s')
    | (.ok false, s') => (false, { b with bad := b.bad ++ [idx] }, s')
    | (.error _, s')  => (false, { b with fail := b.fail ++ [idx] }, s')

/-- indices strictly between `idx` and `lastBad` that are unknown are marked bad (skipped) -/
def markSkipped (b : BisSt) (lastBad idx : Nat) : BisSt :=
  (List.range (lastBad - idx - 1)).foldl
    (fun b i => if (lastBad - i - 1) ∉ b.bad ∧ (lastBad - i - 1) ∉ b.good
                then { b with bad := b.bad ++ [lastBad - i - 1] } else b) b

def ceilHalf (x : Nat) : Nat := (x + 1) / 2     -- ceil(x * 0.5)

/-- the bisected candidate index -/
def bisIdx (og : Option Nat) (bad : Nat) : Nat :=
  let idx0 := match og with
    | some g => min (ceilHalf (bad - g + 1) + g) (bad - 1)
    | none   => min (ceilHalf (bad + 1)) (bad - 1)
  let idx1 := if og = some idx0 then idx0 + 1 else idx0
  if idx1 = bad then bad - 1 else idx1

def resetGood (og : Option Nat) (bad : Nat) : Option Nat :=
  match og with
  | some g => if g > bad then none else some g
  | none   => none

def bisLoop (c : Cfg) (data : List Req) : Nat → BisSt → SchedSt → BisSt × SchedSt
  | 0,        b, s => (b, s)
  | fuel + 1, b, s =>
    match b.lastGood, b.lastBad with
    | none, none =>
      match bisCheck c data (data.length - 1) b s with
      | (true,  b', s') => bisLoop c data fuel { b' with lastGood := some (data.length - 1) } s'
      | (false, b', s') => bisLoop c data fuel { b' with lastBad := some (data.length - 1) } s'
    | some g, none =>
      if g = 0 then (b, s)
      else if (g - 1) ∈ b.good then bisLoop c data fuel { b with lastGood := some (g - 1) } s
      else if (g - 1) ∈ b.bad then bisLoop c data fuel { b with lastBad := some (g - 1) } s
      else
        match bisCheck c data (g - 1) b s with
        | (true,  b', s') => bisLoop c data fuel { b' with lastGood := some (g - 1) } s'
        | (false, b', s') => bisLoop c data fuel { b' with lastBad := some (g - 1) } s'
    | og, some bad =>
      if bad = 0 then (b, s)
      else
        match (if bisIdx (resetGood og bad) bad ∈ b.good then (true, b, s)
               else if bisIdx (resetGood og bad) bad ∈ b.bad then (false, b, s)
               else bisCheck c data (bisIdx (resetGood og bad) bad) b s) with
        | (true, b', s') =>
          if bad < bisIdx (resetGood og bad) bad then
            bisLoop c data fuel { b' with lastGood := none, lastBad := some bad } s'
          else if bad - bisIdx (resetGood og bad) bad = 1 then
            bisLoop c data fuel { b' with lastGood := some (bisIdx (resetGood og bad) bad), lastBad := none } s'
          else
            bisLoop c data fuel { b' with lastGood := some (bisIdx (resetGood og bad) bad), lastBad := some bad } s'
        | (false, b', s') =>
          bisLoop c data fuel
            { markSkipped b' bad (bisIdx (resetGood og bad) bad) with
                lastBad := some (bisIdx (resetGood og bad) bad),
                lastGood := resetGood (resetGood og bad) (bisIdx (resetGood og bad) bad) }
            s'

/-- `lazy_bisect(data, check)`: (good, bad, failed) element indices in discovery order.
    The `while True` loop of the code has no bound; the fuel given here is one that the loop provably
    never uses up (`Lemmas/BisectAll.lean`: every pass lowers a measure that starts below it), so the
    model's answer is the loop's answer for every input. -/
def lazyBisect (c : Cfg) (data : List Req) (s : SchedSt) : BisSt × SchedSt :=
  if data = [] then ({}, s) else bisLoop c data ((data.length + 2) * (data.length + 2)) {} s


/-! ### the scheduling loop -/

/-- stable sort, descending by key (Python `sorted(..., reverse=True)`) -/
def insertDesc (key : Req → Int) (x : Req) : List Req → List Req
  | []      => [x]
  | y :: ys => if key y < key x then x :: y :: ys else y :: insertDesc key x ys

def sortDesc (key : Req → Int) (l : List Req) : List Req :=
  l.foldl (fun acc x => insertDesc key x acc) []

def poolOf (wp : List (Int × List Req)) (p : Int) : List Req :=
  match wp.find? (fun e => e.1 = p) with
  | some e => e.2
  | none   => []

def setPool (wp : List (Int × List Req)) (p : Int) (l : List Req) : List (Int × List Req) :=
  if wp.any (fun e => e.1 = p) then wp.map (fun e => if e.1 = p then (p, l) else e) else wp ++ [(p, l)]

/-- dict semantics of `self._waitpool[priority][uid] = task` -/
def poolInsert (l : List Req) (r : Req) : List Req :=
  if l.any (fun x => x.uid = r.uid) then l.map (fun x => if x.uid = r.uid then r else x) else l ++ [r]

def prios (wp : List (Int × List Req)) : List Int :=
  (wp.map (·.1)).foldl (fun acc p => if acc.any (· = p) then acc else
      (acc.filter (· > p)) ++ [p] ++ (acc.filter (· < p))) []

/-- what one iteration of the loop reads from its queues -/
inductive Msg where
  | sched (ts : List Req)        -- (tasks, _SCHEDULE)
  | cancel (uids : List Nat)     -- (uids,  _CANCEL)
deriving Repr

structure Iter where
  incoming  : List Msg := []
  marks     : List Nat := []       -- uids appended to `_cancel_list` before this iteration
  envs      : List Nat := []       -- named environments registered before this iteration
  unsched   : List (List Nat) := []  -- messages put on the unschedule queue before this iteration
deriving Repr

def removeFromPools (wp : List (Int × List Req)) (uid : Nat) : List (Int × List Req) × Option Req :=
  match wp.find? (fun e => e.2.any (fun r => r.uid = uid)) with
  | none   => (wp, none)
  | some e => (wp.map (fun x => if x.1 = e.1 then (x.1, x.2.filter (fun r => r.uid ≠ uid)) else x),
               e.2.find? (fun r => r.uid = uid))

def pickIdx (data : List Req) (idxs : List Nat) : List Req := idxs.filterMap (fun i => data[i]?)

/-- the named environment of the task (if any) is registered: the task may be tried -/
def envOk (envs : List Nat) (r : Req) : Bool :=
  match r.env with
  | some e => decide (e ∈ envs)
  | none   => true

/-- the task names an environment that is not registered yet: it stays in the pool untried -/
def envWait (envs : List Nat) (r : Req) : Bool :=
  match r.env with
  | some e => decide (e ∉ envs)
  | none   => false

/-- `_schedule_waitpool` for one priority pool -/
def waitpoolOne (c : Cfg) (s : SchedSt) (p : Int) : SchedSt × List Ev × Bool × Bool :=
  (fun (pool : List Req) =>
    if pool = [] then (s, [], false, false)     -- `continue`
    else
      (fun (toTest toWait : List Req) =>
        if toTest = [] then (s, [], false, false)
        else
          (fun (data : List Req) =>
            match lazyBisect c data s with
            | (b, s') =>
              ({ s' with waitpool := setPool s'.waitpool p (pickIdx data b.bad ++ toWait) },
               (pickIdx data b.fail).map (fun r => Ev.adv r.uid "FAILED")
                 ++ (pickIdx data b.good).map (fun r => Ev.adv r.uid "AGENT_EXECUTING_PENDING"),
               decide (b.good ≠ []), decide (b.bad ≠ [])))
            (sortDesc (fun r => r.ranks * r.cpr * r.gpr) toTest))
        (pool.filter (envOk s.envs))
        (pool.filter (envWait s.envs)))
    (poolOf s.waitpool p)

/-- `_schedule_waitpool`: returns (state, events, resources, active) -/
def scheduleWaitpool (c : Cfg) (s : SchedSt) : SchedSt × List Ev × Bool × Bool :=
  (prios s.waitpool).foldl
    (fun (acc : SchedSt × List Ev × Bool × Bool) p =>
      match waitpoolOne c acc.1 p with
      | (s', evs, act, unsched) => (s', acc.2.1 ++ evs, acc.2.2.1 && !unsched, acc.2.2.2 || act))
    (s, [], true, false)

/-- the queue-draining part of `_schedule_incoming` -/
def drainIncoming (s : SchedSt) : List Msg → List Req → List Ev → SchedSt × List Req × List Ev
  | [],                toSched, evs => (s, toSched, evs)
  | .cancel uids :: ms, toSched, evs =>
    (fun (r : SchedSt × List Ev) => drainIncoming r.1 ms toSched (evs ++ r.2))
      (uids.foldl (fun (acc : SchedSt × List Ev) uid =>
          match removeFromPools acc.1.waitpool uid with
          | (wp, some t) => ({ acc.1 with waitpool := wp }, acc.2 ++ [Ev.adv t.uid "CANCELED"])
          | (_,  none)   => acc) (s, []))
  | .sched ts :: ms,   toSched, evs =>
    drainIncoming s ms (toSched ++ ts.filter (fun t => t.ranks > 0))
      (evs ++ (ts.filter (fun t => t.ranks ≤ 0)).map (fun t => Ev.adv t.uid "FAILED"))

/-- the task names an environment that is not (yet) registered -/
def envMissing (s : SchedSt) (t : Req) : Bool :=
  match t.env with
  | some e => decide (e ∉ s.envs)
  | none   => false

/-- placement of the drained tasks of one priority -/
def incomingOne (c : Cfg) : SchedSt → List Req → List Req → List Ev → SchedSt × List Req × List Ev
  | s, [],      toWait, evs => (s, toWait, evs)
  | s, t :: ts, toWait, evs =>
    if envMissing s t then
      incomingOne c s ts (toWait ++ [t]) evs
    else
      match t.app with
      | some slots =>
        if slots ≠ [] then
          -- application supplied placement: passed on as is (nothing marked, nothing counted)
          incomingOne c { s with given := (s.given.filter (fun e => e.1 ≠ t.uid)) ++ [(t.uid, slots)] } ts toWait
            (evs ++ [Ev.adv t.uid "AGENT_EXECUTING_PENDING"])
        else
          match tryAllocation c s t with
          | (.ok true,  s') => incomingOne c s' ts toWait (evs ++ [Ev.adv t.uid "AGENT_EXECUTING_PENDING"])
          | (.ok false, s') => incomingOne c s' ts (toWait ++ [t]) evs
          | (.error _,  s') => incomingOne c s' ts toWait (evs ++ [Ev.adv t.uid "FAILED"])
      | none =>
        match tryAllocation c s t with
        | (.ok true,  s') => incomingOne c s' ts toWait (evs ++ [Ev.adv t.uid "AGENT_EXECUTING_PENDING"])
        | (.ok false, s') => incomingOne c s' ts (toWait ++ [t]) evs
        | (.error _,  s') => incomingOne c s' ts toWait (evs ++ [Ev.adv t.uid "FAILED"])

/-- insertion into the wait pool with the post-insert `is_canceled` check -/
def parkTasks (p : Int) : SchedSt → List Req → List Ev → SchedSt × List Ev
  | s, [],      evs => (s, evs)
  | s, t :: ts, evs =>
    if t.uid ∈ s.cancel then
      parkTasks p { s with cancel := s.cancel.erase t.uid,
                           waitpool := setPool s.waitpool p ((poolInsert (poolOf s.waitpool p) t).filter (fun r => r.uid ≠ t.uid)) } ts
        (evs ++ [Ev.adv t.uid "CANCELED"])
    else
      parkTasks p { s with waitpool := setPool s.waitpool p (poolInsert (poolOf s.waitpool p) t) } ts evs

def distinctPriosDesc (ts : List Req) : List Int :=
  (ts.map (·.prio)).foldl (fun acc p => if acc.any (· = p) then acc else
      (acc.filter (· > p)) ++ [p] ++ (acc.filter (· < p))) []

/-- `_schedule_incoming`: (state, events, resources : Option Bool, active) -/
def scheduleIncoming (c : Cfg) (s : SchedSt) (msgs : List Msg) : SchedSt × List Ev × Option Bool × Bool :=
  match drainIncoming s msgs [] [] with
  | (s1, toSched, evs) =>
    if toSched = [] then (s1, evs, none, false)
    else
      (fun (r : SchedSt × List Ev × Bool) => (r.1, r.2.1, some r.2.2, true))
        ((distinctPriosDesc toSched).foldl
          (fun (acc : SchedSt × List Ev × Bool) p =>
            match incomingOne c acc.1 (sortDesc (fun r => r.ranks) (toSched.filter (fun t => t.prio = p))) [] [] with
            | (s2, toWait, evs2) =>
              match parkTasks p s2 toWait [] with
              | (s3, evs3) => (s3, acc.2.1 ++ evs2 ++ evs3, toWait = []))
          (s1, evs, true))

/-- the queue is drained message by message until it is empty or more than 512
    tasks have been collected (the message that crosses the limit is still taken) -/
def drainUnsched : List (List Nat) → List Nat → List Nat × List (List Nat)
  | [],      acc => (acc, [])
  | m :: ms, acc => if (acc ++ m).length > 512 then (acc ++ m, ms) else drainUnsched ms (acc ++ m)

/-- the release of one task named on the unschedule queue: `_change_slot_states(task['slots'], FREE)` -/
def releaseOne (acc : SchedSt) (uid : Nat) : SchedSt :=
  match acc.given.find? (fun e => e.1 = uid) with
  | none   => acc
  | some e =>
    match changeSlotStates acc.nodes e.2 false with
    | none    => acc
    | some ns => { acc with nodes := ns, held := acc.held.erase e }

/-- `_unschedule_completed`: (state, resources, active) -/
def unscheduleCompleted (s : SchedSt) (msgs : List (List Nat)) : SchedSt × Bool × Bool :=
  match drainUnsched (s.unschedQ ++ msgs) [] with
  | (uids, rest) =>
    if uids = [] then ({ s with unschedQ := rest }, false, false)
    else
      (uids.foldl releaseOne
        { s with activeCnt := s.activeCnt - uids.length, unschedQ := rest }, true, true)

/-- the part of an iteration before `_unschedule_completed`: marks and environments arrive, the wait
    pool is tried (if there may be resources), incoming tasks are placed or parked -/
def loopIterA (c : Cfg) (s : SchedSt) (res : Bool) (it : Iter) : SchedSt × Bool × List Ev :=
  (fun (s0 : SchedSt) =>
    (fun (w : SchedSt × List Ev × Bool × Bool) =>
      match scheduleIncoming c w.1 it.incoming with
      | (s2, evs2, rInc, _) =>
        (s2, (if res ∧ (w.2.2.1 = false ∧ rInc = some false) then false else res), w.2.1 ++ evs2))
      (if res then scheduleWaitpool c s0 else (s0, [], false, false)))
    { s with cancel := s.cancel ++ it.marks, envs := s.envs ++ it.envs }

/-- one iteration of the `while` loop of `_schedule_tasks`; `res` is the `resources` flag -/
def loopIter (c : Cfg) (s : SchedSt) (res : Bool) (it : Iter) : SchedSt × Bool × List Ev :=
  match loopIterA c s res it with
  | (s2, res1, evs) =>
    match unscheduleCompleted s2 it.unsched with
    | (s3, r, _) => (s3, (if ¬ res1 ∧ r then true else res1), evs)

/-- the uids `_unschedule_completed` takes off its queue in this iteration -/
def drained (s : SchedSt) (msgs : List (List Nat)) : List Nat := (drainUnsched (s.unschedQ ++ msgs) []).1

/-- hypothesis on the environment of the scheduler (executor, C07): the release messages name
    placements that are held, each at most once - what `given` records for the uid is the next
    placement to be taken out of `held` -/
def relOK (given held : List (Nat × List Slot)) : List Nat → Bool
  | []      => true
  | u :: us =>
    match given.find? (fun e => e.1 = u) with
    | some e => decide (e ∈ held) && relOK given (held.erase e) us
    | none   => false

def runLoop (c : Cfg) : SchedSt → Bool → List Iter → List (List Ev) → SchedSt × Bool × List (List Ev)
  | s, res, [],        acc => (s, res, acc)
  | s, res, it :: its, acc =>
    match loopIter c s res it with
    | (s', res', evs) => runLoop c s' res' its (acc ++ [evs])

/-- `relOK` for the release messages of every iteration along a run -/
def runOK (c : Cfg) : SchedSt → Bool → List Iter → Bool
  | _, _,   []        => true
  | s, res, it :: its =>
    relOK (loopIterA c s res it).1.given (loopIterA c s res it).1.held (drained (loopIterA c s res it).1 it.unsched)
    && runOK c (loopIter c s res it).1 (loopIter c s res it).2.1 its

end RPVerif.Sched
