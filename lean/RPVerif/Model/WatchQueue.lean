/-
Model of the intake of the executor's process watcher (property C07):
  agent/executing/popen.py  Popen._watch: per pass at most MAX_QUEUE_BULKSIZE launched tasks are taken
                            from `_watch_queue` into `to_watch`, then `_check_running(to_watch)` collects
                            the tasks whose process has exited
Tasks are numbers; `exited` says which watched processes have ended when the pass looks at them.
-/
namespace RPVerif.WatchQueue

structure WQ where
  queue    : List Nat := []     -- `_watch_queue`: launched, not yet seen by the watcher
  watching : List Nat := []     -- `to_watch`
  done     : List Nat := []     -- collected (handed on, released) by `_check_running`
deriving DecidableEq, Repr

/-- `Popen._launch_task`: `self._watch_queue.put(task)` for a burst of launched tasks -/
def enqueue (w : WQ) (ts : List Nat) : WQ := { w with queue := w.queue ++ ts }

/-- one pass of the `while not self._term.is_set()` loop -/
def pass (limit : Nat) (w : WQ) (exited : Nat → Bool) : WQ :=
  { queue    := w.queue.drop limit,
    watching := (w.watching ++ w.queue.take limit).filter (fun t => !exited t),
    done     := w.done ++ (w.watching ++ w.queue.take limit).filter exited }

inductive Op where
  | enq (ts : List Nat)
  | pass (exited : List Nat)
deriving Repr

def step (limit : Nat) (w : WQ) : Op → WQ
  | .enq ts  => enqueue w ts
  | .pass ex => pass limit w (fun t => ex.contains t)

def run (limit : Nat) (w : WQ) (ops : List Op) : WQ := ops.foldl (step limit) w

end RPVerif.WatchQueue
