/-
Model of the intake of the executor's process watcher (property C07):
  agent/executing/popen.py  Popen._watch: per pass at most MAX_QUEUE_BULKSIZE launched tasks are taken
                            from `_watch_queue` into `to_watch`, then `_check_running(to_watch)` collects
                            the tasks whose process has exited
Tasks are numbers; `exited` says which watched processes have ended when the pass looks at them.
-/
namespace RPVerif.WatchQueue

structure WQ where
  queue    : List Nat := []     -- `_watch_queue`: launched, not yet seen by the watcher
  watching : List Nat := []     -- `to_watch`
  done     : List Nat := []     -- collected (handed on, released) by `_check_running`
deriving DecidableEq, Repr

/-- `Popen._launch_task`: `self._watch_queue.put(task)` for a burst of launched tasks -/
def enqueue (w : WQ) (ts : List Nat) : WQ := { w with queue := w.queue ++ ts }

/-- one pass of the `while not self._term.is_set()` loop -/
def pass (limit : Nat) (w : WQ) (exited : Nat → Bool) : WQ :=
  { queue    := w.queue.drop limit,
    watching := (w.watching ++ w.queue.take limit).filter (fun t => !exited t),
    done     := w.done ++ (w.watching ++ w.queue.take limit).filter exited }

inductive Op where
  | enq (ts : List Nat)
  | pass (exited : List Nat)
deriving Repr

def step (limit : Nat) (w : WQ) : Op → WQ
  | .enq ts  => enqueue w ts
  | .pass ex => pass limit w (fun t => ex.contains t)

def run (limit : Nat) (w : WQ) (ops : List Op) : WQ := ops.foldl (step limit) w

/-! ### the hand-over of a launched task from the intake thread to the watcher -/

/-- `_launch_task` attaches the process handle to the task and queues the task for the watcher; the watcher thread may make a
    pass (`watch`) at any moment -/
inductive LaunchEv where
  | attach | queue | watch
deriving DecidableEq, Repr

structure LaunchSt where
  attached : Bool := false
  queued   : Bool := false
  dropped  : Bool := false     -- the watcher took the task for one the cancel path has finalised and forgot it for good
deriving DecidableEq, Repr

/-- `_check_running`: a watched task without `'proc'` is skipped and leaves the watch list -/
def launchStep (s : LaunchSt) : LaunchEv → LaunchSt
  | .attach => { s with attached := true }
  | .queue  => { s with queued := true }
  | .watch  => if s.queued && !s.attached then { s with dropped := true } else s

def launchOrder (attachFirst : Bool) : List LaunchEv := if attachFirst then [.attach, .queue] else [.queue, .attach]

def withWatchAt (l : List LaunchEv) (i : Nat) : List LaunchEv := l.take i ++ [.watch] ++ l.drop i

def launchRun (evs : List LaunchEv) : LaunchSt := evs.foldl launchStep {}

/-! ### cancel of a running task: from the registry to the release -/

/-- `Popen.cancel_task` once the task is taken out of the executor's registry (from here on the watcher no longer collects
    it): the launcher signals the process group - which may be gone already (`groupGone`: no group leader, reaped a moment
    ago) -, the process is waited for, the release is published.  With `guarded` (read from the source: the signal is sent
    under a handler for OSError) a missing process group is logged; otherwise the exception ends cancel_task before the
    release.  Returns the number of releases published. -/
def cancelReleases (guarded groupGone : Bool) : Nat :=
  if groupGone && !guarded then 0 else 1

end RPVerif.WatchQueue
