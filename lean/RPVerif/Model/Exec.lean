/-
Model of the Popen executor's handling of ONE task (properties C07, C08, C03):
  agent/executing/popen.py  work / _handle_task / _launch_task (intake thread),
                            _check_running (watcher thread), cancel_task
                            (control thread, timeout watcher, late check in
                            _launch_task)
  agent/executing/base.py   control_cb, _to_watcher, handle_timeout
  utils/component.py        is_canceled
An interleaving system: one step = the code between two accesses to state
shared between the threads (`task['proc']`, `_tasks` under `_check_lock`, the
process object).  `publish`/`advance` are observable outputs (counters).
-/
namespace RPVerif.Exec

/-- the operating-system process -/
inductive Proc where
  | none | running | exited (code : Nat)
deriving DecidableEq, Repr

inductive Outcome where
  | done | failedExit | canceled
deriving DecidableEq, Repr

/-- program counter of one `cancel_task` invocation -/
inductive CPc where
  | c0        -- about to read task.get('proc')
  | c1        -- about to poll
  | c2        -- about to take the lock and test membership
  | c3        -- owner: about to kill and wait
  | c4        -- owner: about to delete task['proc']
  | c5        -- owner: about to set the outcome, publish unschedule, advance
  | cDone
deriving DecidableEq, Repr

inductive IPc where
  | i0                  -- task received
  | i1                  -- EXECUTING announced, in `_tasks`; preparing the launch
  | i2                  -- process spawned
  | i3                  -- timeout registered, handed to the watcher; about to check is_canceled
  | iCancel (c : CPc)   -- the late cancel check fired: inline cancel_task
  | iFault              -- the launch preparation raised: about to publish unschedule and advance FAILED
  | iDone
deriving DecidableEq, Repr

inductive WPc where
  | wIdle               -- between two passes of `_watch` (queue drained at the start of a pass)
  | w0                  -- about to read task.get('proc')
  | w1                  -- about to poll
  | w2b (code : Nat)    -- exit seen, waited, dropped from the watch list: about to delete task['proc']
  | w3 (code : Nat)     -- about to take the lock and test membership
  | w4 (code : Nat)     -- owner: about to publish unschedule and advance (outcome already set)
deriving DecidableEq, Repr

structure ES where
  inTasks  : Bool := false          -- uid in self._tasks
  procKey  : Bool := false          -- 'proc' in task
  proc     : Proc := .none
  mark     : Bool := false          -- uid in self._cancel_list
  watching : Bool := false          -- task is in the watcher's queue / watch list
  armed    : Bool := false          -- timeout registered
  intake   : IPc := .i0
  watcher  : WPc := .wIdle
  cancels  : List CPc := []         -- running cancel_task invocations (control thread, timeout watcher)
  -- observable outputs
  started     : Nat := 0            -- advance(AGENT_EXECUTING)
  unsched     : Nat := 0            -- publish(AGENT_UNSCHEDULE_PUBSUB)
  handed      : Nat := 0            -- advance(AGENT_STAGING_OUTPUT_PENDING, push)
  failed      : Nat := 0            -- advance(FAILED)
  canceledPub : Nat := 0            -- advance(CANCELED) by is_canceled
  outcome     : Option Outcome := none
deriving Repr

inductive Choice where
  | intake              -- the intake thread runs to its next shared access
  | intakeFault         -- ... and the launch preparation raises (no launcher, script error, spawn error)
  | watcher
  | cancel (i : Nat)    -- the i-th cancel_task invocation
  | exit (code : Nat)   -- the process exits by itself
  | cancelReq           -- a cancel request naming the task arrives (control thread)
  | timeout             -- the timeout watcher fires
deriving DecidableEq, Repr

def Proc.isExited : Proc → Bool
  | .exited _ => true
  | _         => false

/-- one step of a `cancel_task` invocation: the new pc ... -/
def cancelPc (s : ES) : CPc → CPc
  | .c0 => if s.procKey then .c1 else .cDone          -- `if not proc: return`
  | .c1 => if s.proc.isExited then .cDone else .c2    -- `if exit_code is not None: return`
  | .c2 => if s.inTasks then .c3 else .cDone          -- `if tid not in self._tasks: return`
  | .c3 => .c4
  | .c4 => .c5
  | .c5 => .cDone
  | .cDone => .cDone

/-- ... and the new shared state -/
def cancelSt (s : ES) : CPc → ES
  | .c2 => if s.inTasks then { s with inTasks := false } else s           -- `del self._tasks[tid]`
  | .c3 => { s with proc := if s.proc.isExited then s.proc else .exited 137 }   -- kill; proc.wait()
  | .c4 => { s with procKey := false, outcome := some .canceled }         -- `del task['proc']`; outcome
  | .c5 => { s with unsched := s.unsched + 1, handed := s.handed + 1 }    -- publish unschedule; advance
  | _   => s

def cancelStep (s : ES) (c : CPc) : CPc × ES := (cancelPc s c, cancelSt s c)

def setAt (l : List CPc) (i : Nat) (c : CPc) : List CPc := l.set i c

def step (s : ES) : Choice → ES
  | .intake =>
    match s.intake with
    | .i0 => { s with intake := .i1, started := s.started + 1, inTasks := true }
    | .i1 => { s with intake := .i2, proc := .running, procKey := true }
    | .i2 => { s with intake := .i3, armed := true, watching := true }
    | .i3 => if s.mark then { s with intake := .iCancel .c0, mark := false, canceledPub := s.canceledPub + 1 }
             else { s with intake := .iDone }
    | .iCancel c =>
      if cancelPc s c = .cDone then { cancelSt s c with intake := .iDone }
      else { cancelSt s c with intake := .iCancel (cancelPc s c) }
    | .iFault => { s with intake := .iDone, unsched := s.unsched + 1, failed := s.failed + 1 }
    | .iDone => s
  | .intakeFault =>
    match s.intake with
    | .i1 => { s with intake := .iFault }
    | _   => s
  | .watcher =>
    match s.watcher with
    | .wIdle => if s.watching then { s with watcher := .w0 } else s
    | .w0 => if s.procKey then { s with watcher := .w1 } else { s with watcher := .wIdle, watching := false }
    | .w1 => match s.proc with
             | .exited c => { s with watcher := .w2b c, watching := false }
             | _         => { s with watcher := .wIdle }
    | .w2b c => { s with watcher := .w3 c, procKey := false }
    | .w3 c  => if s.inTasks then
                  { s with watcher := .w4 c, inTasks := false, outcome := some (if c = 0 then .done else .failedExit) }
                else { s with watcher := .wIdle }
    | .w4 _  => { s with watcher := .wIdle, unsched := s.unsched + 1, handed := s.handed + 1 }
  | .cancel i =>
    match s.cancels[i]? with
    | none   => s
    | some c => { cancelSt s c with cancels := setAt s.cancels i (cancelPc s c) }
  | .exit code => match s.proc with
                  | .running => { s with proc := .exited code }
                  | _        => s
  | .cancelReq =>
    -- `_control_cb` appends to `_cancel_list`; the executor's control_cb calls cancel_task if it knows the task
    if s.inTasks then { s with mark := true, cancels := s.cancels ++ [.c0] } else { s with mark := true }
  | .timeout => if s.armed then { s with cancels := s.cancels ++ [.c0] } else s

def run (s : ES) (cs : List Choice) : ES := cs.foldl step s

/-! ### a bulk of tasks through `Popen.work`, without interference

`work(tasks)` announces the start of the whole bulk, then handles the tasks one by one; a launch
error of one task is caught inside the loop and fails that task only.  Later a watcher pass collects
the tasks whose process exited. -/

inductive BEv where
  | start   (uid : Nat)                  -- advance(AGENT_EXECUTING)
  | unsched (uid : Nat)                  -- publish(AGENT_UNSCHEDULE_PUBSUB)
  | failed  (uid : Nat)                  -- advance(FAILED)
  | handed  (uid : Nat) (ok : Bool)      -- advance(AGENT_STAGING_OUTPUT_PENDING), target DONE / FAILED
deriving DecidableEq, Repr

/-- one bulk: (uid, launch fails, exit code) per task; the events of `work` followed by those of one
    watcher pass after every launched process exited -/
def bulkEvents (ts : List (Nat × Bool × Nat)) : List BEv :=
  ts.map (fun t => BEv.start t.1)
    ++ (ts.filter (fun t => t.2.1)).flatMap (fun t => [BEv.unsched t.1, BEv.failed t.1])
    ++ (ts.filter (fun t => !t.2.1)).map (fun t => BEv.unsched t.1)
    ++ (ts.filter (fun t => !t.2.1)).map (fun t => BEv.handed t.1 (t.2.2 == 0))

end RPVerif.Exec
