import RPVerif.Model.States
/-
Model of the journey of one task through the components (property C05):
  utils/component.py               work_cb (bulk failure), advance (publish / push; final states are not pushed)
  tmgr/staging_input/default.py    work        -> AGENT_STAGING_INPUT_PENDING | FAILED
  agent/staging_input/default.py   work/_work  -> AGENT_SCHEDULING_PENDING    | FAILED
  agent/executing/popen.py         work, _check_running, cancel_task (exit code -> target_state)
  agent/staging_output/default.py  work        -> TMGR_STAGING_OUTPUT_PENDING | FAILED
  tmgr/staging_output/default.py   work        -> target_state | FAILED
What can go wrong is a *fault plan*; the model says which state notifications are published,
in which order, and what is recorded on the task.  (The agent scheduler is the subject of
C01-C04; here it passes the task on.)  State numbers are those of Gen/States.lean.
-/
namespace RPVerif.Pipeline
open RPVerif.States

/-- how execution ends -/
inductive Exec where
  | noLauncher              -- find_launcher: no launch method can start the task
  | launchError             -- building the scripts / spawning raises
  | exit (code : Nat)       -- the process exits by itself
  | canceled                -- a cancel request or the task's timeout kills the process
deriving DecidableEq, Repr

structure Plan where
  tmgrInFails   : Bool      -- an input directive of the client side cannot be carried out
  agentInFails  : Bool
  exec          : Exec
  stageOnError  : Bool
  agentOutFails : Bool      -- an output directive of the agent side cannot be carried out (if attempted)
  tmgrOutFails  : Bool
  hasTmgrOut    : Bool      -- the task has output directives the client side acts on (TRANSFER)
deriving DecidableEq, Repr

structure Result where
  emits     : List St        -- state notifications published for the task, in order
  exitCode  : Option Nat     -- task['exit_code']
  exception : Bool           -- task['exception'] is set
deriving DecidableEq, Repr

def targetOf : Exec → St
  | .exit 0   => .done
  | .exit _   => .failed
  | .canceled => .canceled
  | _         => .failed

/-- is output staging attempted for a task whose execution ended in `target`? -/
def staged (p : Plan) : Bool := decide (targetOf p.exec = .done) || p.stageOnError

def run (p : Plan) : Result :=
  if p.tmgrInFails then { emits := [.nf 4, .failed], exitCode := none, exception := true }
  else if p.agentInFails then { emits := [.nf 4, .nf 5, .nf 6, .failed], exitCode := none, exception := true }
  else
    match p.exec with
    | .noLauncher  => { emits := [.nf 4, .nf 5, .nf 6, .nf 7, .nf 10, .failed], exitCode := none, exception := true }
    | .launchError => { emits := [.nf 4, .nf 5, .nf 6, .nf 7, .nf 10, .failed], exitCode := none, exception := true }
    | e =>
      (fun (code : Option Nat) (exc0 : Bool) =>
        if staged p ∧ p.agentOutFails then
          { emits := [.nf 4, .nf 5, .nf 6, .nf 7, .nf 10, .nf 11, .nf 12, .failed], exitCode := code, exception := true }
        else if staged p ∧ p.tmgrOutFails then
          { emits := [.nf 4, .nf 5, .nf 6, .nf 7, .nf 10, .nf 11, .nf 12, .nf 13, .nf 14, .failed], exitCode := code, exception := true }
        else
          -- with transfer directives the final state is advanced by `_handle_task` and again by `work`
          { emits := [.nf 4, .nf 5, .nf 6, .nf 7, .nf 10, .nf 11, .nf 12, .nf 13, .nf 14, targetOf e]
                       ++ (if staged p ∧ p.hasTmgrOut then [targetOf e] else []),
            exitCode := code, exception := exc0 })
        (match e with | .exit c => some c | _ => none)
        (match e with | .exit 0 => false | .exit _ => true | _ => false)

/-! ### what a notification carries, and what the client knows under any delivery order -/

/-- one notification on the state channel: the state, and whether it carries the whole task (exit code, exception,
    output ...) or uid / type / state only -/
structure Note where
  st   : St
  full : Bool
deriving DecidableEq, Repr

/-- `BaseComponent.advance`, publish loop: `$all` → the whole thing; otherwise the whole thing iff it is final - judged
    by the state of the thing (`byThing`, what the translator reads from the source) or, the alternative shown for
    contrast, by the `state` argument of the call (absent when the caller set `thing['state']` itself) -/
def noteOf (byThing : Bool) (all : Bool) (arg : Option St) (thingState : St) : Note :=
  { st := thingState,
    full := all || (if byThing then thingState.isFinal
                    else match arg with | some a => a.isFinal | none => false) }

/-- the client's record of a task: its state and whether the details have arrived -/
structure View where
  st      : St
  details : Bool
deriving DecidableEq, Repr

/-- `TaskManager._update_tasks` for one notification under an acceptance rule `acc` (the state progression test): an
    accepted notification sets the state and, when it carries the whole task, the details -/
def viewStep (acc : St → St → Bool) (v : View) (n : Note) : View :=
  if acc v.st n.st then { st := n.st, details := v.details || n.full } else v

def viewRun (acc : St → St → Bool) (v : View) (ns : List Note) : View := ns.foldl (viewStep acc) v

/-- the executor's verdict on a process that ended by itself, for every return code `subprocess` can report - negative
    ones for processes ended by a signal.  With `zeroTest` (read from `_check_running`: DONE in the branch `exit_code == 0`)
    only 0 is DONE; the alternative shown for contrast fails positive codes only -/
def targetOfCode (zeroTest : Bool) (code : Int) : St :=
  if zeroTest then (if code = 0 then .done else .failed) else (if code > 0 then .failed else .done)

def final (p : Plan) : St := (run p).emits.getLast!

/-! ### `work_cb`: what happens when a work routine itself raises
  the things of the bulk that the routine already handled keep what was published for them; then
  every thing of the bulk is published FAILED -/

def workCb (handled : List (List St)) (rest : Nat) (raises : Bool) : List (List St) :=
  if raises then handled.map (· ++ [.failed]) ++ List.replicate rest [.failed]
  else handled

/-- `work_cb` with its intake filter: things whose uid is on the cancel list (`marks`) are advanced
    to CANCELED and are NOT handed to the work routine; the routine handles the others one by one
    (each is published in state `ok`) and raises when it reaches the `k`-th of them (`raiseAt = some k`);
    then every thing that was handed to it is published FAILED -/
def workCbMarked (ok : St) : List Bool → Nat → Option Nat → List (List St)
  | [],          _, _       => []
  | true :: ms,  j, raiseAt => [.canceled] :: workCbMarked ok ms j raiseAt
  | false :: ms, j, raiseAt =>
    (match raiseAt with
     | none   => [ok]
     | some k => if j < k then [ok, .failed] else [.failed]) :: workCbMarked ok ms (j + 1) raiseAt

end RPVerif.Pipeline
