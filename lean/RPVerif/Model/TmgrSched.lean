/-
Model of the client-side (task manager) schedulers, property C12:
  tmgr/scheduler/base.py        control_cb (add/remove pilots), work (early
                                binding), _update_pilot_states, _assign_pilot
  tmgr/scheduler/round_robin.py RoundRobin
  tmgr/scheduler/backfilling.py Backfilling
Every callback runs under `_pilots_lock`/`_wait_lock`: an op is atomic.
Pilot states are numeric values (`_pilot_state_value`), `none` = Python None.
-/
namespace RPVerif.TmgrSched

inductive Role where
  | none | added | removed
deriving DecidableEq, Repr

structure Task where
  uid   : Nat
  pilot : Option Nat      -- pilot named in the description (early binding)
  cores : Nat             -- ranks * cores_per_rank
deriving DecidableEq, Repr

/-- entry of `self._pilots` (+ the backfilling `info`) -/
structure Pilot where
  pid   : Nat
  role  : Role
  state : Option Nat      -- value of the last known state
  known : Bool            -- `['pilot']` holds the pilot dict (set by add_pilots)
  cores : Nat := 0
  hwm   : Nat := 0
  used  : Int := 0
  tasks : List Nat := []
  done  : List Nat := []
deriving DecidableEq, Repr

inductive Out where
  | sched (uid : Nat)            -- advance(TMGR_SCHEDULING)
  | fwd (uid pid : Nat)          -- _assign_pilot + advance(TMGR_STAGING_INPUT_PENDING, push)
deriving DecidableEq, Repr

inductive Err where
  | valueError | runtimeError
deriving DecidableEq, Repr

structure S where
  pilots : List Pilot := []
  early  : List (Nat × Task) := []    -- `_early`: (pid, task) in arrival order
  pids   : List Nat := []             -- `_pids`
  idx    : Nat := 0                   -- round robin index
  wait   : List Task := []            -- `_wait_pool` (backfilling: dict in insertion order)
deriving Repr

abbrev Res := S × List Out × Option Err

def findPilot (ps : List Pilot) (pid : Nat) : Option Pilot := ps.find? (fun p => p.pid = pid)

def setPilot (ps : List Pilot) (p : Pilot) : List Pilot :=
  if (ps.any (fun q => q.pid = p.pid)) then ps.map (fun q => if q.pid = p.pid then p else q)
  else ps ++ [p]

/-- `_update_pilot_states`' side effect that matters to scheduling: the entry
    exists afterwards and carries the (progressed) state value.  `stateVal` is
    the state after `_pilot_state_progress` (computed by the C14 model). -/
def touchPilot (ps : List Pilot) (pid : Nat) (stateVal : Option Nat) : List Pilot :=
  match findPilot ps pid with
  | some p => setPilot ps { p with state := stateVal }
  | none   => ps ++ [{ pid := pid, role := .none, state := stateVal, known := false }]

/-! ### base: add / remove -/

/-- first loop of `add_pilots` in control_cb: roles; aborts at a pilot that is
    already added (earlier ones keep their new role) -/
def markAdded : List Pilot → List Nat → List Pilot × Option Err
  | ps, []          => (ps, none)
  | ps, pid :: rest =>
    match findPilot ps pid with
    | some p =>
      if p.role = .added then (ps, some .valueError)
      else markAdded (setPilot ps { p with role := .added, known := true }) rest
    | none =>
      -- `_update_pilot_states(pilots)` right after: a fresh pilot is in state NEW (value 0)
      markAdded (ps ++ [{ pid := pid, role := .added, state := some 0, known := true }]) rest

/-- early-bound tasks of the added pilots are forwarded and forgotten -/
def flushEarly (early : List (Nat × Task)) : List Nat → List (Nat × Task) × List Out
  | []          => (early, [])
  | pid :: rest =>
    match flushEarly (early.filter (fun e => e.1 ≠ pid)) rest with
    | (e', outs) => (e', (early.filter (fun e => e.1 = pid)).map (fun e => Out.fwd e.2.uid pid) ++ outs)

/-- `remove_pilots` in control_cb; then the derived `remove_pilots` -/
def markRemoved : List Pilot → List Nat → List Pilot × Option Err
  | ps, []          => (ps, none)
  | ps, pid :: rest =>
    match findPilot ps pid with
    | some p =>
      if p.role ≠ .added then (ps, some .valueError)
      else markRemoved (setPilot ps { p with role := .removed }) rest
    | none => (ps, some .valueError)

def erasePids : List Nat → List Nat → List Nat × Option Err
  | pids, []          => (pids, none)
  | pids, pid :: rest =>
    if pid ∈ pids then erasePids (pids.erase pid) rest else (pids, some .valueError)

/-! ### round robin -/

/-- `RoundRobin._schedule_tasks` with a non-empty `_pids` -/
def rrAssign (pids : List Nat) : Nat → List Task → Nat × List Out
  | idx, []      => (idx, [])
  | idx, t :: ts =>
    match rrAssign pids ((if idx ≥ pids.length then 0 else idx) + 1) ts with
    | (idx', outs) => (idx', Out.fwd t.uid (pids.getD (if idx ≥ pids.length then 0 else idx) 0) :: outs)

def rrSchedule (s : S) (ts : List Task) : S × List Out :=
  if s.pids = [] then ({ s with wait := s.wait ++ ts }, [])
  else
    match rrAssign s.pids s.idx ts with
    | (idx', outs) => ({ s with idx := idx' }, outs)

def rrAddPilots (s : S) (pids : List Nat) : Res :=
  match markAdded s.pilots pids with
  | (ps, some e) => ({ s with pilots := ps }, [], some e)
  | (ps, none)   =>
    match flushEarly s.early pids with
    | (early', outs) =>
      -- RoundRobin.add_pilots
      if s.wait = [] then ({ s with pilots := ps, early := early', pids := s.pids ++ pids }, outs, none)
      else
        match rrSchedule { s with pilots := ps, early := early', pids := s.pids ++ pids, wait := [] } s.wait with
        | (s', outs') => (s', outs ++ outs', none)

def rrRemovePilots (s : S) (pids : List Nat) : Res :=
  match markRemoved s.pilots pids with
  | (ps, some e) => ({ s with pilots := ps }, [], some e)
  | (ps, none)   =>
    match erasePids s.pids pids with
    | (pids', e) => ({ s with pilots := ps, pids := pids' }, [], e)

/-- `self._pilots.get(pid, {}).get('pilot')` is set -/
def isKnown (ps : List Pilot) (pid : Nat) : Bool :=
  match findPilot ps pid with
  | some p => p.known
  | none   => false

/-- the early-binding filter of `work` -/
def workFilter (ps : List Pilot) : List (Nat × Task) → List Task →
    List (Nat × Task) × List Out × List Task
  | early, []      => (early, [], [])
  | early, t :: ts =>
    match t.pilot with
    | some pid =>
      if isKnown ps pid then
        match workFilter ps early ts with
        | (e', outs, rest) => (e', Out.fwd t.uid pid :: outs, rest)
      else
        match workFilter ps (early ++ [(pid, t)]) ts with
        | (e', outs, rest) => (e', outs, rest)
    | none =>
      match workFilter ps early ts with
      | (e', outs, rest) => (e', outs, t :: rest)

def rrWork (s : S) (ts : List Task) : Res :=
  match workFilter s.pilots s.early ts with
  | (early', outs, rest) =>
    if rest = [] then ({ s with early := early' }, ts.map (fun t => Out.sched t.uid) ++ outs, none)
    else
      match rrSchedule { s with early := early' } rest with
      | (s', outs') => (s', ts.map (fun t => Out.sched t.uid) ++ outs ++ outs', none)

inductive Op where
  | addPilots (pids : List Nat) (cores : List Nat)
  | removePilots (pids : List Nat)
  | pilotState (pid : Nat) (stateVal : Option Nat)    -- after progress
  | work (ts : List Task)
  | taskStates (us : List (Nat × Option Nat × Nat × Nat))  -- (uid, pilot, state value, cores)
deriving Repr

def rrStep (s : S) : Op → Res
  | .addPilots pids _   => rrAddPilots s pids
  | .removePilots pids  => rrRemovePilots s pids
  | .pilotState pid v   => ({ s with pilots := touchPilot s.pilots pid v }, [], none)
  | .work ts            => rrWork s ts
  | .taskStates _       => (s, [], none)

def rrRun : S → List Op → S × List Out
  | s, []        => (s, [])
  | s, op :: ops =>
    match rrStep s op with
    | (s', outs, _) =>
      match rrRun s' ops with
      | (s'', outs') => (s'', outs ++ outs')

/-! ### backfilling -/

structure BFCfg where
  startVal : Nat      -- value of RADICAL_PILOT_BACKFILLING_START (PMGR_ACTIVE)
  stopVal  : Nat
  hwmPct   : Nat      -- RADICAL_PILOT_BACKFILLING_HWM (200)
deriving Repr

/-- pilots eligible at the start of `_schedule_tasks` -/
def bfEligible (c : BFCfg) (p : Pilot) : Bool :=
  p.role = .added
  && (match p.state with | some v => decide (c.startVal ≤ v) && decide (v ≤ c.stopVal) | none => false)
  && decide (p.used < (p.hwm : Int))

/-- inner loop for one task: first pilot in `pids` (with `used <= hwm`) takes it -/
def bfPlace (ps : List Pilot) (t : Task) : List Nat → Option (List Pilot × Nat × Bool)
  | []          => none
  | pid :: rest =>
    match findPilot ps pid with
    | none   => bfPlace ps t rest
    | some p =>
      if p.used ≤ (p.hwm : Int) then
        some (setPilot ps { p with tasks := p.tasks ++ [t.uid], used := p.used + t.cores },
              pid, decide (p.used + t.cores ≥ (p.hwm : Int)))
      else bfPlace ps t rest

/-- loop over the wait pool -/
def bfLoop : List Pilot → List Nat → List Task → List Pilot × List Task × List Out
  | ps, _,    []      => (ps, [], [])
  | ps, pids, t :: ts =>
    if pids = [] then
      match bfLoop ps pids ts with
      | (ps', un, outs) => (ps', t :: un, outs)
    else
      match bfPlace ps t pids with
      | none =>
        match bfLoop ps pids ts with
        | (ps', un, outs) => (ps', t :: un, outs)
      | some (ps1, pid, full) =>
        match bfLoop ps1 (if full then pids.erase pid else pids) ts with
        | (ps', un, outs) => (ps', un, Out.fwd t.uid pid :: outs)

def eligiblePids (c : BFCfg) (s : S) : List Nat :=
  s.pids.filter (fun pid => match findPilot s.pilots pid with
                            | some p => bfEligible c p
                            | none   => false)

def bfSchedule (c : BFCfg) (s : S) : S × List Out :=
  if s.pids = [] then (s, [])
  else
    if eligiblePids c s = [] then (s, [])
    else
      match bfLoop s.pilots (eligiblePids c s) s.wait with
      | (ps', un, outs) => ({ s with pilots := ps', wait := un }, outs)

/-- what the other threads of the component see at the moment a pass hands its placed tasks on (`advance`, no lock held):
    the pilots as the pass left them, and - depending on whether the pass replaced the wait pool inside its lock
    section (`writeInPass`) - the remainder, or still the pool the pass started from -/
def bfVisibleAtHandOver (writeInPass : Bool) (c : BFCfg) (s : S) : S :=
  if writeInPass then (bfSchedule c s).1 else { (bfSchedule c s).1 with wait := s.wait }

/-- `Backfilling.add_pilots`: fresh `info` per pilot -/
def bfInitInfo (c : BFCfg) : List Pilot → List Nat → List Nat → List Pilot
  | ps, [],          _           => ps
  | ps, pid :: rest, cores :: cs =>
    match findPilot ps pid with
    | some p => bfInitInfo c (setPilot ps { p with cores := cores, hwm := cores * c.hwmPct / 100,
                                                    used := 0, tasks := [], done := [] }) rest cs
    | none   => bfInitInfo c ps rest cs
  | ps, _ :: _,      []          => ps

def bfAddPilots (c : BFCfg) (s : S) (pids cores : List Nat) : Res :=
  match markAdded s.pilots pids with
  | (ps, some e) => ({ s with pilots := ps }, [], some e)
  | (ps, none)   =>
    match flushEarly s.early pids with
    | (early', outs) =>
      match bfSchedule c { s with pilots := bfInitInfo c ps pids cores, early := early',
                                  pids := s.pids ++ pids } with
      | (s', outs') => (s', outs ++ outs', none)

/-- `_wait_pool[uid] = task`: a dict keyed by uid (re-insertion keeps the position) -/
def waitInsert (w : List Task) (t : Task) : List Task :=
  if w.any (fun x => x.uid = t.uid) then w.map (fun x => if x.uid = t.uid then t else x) else w ++ [t]

def bfWork (c : BFCfg) (s : S) (ts : List Task) : Res :=
  match workFilter s.pilots s.early ts with
  | (early', outs, rest) =>
    match bfSchedule c { s with early := early', wait := rest.foldl waitInsert s.wait } with
    | (s', outs') => (s', ts.map (fun t => Out.sched t.uid) ++ outs ++ outs', none)

/-- `update_tasks`: returns (pilots, reschedule?, error) -/
def bfUpdateTasks (execVal : Nat) : List Pilot → List (Nat × Option Nat × Nat × Nat) → Bool →
    List Pilot × Bool × Option Err
  | ps, [],                         r => (ps, r, none)
  | ps, (uid, pil, sv, cores) :: us, r =>
    match pil with
    | none     => bfUpdateTasks execVal ps us r
    | some pid =>
      match findPilot ps pid with
      | none   => bfUpdateTasks execVal ps us r
      | some p =>
        if uid ∈ p.done then bfUpdateTasks execVal ps us r
        else if sv ≤ execVal then bfUpdateTasks execVal ps us r
        else if uid ∉ p.tasks then bfUpdateTasks execVal ps us r     -- early-bound: not accounted here
        else if p.used - cores < 0 then
          (setPilot ps { p with done := p.done ++ [uid], used := p.used - cores }, true, some .runtimeError)
        else bfUpdateTasks execVal (setPilot ps { p with done := p.done ++ [uid], used := p.used - cores }) us true

def bfStep (c : BFCfg) (execVal : Nat) (s : S) : Op → Res
  | .addPilots pids cores => bfAddPilots c s pids cores
  | .removePilots pids    => rrRemovePilots s pids
  | .pilotState pid v     =>
    -- `_update_pilot_states` calls update_pilots only when the state changed
    if (match findPilot s.pilots pid with | some p => p.state | none => none) = v then
      ({ s with pilots := touchPilot s.pilots pid v }, [], none)
    else
      if (match v with | some x => decide (c.startVal ≤ x) && decide (x ≤ c.stopVal) | none => false) then
        match bfSchedule c { s with pilots := touchPilot s.pilots pid v } with
        | (s', outs) => (s', outs, none)
      else ({ s with pilots := touchPilot s.pilots pid v }, [], none)
  | .work ts              => bfWork c s ts
  | .taskStates us        =>
    match bfUpdateTasks execVal s.pilots us false with
    | (ps, _, some e) => ({ s with pilots := ps }, [], some e)
    | (ps, true, none) =>
      match bfSchedule c { s with pilots := ps } with
      | (s', outs) => (s', outs, none)
    | (ps, false, none) => ({ s with pilots := ps }, [], none)

/-! ### one state notification naming several pilots -/

def stateOf (ps : List Pilot) (pid : Nat) : Option Nat :=
  match findPilot ps pid with | some p => p.state | none => none

def inWindow (c : BFCfg) (v : Option Nat) : Bool :=
  match v with | some x => decide (c.startVal ≤ x) && decide (x ≤ c.stopVal) | none => false

/-- `_update_pilot_states`: the states of all pilots the notification names are recorded (after progress), the pilots
    whose state changed are collected -/
def touchAll : List Pilot → List (Nat × Option Nat) → List Pilot × List Nat
  | ps, []             => (ps, [])
  | ps, (pid, v) :: us =>
    match touchAll (touchPilot ps pid v) us with
    | (ps', ch) => (ps', if stateOf ps pid = v then ch else pid :: ch)

/-- `Backfilling.update_pilots` over the pilots whose state changed: with `anyEligible` (the loop skips a pilot outside the
    window with `continue` and stops at the first one inside: what the translator reads from the source) a pass is
    triggered iff SOME updated pilot is inside the window; the alternative shown for contrast lets the last one decide -/
def bfTrigger (anyEligible : Bool) (c : BFCfg) (ps : List Pilot) (changed : List Nat) : Bool :=
  if anyEligible then changed.any (fun pid => inWindow c (stateOf ps pid))
  else match changed.getLast? with
       | some pid => inWindow c (stateOf ps pid)
       | none     => false

def bfPilotStates (anyEligible : Bool) (c : BFCfg) (s : S) (ups : List (Nat × Option Nat)) : Res :=
  match touchAll s.pilots ups with
  | (ps, ch) =>
    if bfTrigger anyEligible c ps ch then
      match bfSchedule c { s with pilots := ps } with
      | (s', outs) => (s', outs, none)
    else ({ s with pilots := ps }, [], none)

/-- `_base_state_cb` on ONE notification that names pilots and tasks: with `pilotsFirst` (the order of the two calls, read
    from the source by the translator) the pilot states are recorded - and the pass they trigger runs - before the task
    notifications are digested; the alternative shown for contrast digests the tasks first.  An error ends the callback. -/
def bfMixed (anyEligible pilotsFirst : Bool) (c : BFCfg) (execVal : Nat) (s : S)
    (ups : List (Nat × Option Nat)) (tus : List (Nat × Option Nat × Nat × Nat)) : Res :=
  if pilotsFirst then
    match bfPilotStates anyEligible c s ups with
    | (s1, o1, some e) => (s1, o1, some e)
    | (s1, o1, none)   =>
      match bfStep c execVal s1 (.taskStates tus) with
      | (s2, o2, e) => (s2, o1 ++ o2, e)
  else
    match bfStep c execVal s (.taskStates tus) with
    | (s1, o1, some e) => (s1, o1, some e)
    | (s1, o1, none)   =>
      match bfPilotStates anyEligible c s1 ups with
      | (s2, o2, e) => (s2, o1 ++ o2, e)

def bfRun (c : BFCfg) (execVal : Nat) : S → List Op → S × List Out
  | s, []        => (s, [])
  | s, op :: ops =>
    match bfStep c execVal s op with
    | (s', outs, _) =>
      match bfRun c execVal s' ops with
      | (s'', outs') => (s'', outs ++ outs')

end RPVerif.TmgrSched
