/-
Model of the proxy service's monitor (proxy.py, Proxy._monitor / _heartbeat / registration): the thread that ends the
channels of sessions whose heartbeats stopped (property C16: without its channels a side receives nothing).
Time is in ticks (one `time.sleep` of the monitor = one tick = half a second).
-/
namespace RPVerif.Proxy

structure Client where
  sid : Nat
  gen : Nat        -- which registration of this session id (1, 2, ...)
  hb  : Nat        -- time of the last heartbeat (or of the registration)
deriving DecidableEq, Repr

structure PS where
  now     : Nat := 0
  clients : List Client := []
  regs    : List Nat := []            -- session ids registered so far (to number the registrations)
  pending : List Nat := []            -- the eviction list as the last pass left it
  ended   : List (Nat × Nat) := []    -- (sid, gen) whose channels were ended
deriving DecidableEq, Repr

inductive Act where
  | reg (sid : Nat)      -- a session registers: `self._clients[sid] = {...}` replaces an earlier record
  | hb (sid : Nat)       -- heartbeat request
  | skip (ticks : Nat)   -- time goes by
deriving DecidableEq, Repr

def act (s : PS) : Act → PS
  | .reg sid  => { s with clients := s.clients.filter (fun c => c.sid ≠ sid) ++ [⟨sid, (s.regs.count sid) + 1, s.now⟩],
                          regs := s.regs ++ [sid] }
  | .hb sid   => { s with clients := s.clients.map (fun c => if c.sid = sid then { c with hb := s.now } else c) }
  | .skip t   => { s with now := s.now + t }

/-- the sessions whose last heartbeat is older than the timeout -/
def timedOut (T : Nat) (s : PS) : List Nat := (s.clients.filter (fun c => s.now > c.hb + T)).map (·.sid)

/-- end the channels of the sessions on the list that are (still) registered -/
def evict (s : PS) : List Nat → PS
  | []        => s
  | sid :: l  =>
    match s.clients.find? (fun c => c.sid = sid) with
    | none   => evict s l
    | some c => evict { s with clients := s.clients.filter (fun x => x.sid ≠ sid), ended := s.ended ++ [(c.sid, c.gen)] } l

/-- one pass of `_monitor` after its `sleep`: with `fresh` (read from the source: the eviction list is made anew inside
    the loop) the list holds the sessions that timed out NOW; otherwise it also still holds what earlier passes put on it -/
def pass (fresh : Bool) (T : Nat) (s : PS) : PS :=
  let s1 := { s with now := s.now + 1 }
  let l  := (if fresh then [] else s1.pending) ++ timedOut T s1
  if l = [] then s1 else { evict s1 l with pending := l }

/-- a history: per pass, what the sessions do before it -/
def run (fresh : Bool) (T : Nat) : PS → List (List Act) → PS
  | s, []        => s
  | s, as :: rest => run fresh T (pass fresh T (as.foldl act s)) rest

end RPVerif.Proxy
