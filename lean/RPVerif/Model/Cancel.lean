/-
Model of the generic cancel handling of a component (property C08):
  utils/component.py  BaseComponent._control_cb (cancel_tasks appends the uids to
                      `_cancel_list`), is_canceled (advance CANCELED, remove ONE
                      occurrence), work_cb (intake filter in front of every `work`)
-/
namespace RPVerif.Cancel

/-- `is_canceled` over a bulk, as `[x for x in things if not self.is_canceled(x)]` does:
    returns (things passed on to `work`, uids advanced to CANCELED, remaining cancel list) -/
def filterBulk : List Nat → List Nat → List Nat × List Nat × List Nat
  | cl, []      => ([], [], cl)
  | cl, t :: ts =>
    if t ∈ cl then
      match filterBulk (cl.erase t) ts with
      | (keep, canc, cl') => (keep, t :: canc, cl')
    else
      match filterBulk cl ts with
      | (keep, canc, cl') => (t :: keep, canc, cl')

/-- `work_cb` applies the filter only when the cancel list is not empty -/
def intake (cl : List Nat) (things : List Nat) : List Nat × List Nat × List Nat :=
  if cl = [] then (things, [], cl) else filterBulk cl things

/-- `_control_cb` with `cmd == 'cancel_tasks'` -/
def cancelCmd (cl : List Nat) (uids : List Nat) : List Nat := cl ++ uids

/-- the argument of `TaskManager.cancel_tasks` / `Task.cancel` -/
inductive Arg where
  | none                      -- `cancel_tasks()`
  | one (uid : Nat)           -- a single uid (what `Task.cancel` passes)
  | many (uids : List Nat)    -- a list of uids
deriving DecidableEq, Repr

/-- `TaskManager.cancel_tasks`: the uids named in the published `cancel_tasks` command;
    `known` are the tasks of this manager (no argument or an empty list means all of them).
    The states of the tasks play no role. -/
def request (known : List Nat) : Arg → List Nat
  | .none      => known
  | .one u     => [u]
  | .many []   => known
  | .many us   => us

end RPVerif.Cancel
