import RPVerif.Model.Launch
/-
Model of the agent-side resource managers (C18):
  agent/resource_manager/base.py  _parse_nodefile, _get_cores_per_node,
      _get_node_list, _init_from_scratch (blocked cores/GPUs, requested_nodes
      fallback), _filter_nodes (reachability, cut to the requested size,
      reservation of agent and service nodes)
  torque.py, ccm.py, cobalt.py, lsf.py, pbspro.py (node file path), slurm.py,
  fork.py: init_from_scratch
Host names are abstract ids with the two substring flags LSF looks at.
-/
namespace RPVerif.RM

structure Name where
  id    : Nat
  login : Bool := false     -- 'login' in name
  batch : Bool := false     -- 'batch' in name
deriving DecidableEq, Repr

/-- one line of a node file after `strip()` -/
inductive Line where
  | blank                    -- empty line: skipped
  | host (n : Name)
  | bad                      -- contains a blank: `assert ' ' not in node` fails
deriving DecidableEq, Repr

inductive Occ where
  | free | down
deriving DecidableEq, Repr

structure Node where
  name  : Name
  index : Nat
  cores : List Occ
  gpus  : List Occ
deriving DecidableEq, Repr

inductive Err where
  | runtime | value | assertion
deriving DecidableEq, Repr

/-- count occurrences per host, in first-occurrence order (a Python dict) -/
def countHosts : List Line → List (Name × Nat) → Option (List (Name × Nat))
  | [],            acc => some acc
  | .blank :: ls,  acc => countHosts ls acc
  | .bad :: _,     _   => none
  | .host n :: ls, acc =>
    if acc.any (fun e => e.1 = n) then
      countHosts ls (acc.map (fun e => if e.1 = n then (e.1, e.2 + 1) else e))
    else countHosts ls (acc ++ [(n, 1)])

/-- `_parse_nodefile(fname, cpn, smt)`; any failure gives `[]` -/
def parseNodefile (ls : List Line) (cpn smt : Nat) : List (Name × Nat) :=
  match countHosts ls [] with
  | none     => []
  | some acc => acc.map (fun e => (e.1, (if cpn ≠ 0 then cpn else e.2) * (if smt = 0 then 1 else smt)))

/-- `_get_cores_per_node`: the common slot count, ValueError otherwise -/
def coresPerNode (nodes : List (Name × Nat)) : Option Nat :=
  match nodes with
  | []     => none
  | n :: _ => if nodes.all (fun e => e.2 = n.2) then some n.2 else none

def nodeListFrom (nodes : List (Name × Nat)) (gpn : Nat) (start : Nat) : List Node :=
  match nodes with
  | []      => []
  | n :: ns => { name := n.1, index := start, cores := List.replicate n.2 .free,
                 gpus := List.replicate gpn .free } :: nodeListFrom ns gpn (start + 1)

/-- `_get_node_list` -/
def getNodeList (nodes : List (Name × Nat)) (gpn : Nat) : List Node := nodeListFrom nodes gpn 0

structure Cfg where
  cpn  : Nat            -- cfg.cores_per_node (0 = unset)
  gpn  : Nat
  smt  : Nat            -- threads_per_core
  requestedNodes : Nat
  requestedCores : Nat
  requestedGpus  : Nat
  backup : Nat
  blockedCores : List Nat
  blockedGpus  : List Nat
  agentNodes   : Nat    -- number of sub-agents with target 'node'
  serviceNodes : Nat    -- 1 iff ./services exists
  /-- PBSPro: the `exec_vnode` attribute `qstat -f` reports, as chunks of (vnode id, ncpus) slices;
      `none`: qstat is not available -/
  execVnode    : Option (List (List (Nat × Nat))) := none
  /-- Slurm: `$SLURM_GPUS_ON_NODE` (none: unset or empty) and the number of ids in
      `$SLURM_JOB_GPUS` / `$SLURM_STEP_GPUS` / `$GPU_DEVICE_ORDINAL` (0: none of them set) -/
  envGpus      : Option Nat := none
  envGpuIds    : Nat := 0
deriving Repr

inductive Kind where
  | torque | ccm | cobalt | lsf | pbspro | slurm | fork
deriving DecidableEq, Repr

/-- `PBSPro._parse_pbspro_vnodes` on the parsed attribute: `sorted(set(vnode names))` and the common
    `ncpus` (RuntimeError when the slices differ in size) -/
def pbsVnodes (chunks : List (List (Nat × Nat))) : Except Err (List Nat × Nat) :=
  match Launch.hostSet (chunks.flatten.map (·.2)) with
  | [n] => .ok (Launch.hostSet (chunks.flatten.map (·.1)), n)
  | []  => .error .value
  | _   => .error .runtime

/-- CCM: of the `nodelist*` files in `~/.crayccm` the one that was WRITTEN last (largest modification
    time) is the node file of this job; files are (mtime, lines) -/
def newestFile : List (Nat × List Line) → Nat × List Line
  | []      => (0, [])
  | f :: fs => if (newestFile fs).1 < f.1 then f else if fs = [] then f else newestFile fs

/-- Slurm: the configured `gpus_per_node` if there is one, else what the batch environment reports -/
def envGpn (c : Cfg) : Nat :=
  match c.envGpus with
  | some g => g
  | none   => c.envGpuIds

def slurmGpn (c : Cfg) : Nat := if c.gpn ≠ 0 then c.gpn else envGpn c

/-- result of the RM specific `init_from_scratch`: node list and cores_per_node -/
def initKind (k : Kind) (c : Cfg) (ls : List Line) (hosts : List Name) (envCpus : Option Nat)
    (detected : Nat) : Except Err (List Node × Nat) :=
  match k with
  | .torque | .ccm =>
    if c.cpn ≠ 0 then .ok (getNodeList (parseNodefile ls c.cpn 1) c.gpn, c.cpn)
    else match coresPerNode (parseNodefile ls 0 1) with
         | none   => .error .value
         | some n => .ok (getNodeList (parseNodefile ls 0 1) c.gpn, n)
  | .cobalt =>
    if c.cpn = 0 then .error .runtime
    else .ok (getNodeList (parseNodefile ls c.cpn 1) c.gpn, c.cpn)
  | .pbspro =>
    match c.execVnode with
    | some chunks =>
      -- one node per vnode of the allocation; `cores_per_node` is what PBS reports
      match pbsVnodes chunks with
      | .error e     => .error e
      | .ok (vn, n)  => .ok (getNodeList (vn.map (fun i => ({ id := i }, n))) c.gpn, n)
    | none =>           -- qstat not available: node file fallback
      if c.cpn = 0 then .error .runtime
      else .ok (getNodeList (parseNodefile ls c.cpn 1) c.gpn, c.cpn)
  | .lsf =>
    match coresPerNode ((parseNodefile ls 0 c.smt).filter
            (fun e => !e.1.login && !e.1.batch && e.2 ≠ c.smt)) with
    | none   => .error .value
    | some n =>
      if c.cpn ≠ 0 ∧ c.cpn ≠ n then .error .assertion
      else .ok (getNodeList ((parseNodefile ls 0 c.smt).filter
                  (fun e => !e.1.login && !e.1.batch && e.2 ≠ c.smt)) c.gpn, n)
  | .slurm =>
    match (if c.cpn ≠ 0 then some c.cpn else envCpus) with
    | none   => .error .runtime
    | some n => .ok (getNodeList (hosts.map (fun h => (h, n))) (slurmGpn c), n)
  | .fork =>
    -- fake_resources: n identical 'localhost' nodes
    if c.requestedNodes = 0 ∧ c.requestedGpus ≠ 0 ∧ c.gpn = 0 then .error .runtime   -- ZeroDivisionError
    else
    (fun cpn : Nat =>
      (fun rn : Nat => Except.ok (getNodeList (List.replicate (rn + c.backup) ({ id := 0 }, cpn)) c.gpn, cpn))
        (if c.requestedNodes ≠ 0 then c.requestedNodes
         else max ((c.requestedCores + cpn - 1) / cpn)
                  (if c.requestedGpus ≠ 0 ∧ c.gpn ≠ 0 then (c.requestedGpus + c.gpn - 1) / c.gpn else 0)))
      (if c.cpn ≠ 0 then c.cpn else detected)

def markDown (l : List Occ) (blocked : List Nat) : List Occ :=
  (List.range l.length).map (fun i => if i ∈ blocked then Occ.down else l.getD i .free)

structure Info where
  nodeList    : List Node
  agentNodes  : List Node
  serviceNodes : List Node
  requestedNodes : Nat
  coresPerNode : Nat      -- rm_info.cores_per_node (usable cores)
  gpusPerNode  : Nat
deriving Repr

/-- pop `k` nodes from the end -/
def popN : List Node → Nat → List Node × List Node
  | l, 0     => (l, [])
  | l, k + 1 =>
    match l.getLast? with
    | none   => (l, [])             -- IndexError in Python; guarded by callers
    | some x =>
      match popN l.dropLast k with
      | (rest, popped) => (rest, x :: popped)

/-- blocked cores / GPUs are marked DOWN on every node -/
def blockNodes (c : Cfg) (nodes : List Node) : List Node :=
  nodes.map (fun n => { name := n.name, index := n.index,
                        cores := markDown n.cores c.blockedCores, gpus := markDown n.gpus c.blockedGpus })

/-- `rm_info.cores_per_node` / `gpus_per_node` after subtracting the blocked ones -/
def usableCores (c : Cfg) (cpn : Nat) : Nat :=
  if c.blockedCores ≠ [] ∨ c.blockedGpus ≠ [] then cpn - c.blockedCores.length else cpn

def usableGpus (c : Cfg) : Nat :=
  if c.blockedCores ≠ [] ∨ c.blockedGpus ≠ [] then c.gpn - c.blockedGpus.length else c.gpn

/-- `requested_nodes`, derived from cores/GPUs when not given -/
def reqNodes (c : Cfg) (cpn : Nat) : Nat :=
  if c.requestedNodes ≠ 0 then c.requestedNodes
  else if usableCores c cpn = 0 then 0
  else max ((c.requestedCores + usableCores c cpn - 1) / usableCores c cpn)
           (if usableGpus c ≠ 0 then (c.requestedGpus + usableGpus c - 1) / usableGpus c else 0)

/-- the ssh probe of `_filter_nodes` (only with backup nodes); `reach`: ids of the hosts that answer -/
def reachable (c : Cfg) (nodes : List Node) (reach : List Nat) : List Node :=
  if c.backup ≠ 0 then nodes.filter (fun n => n.name.id ∈ reach) else nodes

def blockedInRange (c : Cfg) (nodes : List Node) : Bool :=
  c.blockedCores.all (fun i => nodes.all (fun n => i < n.cores.length))
  && c.blockedGpus.all (fun i => nodes.all (fun n => i < n.gpus.length))

/-- everything `_init_from_scratch` does after the RM specific part. -/
def finish (c : Cfg) (nodes : List Node) (cpn : Nat) (reach : List Nat) : Except Err Info :=
  if cpn = 0 then .error .assertion      -- rm_info.verify()
  else if blockedInRange c nodes = false then .error .assertion
  else if usableCores c cpn = 0 then .error .assertion        -- ZeroDivisionError / rm_info.verify()
  else if reqNodes c cpn > (blockNodes c nodes).length then .error .assertion
  else if c.backup ≠ 0 ∧ reachable c (blockNodes c nodes) reach = [] then .error .runtime
  else if c.agentNodes + c.serviceNodes ≥ ((reachable c (blockNodes c nodes) reach).take (reqNodes c cpn)).length then
    .error .runtime
  else if reqNodes c cpn = 0 then .error .assertion
  else
    .ok { nodeList := (popN (popN ((reachable c (blockNodes c nodes) reach).take (reqNodes c cpn)) c.agentNodes).1 c.serviceNodes).1,
          agentNodes := (popN ((reachable c (blockNodes c nodes) reach).take (reqNodes c cpn)) c.agentNodes).2,
          serviceNodes := (popN (popN ((reachable c (blockNodes c nodes) reach).take (reqNodes c cpn)) c.agentNodes).1 c.serviceNodes).2,
          requestedNodes := reqNodes c cpn, coresPerNode := usableCores c cpn, gpusPerNode := usableGpus c }

/-- Fork fixes `requested_nodes` itself (from the node size before blocked cores are subtracted) -/
def forkRequested (c : Cfg) (cpn : Nat) : Nat :=
  if c.requestedNodes ≠ 0 then c.requestedNodes
  else max ((c.requestedCores + cpn - 1) / cpn)
           (if c.requestedGpus ≠ 0 ∧ c.gpn ≠ 0 then (c.requestedGpus + c.gpn - 1) / c.gpn else 0)

def initRM (k : Kind) (c : Cfg) (ls : List Line) (hosts : List Name) (envCpus : Option Nat)
    (detected : Nat) (reach : List Nat) : Except Err Info :=
  match initKind k c ls hosts envCpus detected with
  | .error e => .error e
  | .ok (nodes, cpn) =>
    if nodes = [] then .error .assertion
    else if k = .fork then finish { c with requestedNodes := forkRequested c cpn } nodes cpn reach
    else if k = .slurm then finish { c with gpn := slurmGpn c } nodes cpn reach
    else finish c nodes cpn reach

end RPVerif.RM
