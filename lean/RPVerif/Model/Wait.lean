import RPVerif.Model.States
/-
Model of the four polling loops (C15):
  Task.wait, Pilot.wait             -> `entityWait`
  TaskManager.wait_tasks            -> `waitTasks`
  PilotManager.wait_pilots          -> `waitPilots`

Time is counted in polling ticks: one `time.sleep(0.1)` advances the clock by
one tick; an entity's trajectory `traj k` is the state `self.state` reads at
tick `k` (state changes happen while the waiter sleeps).  `to = 0` means "no
timeout" (Python: `if timeout and ...`).  Loops carry a fuel argument; `none`
means "did not return within the fuel".
-/
namespace RPVerif.Wait
open RPVerif.States

/-- the `state` argument of the wait calls -/
inductive Req where
  | none                    -- default
  | one (s : St)            -- a single state
  | many (l : List St)      -- a list of states
deriving Repr

def finals : List St := [.done, .failed, .canceled]

/-- `if not state: FINAL elif not isinstance(state, list): [state] else: state` -/
def norm : Req → List St
  | .none    => finals
  | .one s   => [s]
  | .many [] => finals       -- `not []` is true
  | .many l  => l

/-- the polling loop of `Task.wait` / `Pilot.wait`, entered at tick `k`
    (`start_wait` is tick 0).  Returns `(tick of return, state returned)`. -/
def entityLoop (states : List St) (traj : Nat → St) (to : Nat) : Nat → Nat → Option (Nat × St)
  | 0,        _ => none
  | fuel + 1, k =>
    if traj k ∈ states then some (k, traj k)                      -- `while self.state not in states`
    else if (traj k).isFinal then some (k, traj k)                -- final: no further progress
    else if to ≠ 0 ∧ to ≤ k + 1 then some (k + 1, traj (k + 1))   -- sleep; timeout check; return self.state
    else entityLoop states traj to fuel (k + 1)

/-- `Task.wait(state, timeout)` / `Pilot.wait(state, timeout)` -/
def entityWait (req : Req) (traj : Nat → St) (to : Nat) (fuel : Nat) : Option (Nat × St) :=
  if (traj 0).isFinal then some (0, traj 0)      -- already final: return at once
  else entityLoop (norm req) traj to fuel 0

/-- `min` over the awaited states' values, starting from the final value -/
def checkVal (N : Nat) (states : List St) : Nat :=
  states.foldl (fun m s => min m (s.val N)) N

/-- `wait_tasks`: a task stops being watched once it is final or has reached
    the earliest awaited state value -/
def taskSat (N : Nat) (cv : Nat) (s : St) : Bool := s.isFinal || decide (cv ≤ s.val N)

def waitTasksLoop (N cv : Nat) (traj : Nat → Nat → St) (ents : List Nat) (to : Nat) :
    Nat → Nat → List Nat → Option (Nat × List St)
  | 0,        _, _       => none
  | fuel + 1, k, toCheck =>
    if toCheck = [] then some (k, ents.map (fun i => traj i k))
    else if to ≠ 0 ∧ to ≤ k then some (k, ents.map (fun i => traj i k))     -- timeout, checked before the sleep
    else waitTasksLoop N cv traj ents to fuel (k + 1)
           (toCheck.filter (fun i => !taskSat N cv (traj i (k + 1))))

def waitTasks (N : Nat) (req : Req) (traj : Nat → Nat → St) (ents : List Nat) (to fuel : Nat) :
    Option (Nat × List St) :=
  waitTasksLoop N (checkVal N (norm req)) traj ents to fuel 0 ents

/-- `wait_pilots`: a pilot stops being watched once it is in an awaited state or final -/
def pilotSat (states : List St) (s : St) : Bool := decide (s ∈ states) || s.isFinal

def waitPilotsLoop (states : List St) (traj : Nat → Nat → St) (ents : List Nat) (to : Nat) :
    Nat → Nat → List Nat → Option (Nat × List St)
  | 0,        _, _       => none
  | fuel + 1, k, toCheck =>
    if toCheck = [] then some (k, ents.map (fun i => traj i k))
    else if (toCheck.filter (fun i => !pilotSat states (traj i k))) ≠ [] ∧ to ≠ 0 ∧ to ≤ k then
      some (k, ents.map (fun i => traj i k))
    else waitPilotsLoop states traj ents to fuel (k + 1)
           (toCheck.filter (fun i => !pilotSat states (traj i k)))

def waitPilots (req : Req) (traj : Nat → Nat → St) (ents : List Nat) (to fuel : Nat) :
    Option (Nat × List St) :=
  waitPilotsLoop (norm req) traj ents to fuel 0 ents

end RPVerif.Wait
