/-
Model of data staging (property C11):
  staging_directives.py            expand_staging_directives (short forms), complete_url
  utils/staging_helper.py          StagingHelper.handle_staging_directive, local back end
  tmgr/staging_input/default.py    work (action filter), _handle_task (tarball packing, transfers)
  agent/staging_input/default.py   _work (filter), _handle_task_staging (copy/link/move, untar)
  agent/staging_output/default.py  work (skip on failure unless stage_on_error), _handle_task_staging
  tmgr/staging_output/default.py   work, _handle_task
Files are single files with an opaque content; directory copies, DOWNLOAD and remote back ends
are not modelled.  All sandboxes live in one abstract file system (paths are lists of segments).
-/
namespace RPVerif.Staging

abbrev Str := List Char

def pre : Str → Str → Bool
  | [],      _       => true
  | _ :: _,  []      => false
  | a :: as, b :: bs => a = b && pre as bs

/-- first occurrence of `sep` (non-empty): text before, text after -/
def findSplit (sep : Str) : Str → Option (Str × Str)
  | []      => none
  | c :: cs => if pre sep (c :: cs) then some ([], (c :: cs).drop sep.length)
               else match findSplit sep cs with
                    | some (a, b) => some (c :: a, b)
                    | none        => none

def isWs (c : Char) : Bool := c = ' ' || c = '\t' || c = '\n' || c = '\r' || c = '\x0b' || c = '\x0c'
def lstrip (s : Str) : Str := s.dropWhile isWs
def strip (s : Str) : Str := (lstrip (lstrip s).reverse).reverse

inductive Err where
  | value | assertion | io
deriving DecidableEq, Repr

/-- Python `a, b = s.split(sep, 2)` after `sep in s`: a second occurrence gives three parts -/
def split2 (sep s : Str) : Except Err (Str × Str) :=
  match findSplit sep s with
  | none        => .error .value
  | some (a, b) => if (findSplit sep b).isSome then .error .value else .ok (a, b)

structure Url where
  schema : Str
  host   : Str
  path   : Str
deriving DecidableEq, Repr

/-- `ru.Url` on the grammar `[schema://[host]]path` -/
def urlOf (s : Str) : Url :=
  match findSplit "://".toList s with
  | some (sch, rest) => { schema := sch, host := rest.takeWhile (· ≠ '/'), path := rest.dropWhile (· ≠ '/') }
  | none             => { schema := [], host := [], path := s }

def basename (p : Str) : Str := (p.reverse.takeWhile (· ≠ '/')).reverse

structure SD where
  source : Str
  target : Str
  action : String
deriving DecidableEq, Repr

def hasSub (sep s : Str) : Bool := (findSplit sep s).isSome

/-- string short forms `src > tgt`, `src >> tgt`, `tgt < src`, `tgt << src`, `src` -/
def expandStr (dflt : String) (sd : Str) : Except Err SD :=
  if hasSub ">>".toList sd then
    match split2 ">>".toList sd with
    | .ok (a, b) => .ok { source := strip a, target := strip b, action := dflt }
    | .error e   => .error e
  else if hasSub ">".toList sd then
    match split2 ">".toList sd with
    | .ok (a, b) => .ok { source := strip a, target := strip b, action := dflt }
    | .error e   => .error e
  else if hasSub "<<".toList sd then
    match split2 "<<".toList sd with
    | .ok (a, b) => .ok { source := strip b, target := strip a, action := dflt }
    | .error e   => .error e
  else if hasSub "<".toList sd then
    match split2 "<".toList sd with
    | .ok (a, b) => .ok { source := strip b, target := strip a, action := dflt }
    | .error e   => .error e
  else .ok { source := strip sd, target := strip (basename (urlOf sd).path), action := dflt }

/-- dictionary form: `target` defaults to the base name of the source path, `action` to the default -/
def expandDict (dflt : String) (source : Str) (target : Option Str) (action : Option String) : Except Err SD :=
  if source = [] then .error .value
  else .ok { source := source, target := target.getD (basename (urlOf source).path), action := action.getD dflt }

/-! ### locations -/

def lookup (ctx : List (String × Str)) (k : Str) : Option Str :=
  match ctx.find? (fun e => e.1.toList = k) with
  | some e => some e.2
  | none   => none

/-- `complete_url` -/
def completeUrl (ctx : List (String × Str)) (p : Str) : Except Err Url :=
  (fun (u : Url) =>
    (fun (schema : Str) =>
      match lookup ctx schema with
      | none      => .ok { u with schema := schema }
      | some base =>
        if u.host ≠ [] then .error .value
        else if schema = "file".toList then .ok { u with schema := schema }
        else .ok { urlOf base with path := (urlOf base).path ++ '/' :: u.path })
      (if u.schema = [] then (if p.head? = some '/' then "file".toList else "pwd".toList) else u.schema))
    (urlOf p)

abbrev Path := List Str

def splitSlash : Str → List Str
  | []      => [[]]
  | c :: cs => match splitSlash cs with
               | []      => [[c]]       -- unreachable
               | w :: ws => if c = '/' then [] :: w :: ws else (c :: w) :: ws

/-- `os.path.normpath` of an absolute path, as segments -/
def normSegs (p : Str) : Path :=
  (splitSlash p).foldl (fun acc s => if s = [] ∨ s = ['.'] then acc
                                      else if s = ['.', '.'] then acc.dropLast else acc ++ [s]) []

def loc (u : Url) : Path := normSegs u.path

/-! ### file system -/

inductive Content where
  | data (id : Nat)
  | tar (entries : List (Path × Nat))
deriving DecidableEq, Repr

abbrev FS := List (Path × Content)

def FS.read (fs : FS) (p : Path) : Option Content :=
  match fs.find? (fun e => e.1 = p) with
  | some e => some e.2
  | none   => none

def FS.write (fs : FS) (p : Path) (c : Content) : FS := (p, c) :: fs.filter (fun e => e.1 ≠ p)
def FS.remove (fs : FS) (p : Path) : FS := fs.filter (fun e => e.1 ≠ p)

inductive Op where
  | copy (s t : Path)          -- COPY / TRANSFER: `cp -r`
  | link (s t : Path)          -- LINK: os.link (fails if the target exists)
  | move (s t : Path)          -- MOVE: shutil.move
  | put (t : Path) (c : Content)   -- a file with known content arrives (the packed tarball)
  | unpack (t : Path)          -- extract the tarball at `t`
deriving DecidableEq, Repr

def writeAll (fs : FS) : List (Path × Nat) → FS
  | []           => fs
  | (p, c) :: es => writeAll (fs.write p (.data c)) es

def stepOp (fs : FS) : Op → Option FS
  | .copy s t => match fs.read s with
                 | some c => some (fs.write t c)
                 | none   => none
  | .link s t => match fs.read s with
                 | some c => if (fs.read t).isSome then none else some (fs.write t c)
                 | none   => none
  | .move s t => match fs.read s with
                 | some c => some ((fs.write t c).remove s)
                 | none   => none
  | .put t c  => some (fs.write t c)
  | .unpack t => match fs.read t with
                 | some (.tar es) => some (writeAll fs es)
                 | _              => none

/-- run the operations in order; stop at the first one that fails: (file system, all succeeded) -/
def exec (fs : FS) : List Op → FS × Bool
  | []        => (fs, true)
  | op :: ops => match stepOp fs op with
                 | some fs' => exec fs' ops
                 | none     => (fs, false)

/-! ### the four stagers -/

structure Boxes where
  client   : Str       -- a plain path (os.getcwd() of the application)
  endpoint : Str       -- URLs from here on
  resource : Str
  session  : Str
  pilot    : Str
  task     : Str
deriving Repr

structure Task where
  uid     : Nat
  boxes   : Boxes
  inputs  : List SD
  outputs : List SD
  stageOnError : Bool
  target  : String            -- target_state set by the executor
deriving Repr

/-- which component acts on which action (regenerated from the sources into Gen/Staging.lean) -/
structure Tables where
  tmgrIn      : List String
  agentIn     : List String    -- outer filter of `_work`
  agentInDo   : List String    -- inner guard of `_handle_task_staging`
  agentOut    : List String
  agentOutDo  : List String
  tmgrOut     : List String
  helper      : List String    -- actions `handle_staging_directive` accepts
  tmgrOutOnError : Bool        -- the client side honours stage_on_error
deriving Repr

def clientSrcCtx (b : Boxes) : List (String × Str) :=
  [("pwd", b.client), ("client", b.client), ("task", b.task), ("pilot", b.pilot), ("session", b.session),
   ("resource", b.resource), ("endpoint", b.endpoint)]
def clientTgtCtx (b : Boxes) : List (String × Str) :=
  [("pwd", b.task), ("client", b.client), ("task", b.task), ("pilot", b.pilot), ("session", b.session),
   ("resource", b.resource), ("endpoint", b.endpoint)]
def agentCtx (b : Boxes) : List (String × Str) :=
  [("pwd", b.task), ("task", b.task), ("pilot", b.pilot), ("session", b.session), ("resource", b.resource),
   ("endpoint", b.endpoint)]
/-- output side, client: sources relative to the task sandbox, targets relative to the client directory -/
def clientOutSrcCtx (b : Boxes) : List (String × Str) :=
  [("pwd", b.task), ("client", b.client), ("task", b.task), ("pilot", b.pilot), ("session", b.session),
   ("resource", b.resource), ("endpoint", b.endpoint)]
def clientOutTgtCtx (b : Boxes) : List (String × Str) :=
  [("pwd", b.client), ("client", b.client), ("task", b.task), ("pilot", b.pilot), ("session", b.session),
   ("resource", b.resource), ("endpoint", b.endpoint)]

def tarName (uid : Nat) : Str := "task.".toList ++ (toString (1000000 + uid)).toList.drop 1 ++ ".tar".toList

/-- a target written in directory form (`inputs/`, `pilot:///results/`) names a directory: the helper creates
    `dirname(target)` - that very directory - and `cp -r src dir/` / `shutil.move(src, 'dir/')` put the source into
    it under its own name -/
def dirForm (u : Url) : Bool := u.path.getLast? = some '/'

/-- the location a directive's target denotes for the source at `s` -/
def tloc (s : Path) (g : Url) : Path :=
  if dirForm g then (match s.getLast? with
                     | some b => loc g ++ [b]
                     | none   => loc g)
  else loc g

def helperOp (action : String) (s t : Path) : Option Op :=
  if action = "Copy" ∨ action = "Transfer" then some (.copy s t)
  else if action = "Link" then some (.link s t)
  else if action = "Move" then some (.move s t)
  else none

/-- the helper's operation for a completed source and target.  `os.link(src, 'dir/')` onto the directory just
    created fails; a MOVE into a directory-form target is refused by `shutil.move` when a file of the source's
    name is already there (that one case is not modelled, nor generated by the correspondence check) -/
def helperOpU (action : String) (s : Path) (g : Url) : Option Op :=
  if dirForm g ∧ action = "Link" then none else helperOp action s (tloc s g)

/-- resolve one directive in the given contexts into an operation -/
def resolveOp (srcCtx tgtCtx : List (String × Str)) (sd : SD) : Except Err Op :=
  match completeUrl srcCtx sd.source, completeUrl tgtCtx sd.target with
  | .ok s, .ok t => match helperOpU sd.action (loc s) t with
                    | some op => .ok op
                    | none    => .error .assertion
  | .error e, _  => .error e
  | _, .error e  => .error e

/-- what one TARBALL directive contributes to the tarball: the member name (the completed target) and the
    content of its source; a source that is not a readable file is an I/O error -/
def packEntry (fs : FS) (t : Task) (sd : SD) : Except Err (Path × Nat) :=
  match completeUrl (clientSrcCtx t.boxes) sd.source, completeUrl (clientTgtCtx t.boxes) sd.target with
  | .ok s, .ok g => (match fs.read (loc s) with
                     | some (.data c) => Except.ok (loc g, c)
                     | _              => Except.error Err.io)
  | .error e, _  => .error e
  | _, .error e  => .error e

/-- where the packed tarball is shipped to: `task:///<uid>.tar` -/
def tarPathOf (t : Task) : Path := normSegs ((urlOf t.boxes.task).path ++ '/' :: tarName t.uid)

/-- the directive the client adds for the agent: unpack `task:///<uid>.tar` -/
def tarDirective (t : Task) : SD := { source := [], target := "task:///".toList ++ tarName t.uid, action := "Tarball" }

/-- one directive of the client side loop over the (filtered) directives: a TARBALL directive stands for the
    shipment of the packed tarball the first time one is met and for nothing afterwards; any other directive
    is resolved into its transfer -/
def tmgrStep (t : Task) (entries : List (Path × Nat)) (acc : Except Err (List Op × Bool)) (sd : SD) : Except Err (List Op × Bool) :=
  match acc with
  | .error e => .error e
  | .ok (ops, seenTar) =>
    if sd.action = "Tarball" then
      (if seenTar then .ok (ops, true) else .ok (ops ++ [Op.put (tarPathOf t) (.tar entries)], true))
    else match resolveOp (clientSrcCtx t.boxes) (clientTgtCtx t.boxes) sd with
         | .ok op   => .ok (ops ++ [op], seenTar)
         | .error e => .error e

/-- client side of input staging: TARBALL sources are packed first, then the transfers run in the
    order of the directives with the tarball in place of the first TARBALL directive -/
def tmgrInPlan (tb : Tables) (fs : FS) (t : Task) : Except Err (List Op × List SD) :=
  if t.inputs.filter (fun sd => tb.tmgrIn.contains sd.action) = [] then .ok ([], t.inputs)
  else
    match ((t.inputs.filter (fun sd => tb.tmgrIn.contains sd.action)).filter (fun sd => sd.action = "Tarball")).mapM (packEntry fs t) with
    | .error e    => .error e
    | .ok entries =>
      match (t.inputs.filter (fun sd => tb.tmgrIn.contains sd.action)).foldl (tmgrStep t entries) (.ok ([], false)) with
      | .error e => .error e
      | .ok (ops, _) =>
        .ok (ops, if (t.inputs.filter (fun sd => tb.tmgrIn.contains sd.action)).filter (fun sd => sd.action = "Tarball") = [] then t.inputs
                  else t.inputs ++ [tarDirective t])

/-- target defaulting of the agent side stagers -/
def agentTarget (sd : SD) : Str :=
  if strip sd.target = [] then "task:///".toList ++ basename sd.source else sd.target

/-- what one input directive becomes on the agent side: `none` = it cannot be carried out, `some none` =
    nothing to do (a TARBALL directive other than the one the client added for the packed tarball),
    `some (some op)` = the operation -/
def agentInOp (t : Task) (sd : SD) : Option (Option Op) :=
  if sd.action = "Tarball" then
    -- only the directive the client added for the packed tarball triggers extraction
    (if basename (urlOf sd.target).path = tarName t.uid
     then some (some (Op.unpack (normSegs ((urlOf t.boxes.task).path ++ '/' :: tarName t.uid))))
     else some none)
  else
    match completeUrl (agentCtx t.boxes) sd.source, completeUrl (agentCtx t.boxes) (agentTarget sd) with
    | .ok s, .ok g =>
      if g.schema ≠ "file".toList then none
      else (match helperOpU sd.action (loc s) g with
            | some op => some (some op)
            | none    => none)
    | _, _ => none

def agentInStep (tb : Tables) (t : Task) (acc : List Op × Bool) (sd : SD) : List Op × Bool :=
  if ¬ acc.2 then acc
  else if ¬ tb.agentInDo.contains sd.action then acc
  else
    match agentInOp t sd with
    | some (some op) => (acc.1 ++ [op], true)
    | some none      => acc
    | none           => (acc.1, false)

/-- agent side: directives are resolved one by one as they are reached, so a directive that
    cannot be resolved stops the task after the earlier ones were carried out: (operations, all resolved) -/
def agentInPlan (tb : Tables) (t : Task) (inputs : List SD) : List Op × Bool :=
  (inputs.filter (fun sd => tb.agentIn.contains sd.action)).foldl (agentInStep tb t) ([], true)

/-- the operation one output directive becomes on the agent side: source and target resolved in the agent's
    contexts, both local; `none` = the directive cannot be carried out -/
def agentOutOp (t : Task) (sd : SD) : Option Op :=
  match completeUrl (agentCtx t.boxes) sd.source, completeUrl (agentCtx t.boxes) (agentTarget sd) with
  | .ok s, .ok g =>
    if s.schema ≠ "file".toList then none
    else if g.schema ≠ "file".toList then none
    else helperOpU sd.action (loc s) g
  | _, _ => none

/-- one directive in the loop of the agent side output stager: once a directive could not be carried out
    the rest is not looked at; directives the stager lets through but does not act on are skipped -/
def agentOutStep (tb : Tables) (t : Task) (acc : List Op × Bool) (sd : SD) : List Op × Bool :=
  if ¬ acc.2 then acc
  else if ¬ tb.agentOutDo.contains sd.action then acc
  else
    match agentOutOp t sd with
    | some op => (acc.1 ++ [op], true)
    | none    => (acc.1, false)

def agentOutPlan (tb : Tables) (t : Task) : List Op × Bool :=
  if t.target ≠ "DONE" ∧ ¬ t.stageOnError then ([], true)
  else (t.outputs.filter (fun sd => tb.agentOut.contains sd.action)).foldl (agentOutStep tb t) ([], true)

def tmgrOutPlan (tb : Tables) (t : Task) : Except Err (List Op) :=
  if t.target ≠ "DONE" ∧ ¬ (tb.tmgrOutOnError ∧ t.stageOnError) then .ok []
  else
    (t.outputs.filter (fun sd => tb.tmgrOut.contains sd.action)).foldl (fun (acc : Except Err (List Op)) sd =>
      match acc with
      | .error e => .error e
      | .ok ops  => match resolveOp (clientOutSrcCtx t.boxes) (clientOutTgtCtx t.boxes) sd with
                    | .ok op   => .ok (ops ++ [op])
                    | .error e => .error e) (.ok [])

/-- client side stages resolve all directives before the first transfer -/
def runStage (fs : FS) (plan : Except Err (List Op)) : FS × Bool :=
  match plan with
  | .ok ops  => exec fs ops
  | .error _ => (fs, false)

/-- agent side stages: what was resolved is executed, then the resolution failure (if any) counts -/
def runStageA (fs : FS) (plan : List Op × Bool) : FS × Bool :=
  match exec fs plan.1 with
  | (fs', true)  => (fs', plan.2)
  | (fs', false) => (fs', false)

/-- the whole life of one task's data: input staging, the task writes `produced`, output staging -/
def pipeline (tb : Tables) (fs : FS) (t : Task) (produced : List (Path × Nat)) : FS × String :=
  match tmgrInPlan tb fs t with
  | .error _ => (fs, "FAILED")
  | .ok (ops1, inputs') =>
    match exec fs ops1 with
    | (fs1, false) => (fs1, "FAILED")
    | (fs1, true)  =>
      match runStageA fs1 (agentInPlan tb t inputs') with
      | (fs2, false) => (fs2, "FAILED")
      | (fs2, true)  =>
        (fun (fs3 : FS) =>
          match runStageA fs3 (agentOutPlan tb t) with
          | (fs4, false) => (fs4, "FAILED")
          | (fs4, true)  =>
            match runStage fs4 (tmgrOutPlan tb t) with
            | (fs5, false) => (fs5, "FAILED")
            | (fs5, true)  => (fs5, t.target))
          (writeAll fs2 produced)

/-- a component works on the tasks of a bulk one after the other, each in its own error handler -/
def bulk (tb : Tables) : FS → List (Task × List (Path × Nat)) → FS × List String
  | fs, []            => (fs, [])
  | fs, (t, pr) :: ts => (fun (x : FS × String) => (fun (r : FS × List String) => (r.1, x.2 :: r.2)) (bulk tb x.1 ts))
                           (pipeline tb fs t pr)

/-! ### the scratch tarball of client-side input staging (`_handle_task`)

Several task managers - of one or of several sessions on the same client host - pack, ship and remove their
scratch tarballs at the same time; task uids repeat across sessions (`task.000000` exists in each).  A *call*
is one `_handle_task` invocation; it works on the scratch file `scratchOf unique call uid`. -/

/-- the name of the scratch file: one of its own per call when the operating system hands it out
    (`tempfile.NamedTemporaryFile`), otherwise whatever the task uid determines -/
def scratchOf (unique : Bool) (call uid : Nat) : Nat × Nat :=
  if unique then (0, call) else (1, uid)

inductive TarOp where
  | pack (members : Nat)     -- `tarfile.open(.., 'w')` .. `close()`: the file now holds these members
  | ship                     -- `handle_staging_directive(tar_sd)`: reads the file
  | remove                   -- `os.remove(tar_path)`
deriving DecidableEq, Repr

abbrev Scratch := List ((Nat × Nat) × Nat)

def scratchGet (d : Scratch) (p : Nat × Nat) : Option Nat := (d.find? (fun e => e.1 = p)).map (·.2)

/-- one step of one call; a `ship` reports what it found (`none`: no such file) -/
def tarStep (d : Scratch) (p : Nat × Nat) : TarOp → Scratch × Option (Option Nat)
  | .pack m => ((p, m) :: d.filter (fun e => e.1 ≠ p), none)
  | .ship   => (d, some (scratchGet d p))
  | .remove => (d.filter (fun e => e.1 ≠ p), none)

/-- any interleaving of the steps of any number of calls: (call, uid of its task, step); returns per `ship`
    the call and what it shipped -/
def tarRun (unique : Bool) : Scratch → List (Nat × Nat × TarOp) → List (Nat × Option Nat)
  | _, []                   => []
  | d, (c, u, op) :: rest =>
    match tarStep d (scratchOf unique c u) op with
    | (d', some r) => (c, r) :: tarRun unique d' rest
    | (d', none)   => tarRun unique d' rest

/-! ### the sandbox of a pilot (`Session._get_pilot_sandbox`)

The session keeps what it computed once: `cache` maps a pilot uid to the sandbox it was given; a sandbox is
the pair (session sandbox, directory name), the directory of pilot `pid` being `pid`. -/

def pilotSandbox (sess : Nat) (cache : List (Nat × (Nat × Nat))) (pid : Nat) : (Nat × Nat) × List (Nat × (Nat × Nat)) :=
  match cache.find? (fun e => e.1 = pid) with
  | some e => (e.2, cache)
  | none   => ((sess, pid), cache ++ [(pid, (sess, pid))])

/-- the pilots of a session ask for their sandboxes in any order, any number of times -/
def pilotSandboxes (sess : Nat) : List (Nat × (Nat × Nat)) → List Nat → List (Nat × Nat)
  | _,     []          => []
  | cache, pid :: rest => (pilotSandbox sess cache pid).1 :: pilotSandboxes sess (pilotSandbox sess cache pid).2 rest

/-! ### what of the input tarball is on disk when it is transferred -/

/-- the archive of a task's TARBALL directives is written through a buffered temporary file (`buf` bytes of buffer): what
    the buffer still holds is not on disk.  With `closesFile` (read from the source: the temporary file is closed after the
    archive is finished) all `size` bytes are on disk when the tarball is transferred; otherwise the tail that did not fill
    a buffer is missing -/
def tarOnDisk (closesFile : Bool) (size buf : Nat) : Nat :=
  if closesFile then size else size - size % buf

end RPVerif.Staging
