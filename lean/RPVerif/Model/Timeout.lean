/-
Model of the executor's timeout watcher (properties C05, C07):
  agent/executing/base.py  AgentExecutingComponent.handle_timeout, control_cb ('task_startup_done'),
                           _to_watcher (one pass of its loop)
Times are integers (the harness uses whole seconds on a virtual clock).  A cancel time of 0 means
"no deadline": the watcher drops such an entry without cancelling.
-/
namespace RPVerif.Timeout

structure Pend where
  uid     : Nat
  ct      : Nat          -- cancel time
  started : Bool         -- has_started
deriving DecidableEq, Repr

structure TW where
  pending : List Pend := []            -- self._to_tasks (filled by other threads)
  table   : List (Nat × Nat) := []     -- to_tasks of the watcher: uid -> cancel time, in insertion order
  gone    : List Nat := []             -- tasks the watcher cancelled: the executor does not own them any more
deriving Repr

/-- `handle_timeout(task)` at time `now` for a task with `startup_timeout = st`, `timeout = et` -/
def handleTimeout (w : TW) (now uid st et : Nat) : TW :=
  if st ≠ 0 ∨ et ≠ 0 then
    { w with pending := w.pending ++ [{ uid := uid, ct := now + (if st ≠ 0 then st else et), started := decide (st = 0) }] }
  else w

/-- the `task_startup_done` control message at time `now`; `get_task` finds nothing for a task that
    was cancelled (`cancel_task` takes it out of the executor's `_tasks`) -/
def startupDone (w : TW) (now uid et : Nat) : TW :=
  if w.gone.contains uid then w else
  { w with pending := w.pending ++ [{ uid := uid, ct := if et ≠ 0 then et + now else 0, started := true }] }

def setKey (t : List (Nat × Nat)) (uid ct : Nat) : List (Nat × Nat) :=
  if t.any (fun e => e.1 = uid) then t.map (fun e => if e.1 = uid then (uid, ct) else e) else t ++ [(uid, ct)]

/-- `if has_started or tid not in to_tasks: to_tasks[tid] = [task, cancel_time]` -/
def merge (t : List (Nat × Nat)) (p : Pend) : List (Nat × Nat) :=
  if p.started ∨ ¬ t.any (fun e => e.1 = p.uid) then setKey t p.uid p.ct else t

/-- stable insertion by cancel time (`sorted(..., key=lambda x: x[1])`) -/
def insertCt (e : Nat × Nat) : List (Nat × Nat) → List (Nat × Nat)
  | []      => [e]
  | x :: xs => if e.2 ≤ x.2 then e :: x :: xs else x :: insertCt e xs

def sortCt (l : List (Nat × Nat)) : List (Nat × Nat) := l.foldr insertCt []

/-- one pass of the watcher loop at time `now`: the uids `cancel_task` is called for, in order -/
def pass (w : TW) (now : Nat) : TW × List Nat :=
  let t := w.pending.foldl merge w.table
  let expired := (sortCt t).takeWhile (fun e => decide (e.2 < now))
  ({ pending := [], table := t.filter (fun e => !expired.any (fun x => x.1 = e.1)),
     gone := w.gone ++ (expired.filter (fun e => e.2 ≠ 0)).map (·.1) },
   (expired.filter (fun e => e.2 ≠ 0)).map (·.1))

inductive Ev where
  | reg  (uid st et : Nat)     -- handle_timeout
  | done (uid et : Nat)        -- task_startup_done
  | pass
deriving DecidableEq, Repr

def step (w : TW) (now : Nat) : Ev → TW × List Nat
  | .reg u st et => (handleTimeout w now u st et, [])
  | .done u et   => (startupDone w now u et, [])
  | .pass        => pass w now

/-- a history of timed events; returns the final state and every cancellation as (time, uid) -/
def run (w : TW) : List (Nat × Ev) → TW × List (Nat × Nat)
  | []            => (w, [])
  | (t, e) :: rest =>
    match step w t e with
    | (w', cs) =>
      match run w' rest with
      | (w'', more) => (w'', cs.map (fun u => (t, u)) ++ more)

end RPVerif.Timeout
