/-
Model of the client-side state machinery (properties C06, C13, C14, C15):

  states.py        _task_state_progress / _pilot_state_progress / *_collapse
  task.py          Task._update
  pilot.py         Pilot._update
  task_manager.py  TaskManager._update_tasks, _pilot_state_cb
  pilot_manager.py PilotManager._update_pilot

A state is `nf i` (the non-final state with numeric value `i`) or one of the
three final states, which all carry the value `N` (15 for tasks, 5 for pilots);
the names and numeric values are tied to `states.py` through `Gen/States.lean`
(theorems `taskTable_ok`, `pilotTable_ok`).  No imports: this file is compiled
into the `rpmodel` driver.
-/
namespace RPVerif.States

inductive St where
  | nf (i : Nat)
  | done
  | failed
  | canceled
deriving DecidableEq, Repr, Inhabited

inductive Err where
  | valueError      -- ValueError  (invalid transition between final states)
  | runtimeError    -- RuntimeError (Task._update / Pilot._update: not a single step)
deriving DecidableEq, Repr

namespace St

def isFinal : St → Bool
  | nf _ => false
  | _    => true

/-- numeric value as in `_task_state_values` / `_pilot_state_values` -/
def val (N : Nat) : St → Nat
  | nf i => i
  | _    => N

/-- `target in [FAILED, CANCELED]` -/
def isFC : St → Bool
  | failed   => true
  | canceled => true
  | _        => false

end St

/-- `for i in range(lo, hi): passed.append(inv[i])` -/
def nfRange : Nat → Nat → List St
  | _,  0      => []
  | lo, hi + 1 => if lo ≤ hi then nfRange lo hi ++ [St.nf hi] else []

/-- `states._task_state_progress(uid, current, target)` — as in the working tree
    (contradicting final states are discarded, not raised). -/
def taskProgress (N : Nat) (cur tgt : St) : Except Err (St × List St) :=
  if cur = .canceled ∧ tgt.isFinal then .ok (tgt, [])
  else if cur.isFinal ∧ tgt.isFinal then .ok (cur, [])
  else if cur.val N ≥ tgt.val N then .ok (cur, [])
  else .ok (tgt, nfRange (cur.val N + 1) (tgt.val N) ++ [tgt])

/-- `states._pilot_state_progress(pid, current, target)` -/
def pilotProgress (N : Nat) (cur tgt : St) : Except Err (St × List St) :=
  if cur = .canceled ∧ tgt.isFinal then .ok (tgt, [])
  else if cur = .failed ∧ tgt.isFinal then .ok (tgt, [])
  else if cur.isFinal ∧ tgt ≠ cur ∧ tgt.isFinal then .error .valueError
  else if cur.val N ≥ tgt.val N then .ok (cur, [])
  else .ok (tgt, nfRange (cur.val N + 1) (tgt.val N) ++ [tgt])

/-- `_task_state_collapse` / `_pilot_state_collapse`; `none` is Python's `None` -/
def collapseMax (N : Nat) : List St → Option St → Option St
  | [],      acc => acc
  | s :: ss, acc =>
    match acc with
    | none   => collapseMax N ss (some s)      -- value(s) ≥ 0 > -1
    | some a => collapseMax N ss (if s.val N > a.val N then some s else some a)

def collapse (N : Nat) (ss : List St) : Option St :=
  if .done ∈ ss then some .done
  else if .failed ∈ ss then some .failed
  else if .canceled ∈ ss then some .canceled
  else collapseMax N ss none

/-! ### client-side task facade -/

/-- the fields of `Task` that matter for C06 / C13 -/
structure Task where
  uid    : Nat
  state  : St
  pilot  : Option Nat      -- `Task.pilot` (pid), `none` while unbound
  detail : Option Nat      -- `exception_detail`: `some p` = "pilot p is final"
deriving DecidableEq, Repr

/-- an update dict: `uid`, `state`, optional `exception_detail` -/
structure Upd where
  uid    : Nat
  state  : St
  detail : Option Nat := none
deriving DecidableEq, Repr

/-- `Task._update(task_dict, reconnect)`; `.ok none` is the early `return`
    (nothing written). Note the attribute written is `task_dict['state']`, not
    the locally corrected `target`. -/
def taskUpdate (N : Nat) (t : Task) (u : Upd) (reconnect : Bool) : Except Err Task :=
  if t.state = .failed ∨ t.state = .done then .ok t
  else if ¬ reconnect ∧
          ¬ (if t.state = .canceled ∧ u.state ≠ .done then t.state else u.state).isFC ∧
          (if t.state = .canceled ∧ u.state ≠ .done then t.state else u.state).val N
            ≠ t.state.val N + 1 then
    .error .runtimeError
  else
    .ok { t with state := u.state, detail := u.detail.or t.detail }

/-- the `for s in passed:` loop of `_update_tasks` for one task -/
def replay (N : Nat) (t : Task) (u : Upd) : List St → Except Err (Task × List St)
  | []      => .ok (t, [])
  | s :: ss =>
    match taskUpdate N t { u with state := s } false with
    | .error e => .error e
    | .ok t'   =>
      match replay N t' u ss with
      | .error e      => .error e
      | .ok (t'', ns) => .ok (t'', s :: ns)

/-- body of the `for task_dict in task_dicts` loop for a known task:
    returns the task and the states to notify -/
def updateOne (N : Nat) (t : Task) (u : Upd) : Except Err (Task × List St) :=
  if t.state = u.state then .ok (t, [])
  else
    match taskProgress N t.state u.state with
    | .error e => .error e
    | .ok (target, passed) =>
      replay N t u (if target.isFC then passed.drop (passed.length - 1) else passed)

/-- manager state: the known tasks (uids unique) -/
abbrev Tasks := List Task

def setTask (ts : Tasks) (t : Task) : Tasks :=
  ts.map (fun x => if x.uid = t.uid then t else x)

/-- `TaskManager._update_tasks(task_dicts)`.
    Result: tasks after the call, callbacks delivered `(uid, state)` in order,
    and the exception that escaped (if any).  Mutations made before an exception
    persist; the callbacks collected so far are then never delivered. -/
def updateTasksAux (N : Nat) : Tasks → List Upd → List (Nat × St) → Tasks × List (Nat × St) × Option Err
  | ts, [],      acc => (ts, acc, none)
  | ts, u :: us, acc =>
    match ts.find? (fun t => t.uid = u.uid) with
    | none   => updateTasksAux N ts us acc            -- unknown task: skipped
    | some t =>
      match updateOne N t u with
      | .error e      => (ts, [], some e)             -- NB: partial replays are not modelled past the error (cannot happen, see `updateOne_ok`)
      | .ok (t', ns)  => updateTasksAux N (setTask ts t') us (acc ++ ns.map (fun s => (u.uid, s)))

def updateTasks (N : Nat) (ts : Tasks) (us : List Upd) : Tasks × List (Nat × St) × Option Err :=
  updateTasksAux N ts us []

/-- `TaskManager._state_sub_cb`: what of a notification batch is handed to `_update_tasks`.  With `passesAll` (read from
    the source by the translator) every task notification, in arrival order; the alternative shown for contrast keeps
    only the last notification per task -/
def lastPerUid (b : List Upd) : List Upd :=
  b.foldr (fun u acc => if acc.any (fun x => x.uid = u.uid) then acc else u :: acc) []

def subBatch (passesAll : Bool) (b : List Upd) : List Upd :=
  if passesAll then b else lastPerUid b

/-- a sequence of batches (each `_state_sub_cb` message is one batch) -/
def runBatches (N : Nat) : Tasks → List (List Upd) → Tasks × List (Nat × St)
  | ts, []      => (ts, [])
  | ts, b :: bs =>
    match updateTasks N ts b with
    | (ts', ns, _) =>
      match runBatches N ts' bs with
      | (ts'', ns') => (ts'', ns ++ ns')

/-! ### `TaskManager._pilot_state_cb` (C13) -/

/-- one pilot `(pid, state)`: for a final pilot, every task of the manager that
    is bound to that pilot and not yet final is updated to FAILED with a detail
    naming the pilot.  Returns the new tasks and the uids advanced/published. -/
def pilotFinalOne (N : Nat) (pid : Nat) : Tasks → Except Err (Tasks × List Nat)
  | []      => .ok ([], [])
  | t :: ts =>
    if t.pilot = some pid ∧ ¬ t.state.isFinal then
      match taskUpdate N t { uid := t.uid, state := .failed, detail := some pid } false with
      | .error e => .error e
      | .ok t'   =>
        match pilotFinalOne N pid ts with
        | .error e        => .error e
        | .ok (ts', pubs) => .ok (t' :: ts', t.uid :: pubs)
    else
      match pilotFinalOne N pid ts with
      | .error e        => .error e
      | .ok (ts', pubs) => .ok (t :: ts', pubs)

def pilotStateCb (N : Nat) : Tasks → List (Nat × St) → Except Err (Tasks × List Nat)
  | ts, []            => .ok (ts, [])
  | ts, (pid, s) :: ps =>
    if s.isFinal then
      match pilotFinalOne N pid ts with
      | .error e        => .error e
      | .ok (ts', pubs) =>
        match pilotStateCb N ts' ps with
        | .error e          => .error e
        | .ok (ts'', pubs') => .ok (ts'', pubs ++ pubs')
    else pilotStateCb N ts ps

/-- the application submits tasks re-using ONE description object: before each submission it sets the uid and the pilot
    (`pilot.submit_tasks(td)` stamps `td.pilot`); `subs` lists (uid, pilot) in submission order.  With `snapshot` (read from
    task.py by the translator: the Task records the pilot when it is created) every task is bound to the pilot it was
    submitted to; were `Task.pilot` a live view of the description, every task would show the pilot of the LAST submission -/
def submitShared (snapshot : Bool) (subs : List (Nat × Nat)) : Tasks :=
  subs.map (fun s => { uid := s.1, state := .nf 0, detail := none,
                       pilot := some (if snapshot then s.2 else (subs.getLast?.map (·.2)).getD s.2) })

/-! ### client-side pilot facade (C14) -/

/-- `Pilot._update`: only forward gaps > 1 raise; the callbacks registered on the
    pilot are invoked with the state written. -/
def pilotUpdate (N : Nat) (cur tgt : St) : Except Err St :=
  if ¬ tgt.isFC ∧ tgt.val N > cur.val N + 1 then .error .runtimeError else .ok tgt

/-- the `for s in passed:` loop of `_update_pilot`: state after, callbacks seen -/
def pilotReplay (N : Nat) (cur : St) : List St → Except Err (St × List St)
  | []      => .ok (cur, [])
  | s :: ss =>
    match pilotUpdate N cur s with
    | .error e => .error e
    | .ok c    =>
      match pilotReplay N c ss with
      | .error e      => .error e
      | .ok (c', cbs) => .ok (c', s :: cbs)

/-- `PilotManager._update_pilot` for a known pilot -/
def updatePilot (N : Nat) (cur tgt : St) : Except Err (St × List St) :=
  if cur = tgt then
    match pilotUpdate N cur tgt with
    | .error e => .error e
    | .ok c    => .ok (c, [c])
  else
    match pilotProgress N cur tgt with
    | .error e => .error e
    | .ok (target, passed) =>
      pilotReplay N cur (if target.isFC then passed.drop (passed.length - 1) else passed)

/-- a stream of notifications for one known pilot; an exception leaves the
    state unchanged (it escapes `_state_sub_cb`) and the stream continues -/
def runPilot (N : Nat) : St → List St → St × List St
  | cur, []      => (cur, [])
  | cur, t :: ts =>
    match updatePilot N cur t with
    | .error _      => runPilot N cur ts
    | .ok (c, cbs)  =>
      match runPilot N c ts with
      | (c', cbs') => (c', cbs ++ cbs')

/-! ### the callback chain of `Pilot._update`

Callbacks registered on the pilot object (the task manager's `_pilot_state_cb` is one of them:
`TaskManager.add_pilots` registers it there) run first, in registration order; the callbacks
registered on the pilot manager run after them.  An exception raised by a callback ends the chain. -/

structure Cb where
  id     : Nat
  raises : Bool
deriving DecidableEq, Repr

/-- the ids of the callbacks that are called (the raising one is the last) -/
def runChain : List Cb → List Nat
  | []      => []
  | c :: cs => if c.raises then [c.id] else c.id :: runChain cs

def pilotUpdateCbs (pilotCbs pmgrCbs : List Cb) : List Nat := runChain (pilotCbs ++ pmgrCbs)

end RPVerif.States
