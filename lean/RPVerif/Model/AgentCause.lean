import RPVerif.Model.States
/-
Model of why the agent stops (`Agent_0._final_cause`) and the final pilot state
it reports (`Agent_0.finalize` -> killme.signal -> bootstrap_0.sh).  Which
method writes which cause and whether it calls `stop()` is tied to the source
through `Gen/AgentCause.lean`.
-/
namespace RPVerif.AgentCause
open RPVerif.States

inductive Cause where
  | none | timeout | cancel | sysexit
deriving DecidableEq, Repr

/-- what can happen to a running agent before it finalizes -/
inductive Ev where
  | lifetimeExpired            -- `_check_lifetime` finds the runtime exceeded
  | cancelCmd (named : Bool)   -- `cancel_pilots` control message; `named`: this pilot's uid is listed
  | terminateCmd               -- `terminate` control message -> `stop()`
deriving DecidableEq, Repr

/-- `Agent_0.stop`: records 'cancel' unless a cause is already known -/
def stop (c : Cause) : Cause := if c = .none then .cancel else c

def step (c : Cause) : Ev → Cause
  | .lifetimeExpired => stop .timeout        -- `_final_cause = 'timeout'; self.stop()`
  | .cancelCmd true  => stop .cancel         -- `_final_cause = 'cancel';  self.stop()`
  | .cancelCmd false => c                    -- ignored
  | .terminateCmd    => stop c

def run (c : Cause) (evs : List Ev) : Cause := evs.foldl step c

/-- `Agent_0.finalize`: cause -> state written to killme.signal -/
def finalState : Cause → St
  | .timeout => .done
  | .cancel  => .canceled
  | .sysexit => .canceled
  | .none    => .failed

/-- bootstrap_0.sh: the state in killme.signal, FAILED when the agent never
    got to write it -/
def bootstrap (signal : Option St) : St :=
  match signal with
  | some s => s
  | none   => .failed

end RPVerif.AgentCause
