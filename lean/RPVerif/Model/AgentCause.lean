import RPVerif.Model.States
/-
Model of why the agent stops (`Agent_0._final_cause`) and the final pilot state
it reports (`Agent_0.finalize` -> killme.signal -> bootstrap_0.sh).  Which
method writes which cause and whether it calls `stop()` is tied to the source
through `Gen/AgentCause.lean`.
-/
namespace RPVerif.AgentCause
open RPVerif.States

inductive Cause where
  | none | timeout | cancel | sysexit
deriving DecidableEq, Repr

/-- what can happen to a running agent before it finalizes -/
inductive Ev where
  | lifetimeExpired            -- `_check_lifetime` finds the runtime exceeded
  | cancelCmd (named : Bool)   -- `cancel_pilots` control message; `named`: this pilot's uid is listed
  | terminateCmd               -- `terminate` control message -> `stop()`
deriving DecidableEq, Repr

/-- `Agent_0.stop`: records 'cancel' unless a cause is already known -/
def stop (c : Cause) : Cause := if c = .none then .cancel else c

def step (c : Cause) : Ev → Cause
  | .lifetimeExpired => stop .timeout        -- `_final_cause = 'timeout'; self.stop()`
  | .cancelCmd true  => stop .cancel         -- `_final_cause = 'cancel';  self.stop()`
  | .cancelCmd false => c                    -- ignored
  | .terminateCmd    => stop c

def run (c : Cause) (evs : List Ev) : Cause := evs.foldl step c

/-- the events whose handler calls `stop()` (which sets the termination event) -/
def stops : Ev → Bool
  | .lifetimeExpired => true
  | .cancelCmd named => named
  | .terminateCmd    => true

/-- the cause `finalize` sees when the main thread runs it as soon as the first `stop()` has set the
    termination event - while the thread that called `stop()` may still be inside it -/
def causeAtFirstStop (c : Cause) : List Ev → Option Cause
  | []      => none
  | e :: es => if stops e then some (step c e) else causeAtFirstStop (step c e) es

/-- the handlers as sequences of atomic actions (what `Gen.causeWrites` lists per method) -/
inductive Act where
  | set (c : Cause)        -- `self._final_cause = ...`
  | stop                   -- `self.stop()`: default cause, termination event, session closed
deriving DecidableEq, Repr

/-- the causes `finalize` can observe when it may run at any moment from the first `stop()` on:
    the cause right after that `stop()` and after every later action of the same handler -/
def observable (c : Cause) : List Act → List Cause
  | []            => []
  | .set x :: as  => observable x as
  | .stop :: as   => (if c = .none then Cause.cancel else c) ::
                       (as.foldl (fun (acc : Cause × List Cause) a =>
                          match a with
                          | .set x => (x, acc.2 ++ [x])
                          | .stop  => acc) ((if c = .none then Cause.cancel else c), [])).2

/-- `Agent_0.finalize`: cause -> state written to killme.signal -/
def finalState : Cause → St
  | .timeout => .done
  | .cancel  => .canceled
  | .sysexit => .canceled
  | .none    => .failed

/-- bootstrap_0.sh: the state in killme.signal, FAILED when the agent never
    got to write it -/
def bootstrap (signal : Option St) : St :=
  match signal with
  | some s => s
  | none   => .failed

/-- `Agent_0.finalize` as the two things that matter to the bootstrapper: the cause is written to killme.signal, the final
    notification is pushed (`pushFails`: the channel is closed under it - `stop()` closes the session from another thread
    while the worker runs `finalize()` - and the exception ends finalize).  With `writesFirst` (the order read from the
    source by the translator) the file exists whatever happens to the push; otherwise only when the push went through. -/
def signalAfterFinalize (writesFirst pushFails : Bool) (c : Cause) : Option St :=
  if writesFirst then some (finalState c)
  else if pushFails then none else some (finalState c)

/-- bootstrap_0.sh after its monitoring loop: `wait $AGENT_PID` and the exit code the script goes on with.  With
    `rightAfterWait` (read from the script: `AGENT_EXITCODE=$?` is the command that follows the `wait`) it is the agent's;
    with another command in between it is that command's (0 for an `echo`) -/
def collectedCode (rightAfterWait : Bool) (agentCode : Nat) : Nat := if rightAfterWait then agentCode else 0

/-- the exit code of the pilot job: 0 when the agent wrote down a final state, the collected code otherwise -/
def jobExit (rightAfterWait : Bool) (signal : Option St) (agentCode : Nat) : Nat :=
  match signal with
  | some _ => 0
  | none   => collectedCode rightAfterWait agentCode

end RPVerif.AgentCause
