/-
Model of the client <-> agent message forwarding (C16):
  session.py  Session.crosswire_pubsub.pubsub_fwd (both directions),
              Session._crosswire_proxy (one out- and one in-forwarder per side
              and channel), proxy.py (the proxy channel is a plain pubsub bus).
Sides are numbered (0 = client, 1.. = pilots); `_module` of side `m` is `m`.
-/
namespace RPVerif.Bridge

structure Msg where
  origin : Option Nat      -- `msg['origin']`, absent = none
  fwd    : Option Bool     -- `msg['fwd']`,    absent = none (falsy)
  body   : Nat
deriving DecidableEq, Repr

/-- `if 'origin' not in msg: msg['origin'] = self._module` -/
def stamp (m : Nat) (msg : Msg) : Msg :=
  match msg.origin with
  | some _ => msg
  | none   => { msg with origin := some m }

/-- `pubsub_fwd` with `from_proxy = False` on side `m`: what is put on the proxy bus -/
def outFwd (m : Nat) (msg : Msg) : Option Msg :=
  if (stamp m msg).fwd ≠ some true then none            -- `if not msg.get('fwd'): return`
  else if (stamp m msg).origin ≠ some m then none       -- `if not msg['origin'] == self._module: return`
  else some { stamp m msg with fwd := some false }      -- `msg['fwd'] = False; publisher.put(tgt, msg)`

/-- `pubsub_fwd` with `from_proxy = True` on side `m`: what is put on the local bus -/
def inFwd (m : Nat) (msg : Msg) : Option Msg :=
  if (stamp m msg).origin = some m then none            -- came from here: dropped
  else some (stamp m msg)

/-- A message appears on the local bus of side `t`: it is delivered to the local
    subscribers, the out-forwarder may put it on the proxy bus, which hands it to
    the in-forwarder of every connected side, which may publish it locally there.
    `fuel` bounds the number of such hops; `C16_quiescent` shows 2 are enough. -/
def localPub (sides : List Nat) : Nat → Nat → Msg → List (Nat × Msg)
  | 0,        _, _   => []
  | fuel + 1, t, msg =>
    (t, msg) ::
      (match outFwd t msg with
       | none    => []
       | some pm => sides.flatMap (fun u =>
           match inFwd u pm with
           | none    => []
           | some lm => localPub sides fuel u lm))

/-- `ClientComponent.advance` / `AgentComponent.advance` -> `BaseComponent.advance`: the state update
    that is published carries the caller's `fwd` argument, or the class default when none is given;
    no origin marker is set (the out-forwarder stamps it) -/
def advanceMsg (dflt : Bool) (fwdArg : Option Bool) (body : Nat) : Msg :=
  { origin := none, fwd := some (match fwdArg with | some b => b | none => dflt), body := body }

/-- `BaseComponent._handle_rpc_msg`: the reply `RPCResultMessage(rpc_req=msg, val=..)` to a request as
    it was received.  `resDflt` is the `fwd` default of the reply's message type, `copiesFwd` says whether
    the constructor takes the flag over from the request (messages.py; both read by the translator).
    The reply carries the request's uid (`body`) and no origin marker. -/
def rpcReply (resDflt copiesFwd : Bool) (req : Msg) : Msg :=
  { origin := none,
    fwd    := if copiesFwd then (match req.fwd with | some b => some b | none => some true) else some resDflt,
    body   := req.body }

/-- an RPC round trip: the request appears on the local bus of side `r`; every copy of it that is
    delivered on side `h` is answered by the handler registered there, the reply appears on the local
    bus of `h`.  The result lists the deliveries of the REPLY. -/
def rpcRoundTrip (sides : List Nat) (fuel : Nat) (resDflt copiesFwd : Bool) (r h : Nat) (req : Msg) : List (Nat × Msg) :=
  ((localPub sides fuel r req).filter (fun d => d.1 = h)).flatMap
    (fun d => localPub sides fuel h (rpcReply resDflt copiesFwd d.2))

/-- `Session.__init__`: the origin marker of a side (`_module`).  Sides are numbered 0 = client, k + 1 = pilot k;
    with `fromPilotId` (what the code does: `os.environ.get('RP_PILOT_ID', 'client')`, read by the translator)
    the marker of a pilot is its own uid, otherwise all pilots carry one and the same marker -/
def moduleOf (fromPilotId : Bool) (side : Nat) : Nat :=
  if side = 0 then 0 else if fromPilotId then side else 1

/-- `Session.close()` of side `c` publishes `msg` on its local bus (the `terminate` message, what its
    managers send when they close).  With `stopFirst` the forwarders of `c` are gone by then: the message
    stays on `c`.  Otherwise it travels like any other message. -/
def closePub (stopFirst : Bool) (sides : List Nat) (fuel : Nat) (c : Nat) (msg : Msg) : List (Nat × Msg) :=
  if stopFirst then [(c, msg)] else localPub sides fuel c msg

/-- the sides that are still connected after side `c` closed its session: all others - unless the closing
    side told the proxy service to end the session's channels (`unregister`), which only the client (side 0)
    may do; `onlyPrimary` is what the code does (read by the translator) -/
def sidesAfterClose (onlyPrimary : Bool) (sides : List Nat) (c : Nat) : List Nat :=
  if c = 0 ∨ !onlyPrimary then [] else sides.filter (· ≠ c)

/-- the forwarder sets of a topology - the `sides` list of `localPub`: one for the client (side 0), one per pilot (its
    agent_0 session), and, were sub-agent sessions to crosswire as well (`subAgentsWire`, read from the source), one more
    on the pilot's side per sub-agent (`pilots`: pilot side and number of its sub-agents) -/
def wiredSides (subAgentsWire : Bool) (pilots : List (Nat × Nat)) : List Nat :=
  0 :: pilots.flatMap (fun p => p.1 :: (if subAgentsWire then List.replicate p.2 p.1 else []))

/-- number of deliveries to the local subscribers of side `t` -/
def deliveries (ds : List (Nat × Msg)) (t : Nat) : Nat :=
  (ds.filter (fun d => d.1 = t)).length

/-! ### the set-up of one forwarder: its publisher and its subscriber are created one after the other; the
subscriber's listener may hand the closure a message as soon as the subscription is live -/

inductive SetupEv where
  | mkPub | mkSub | arrives
deriving DecidableEq, Repr

def setupOrder (publisherFirst : Bool) : List SetupEv := if publisherFirst then [.mkPub, .mkSub] else [.mkSub, .mkPub]

/-- a message arrives after `i` steps of the set-up -/
def withArrivalAt (l : List SetupEv) (i : Nat) : List SetupEv := l.take i ++ [.arrives] ++ l.drop i

structure SetupSt where
  pub : Bool := false
  sub : Bool := false
  received : Bool := false     -- the closure was called with the message
  forwarded : Bool := false    -- ... and could publish it
deriving DecidableEq, Repr

def setupStep (s : SetupSt) : SetupEv → SetupSt
  | .mkPub   => { s with pub := true }
  | .mkSub   => { s with sub := true }
  | .arrives => if s.sub then { s with received := true, forwarded := s.pub } else s

def setupRun (evs : List SetupEv) : SetupSt := evs.foldl setupStep {}

end RPVerif.Bridge
